#!/bin/bash
# usage: tools/seeded_all.sh <tier> [ids...]   runs, for every /verif/seeded/<Cxx>-<n>/patch.diff, the check of its own property
T=${1:-quick}; shift
cd /verif
for d in ${@:-seeded/C*}; do
  d=${d%/}
  [ -f $d/patch.diff ] || continue
  git -C /repo apply --check /verif/$d/patch.diff 2>/dev/null || { echo "$(basename $d): does not apply to the current tree (obsolete, see meta.json)"; continue; }
  id=$(basename $d | cut -d- -f1)
  r=$(tools/seeded_run.sh /verif/$d/patch.diff $T $id 2>&1 | tail -1)
  echo "$(basename $d): $r"
  cp work/seeded-$id.out work/seeded-$(basename $d).out 2>/dev/null
done
