#!/usr/bin/env python3
# Regenerates /verif/known_findings.json from the table below (run by hand when a finding is
# recorded or repaired; the checks never write this file).
import json
K=[]
def known(prop, sig, what): K.append({"property":prop,"status":"known","signature":sig,"what":what})
def fixed(prop, commit, sig, what): K.append({"property":prop,"status":"fixed","signature":sig,"commit":commit,"what":what,
    "line": f"fixed: property={prop} {commit} {what}"})

# ---------------- repaired in /repo (a fixed entry suppresses nothing)
fixed("C09","03c6ca7","pin:formfeed_escape","'\\f' in a literal was stored as 14 instead of 12")
fixed("C10","c381227","pin:calc_logical_not","constant calculator evaluated ! as bitwise complement (!0 = -1)")
fixed("C01","4b13a9b","pin:eq_binds_looser_than_relational","== and != shared the precedence level of < <= > >= ('a == b < c' parsed as '(a == b) < c')")
fixed("C10","4b13a9b","pin:calc_eq_precedence","same precedence defect in the constant calculator")
fixed("C16","ecb1081","panic:generate_arithm:div0","'a = 1 / 0;' panicked in constant folding")
fixed("C16","6c1aacb","panic:pratt:mulass","'a *= 2;' panicked inside the Pratt parser (operator not registered)")
fixed("C16","a537850","panic:syntax_error:index","error at offset 0 ('short *p;') indexed past mapped_lines")
fixed("C16","fd20075","panic:insert_code:lastline","--insert-code with a statement on the last line indexed past mapped_lines")
fixed("C16","9ee315d","hang:recursive_macro","'#define A A+1' then a use of A never returned (replace_all loop)")
fixed("C05","a2ed830","pin:literal_order","two string literals in one expression got cctmpN names in hash-map order")
fixed("C05","8093479","pin:function_order","prototype + later definitions gave two functions the same order; sorted_functions varied per process")
fixed("C18","1a178e8","pin:csleep_then_flag_test","csleep (DEC DUMMY / PLA) left stale flag knowledge: 'X = a; csleep(5); if (X == 0)' branched on DEC's result")
fixed("C02","75469ae","pin:inline_asm_register_knowledge","optimizer kept register knowledge across asm(): 'a = 5; asm(\"LDA #0\",2); b = 5;' stored 0 at -O1")
fixed("C01","42f4e70","pin:two_calls_in_expression","a call's result in A was not marked live: 'c = f(a) + g(b)' and 'x = f() - (y & 1)' clobbered it")
fixed("C18","0221e61","pin:strobe_after_load","strobe()'s STA was unprotected and removed by the peephole pass after load()/assignment of the same register")
fixed("C06","7169c92","pin:parse_error_in_include","pest parse errors always carried included_in: None")
fixed("C01","940e597","pin:flags_after_16bit_shift_assign","'s >>= 5' left stale flag knowledge: following 'if (l)' tested ROR's flags")
fixed("C01","d66ec89","pin:flags_after_sty_assign","'l = Y' (STY) kept the record that the flags describe l")
fixed("C02","e9684a4","pin:redundant_ldy_removed_flags_needed","peephole removed a redundant LDX/LDY whose N/Z result a following branch consumed")
fixed("C02","cbd1889","pin:optimizer_flag_tracking","peephole pass kept its flag record across TXA/AND/TAX etc. and removed a load whose flags were needed")

fixed("C10","6b96bfa","C10:bnot_const_fold","'~' of a non-literal constant expression was folded as x ^ 0xff: 's = ~(7 + 100)' stored 148 instead of -108")
fixed("C11","152ed0f","pin:url_in_block_comment","a // inside a block comment hid the comment's */: '/* http://x */ char a;' swallowed the following lines")
fixed("C11","e6f41ac","pin:blank_inside_aligned","'aligned( 256 )' was a syntax error: no white space allowed inside aligned()/scattered()")
fixed("C11","bee0e25","pin:blank_before_macro_arguments","'SQ (2)' was not expanded and '#define SQ(x ) ...' became an object-like macro")
fixed("C02","67a93c8","pin:pairing_across_inline_asm","peephole pass paired the instructions before and after an asm() line (STA b / asm / LDA b lost the load)")
fixed("C16","4eb5c4a","pin:huge_literal","integer literals that do not fit i32 (or '--5') panicked in parse_int")
fixed("C16","c535510","pin:only_a_comment","input that preprocesses to nothing panicked in the parse-error path (mapped_lines empty)")
fixed("C16","9b5c036","pin:calc_shift_overflow","constant calculator panicked on '1<<40' and on errors nested in a sub-expression; results that do not fit are now rejected (also C10)")
fixed("C16","8c8b067","pin:fold_shift_overflow","statement-level folding panicked on overflowing + - << and bad shift counts (also C10)")
fixed("C16","ce2484c","pin:void_assigned_to_memory","'a = f();' / 'Y = f();' with a void f reached unreachable!()")
fixed("C16","1cef5be","pin:define_without_name","'#define 4' and '#define ADD(a,)' panicked in the preprocessor")
fixed("C16","15f7470","pin:calc_infix_not","grammar accepted ! and ~ as infix operators of constant expressions; the Pratt parser panicked")
fixed("C16","6944e64","pin:stray_literal_reference","'@1@' typed in the source indexed the literal table out of bounds")
fixed("C16","8085c0b","pin:sizeof_register","'sizeof X' panicked (X is not in the variable table)")
fixed("C16","ad830f9","pin:prototype_only_name_as_value","'&X', a prototype-only function name used as a value, strobe(f) panicked in get_variable()")
fixed("C16","80b979f","pin:string_in_subscript","'t[\"str\"]' referred to a literal variable that was never declared and panicked")
fixed("C16","be7aece","pin:bank_number_overflow","'bank4294967296' panicked")
fixed("C16","5dd6ea3","pin:define_duplicate_parameter","'#define ADD(a,a)' panicked building the macro regex")
fixed("C16","e80413a","pin:negative_asm_size","asm(\"NOP\", 1 -128): negative size cast to u32, size_bytes() overflowed")
fixed("C16","d0a666b","pin:absurd_subscript","'sc[2147483647]' on a superchip array overflowed the port offset addition")
fixed("C16","3043510","opts:hostile_define","-D with a non-identifier name panicked in Regex::new; -D A=A+1 / -D \"\" looped forever")

fixed("C14","72c107c","C14:append_code_protected","inlining (append_code) dropped the 'protected' mark of copied instructions: an inlined load()/strobe()/store() lost its access at -O1")
fixed("C14","30096ca","C14:long_branch_gt_protected","the long-branch repair of a '>' test emitted an unprotected BEQ over the inserted JMP; after inlining the optimiser paired it away")
fixed("C17","1e41d5c","pin:superchip_short_shift_is_rmw","'s <<= 1' on a short in split-port cartridge RAM used ASL/ROL on memory (read-modify-write on the port pair)")
fixed("C01","4ee826f","pin:or_zero_before_push","'x | 0' / 'x + 0' shortcut returned the left operand after A had already been pushed: unbalanced PHA")
fixed("C18","f02fd32","pin:load_then_flag_test","load() / store() left stale flag knowledge: 'l = a; load(*P); if (l == 0)' branched on the flags of *P")
fixed("C18","d6d7fdd","pin:asm_then_flag_test","asm() left stale flag knowledge: 'l = a; asm(\"LDA #1\", 2); if (l == 0)' tested the flags of the inline code")
fixed("C15","dd8ce8b","pin:nested_if_else_chain","the grammar gave an if any number of else clauses and kept the first: 'if (a) if (b) S1 else S2 else S3' dropped S3")

fixed("C05","968a87e","pin:parameter_rank","a prototype followed by its definition re-declared the parameter cells without a fresh rank: variable order and addresses followed hash-map order (ef0f4a6: same for the DUMMY cell)")
fixed("C09","74d08d1","pin:sibling_call_literals","'g(\"aa\") + g(\"bb\")': literals of sibling sub-expressions were both named cctmpN, the second replaced the first")
fixed("C06","1c3e2b9","C06:type_too_complex_location","'short *p;' (global, local, parameter) was reported at line 1 of the file instead of its own line")
fixed("C16","c0b2581","pin:if_continue_in_switch","'switch (a) { case 1: if (a) continue; }' outside a loop reached unreachable!() in check_branches")
fixed("C16","1052080","pin:banked_call_without_rom_select","a call into another bank under 3E without a declared ROM_SELECT unwrapped None in get_variable()")
fixed("C13","acc7223","C13:store_to_array_name","'tab = 5;' / 'tab++;' on an array name emitted STA #<tab / INC #<tab")
fixed("C13","2fde23b","pin:goto_undefined_label","'goto nowhere;' was accepted and emitted JMP .nowhere with no such label")
fixed("C13","9447560","pin:goto_label_named_in_asm_text_only","follow-up of 2fde23b: a goto target whose name merely occurred inside the text of an asm() statement (operand, comment, substring) counted as defined")
fixed("C13","ef0c9a9","pin:continue_in_switch_in_dowhile","'do { switch (a) { case 1: continue; } } while (c);' jumped to .dowhileconditionN, a label that was never emitted")

fixed("C01","5a7a314","pin:else_after_short_circuit","the else branch of 'if (a && b)' inherited the flag knowledge of the last test although && / || jump to it from several tests")
fixed("C13","93aa1e9","C13:inline_function_name_as_value","'x = g ^ f;' with an inline f emitted '#<f', a symbol no emitted routine defines")

fixed("C09","b9f09de","pin:escaped_backslash_then_escaped_quote","the string scanner took the escaped quote of \"a\\\\\\\"b\" for the end of the literal; in a skipped #if region a /* after it swallowed the following lines")

fixed("C01","5ccfe0d","pin:flags_leak_across_functions","flag knowledge survived from the end of one function into the next: a function starting with 'if (g2)' omitted the load")

fixed("C01","914b4a3","pin:cmp_indexed_vs_register","'arr[Y] > Y' compared Y with itself: the recursive call through the accumulator used the unexchanged operand and operator")
fixed("C15","914b4a3","pin:mirror_register_right","'Y < a[Y]' versus 'a[Y] > Y' differed (same defect)")

fixed("C01","50c7af4","pin:switch_computed_case0","switch on a computed value: 'case 0' after another case tested the flags of the previous CMP")

fixed("C01","92d89a1","pin:y_self_assign_flags","'Y = Y;' emits nothing but recorded that the flags describe Y: a following 'switch (Y) { case 0:' branched on stale flags")
fixed("C01","1be9267","pin:flags_after_16bit_compare","a 16-bit comparison left the previous flag knowledge in place: 'Y = 7; if (s < t || Y)' tested the SBC's flags as Y's")
fixed("C02","bb38020","pin:removed_lda_flags","the peephole pass recorded 'flags describe A' for an LDA it had just removed and then removed a second load whose flags a branch consumed")

fixed("C06","da079e1","C06:include_without_final_newline","a header whose last line has no newline was glued to the line after the #include: later diagnostics of the including file were one line early")

fixed("C16","b26eece","pin:huge_array_size","'short t[2147483647];' overflowed the address arithmetic of the instruction emitter (attempt to add with overflow)")

fixed("C09","118e5f7","pin:macro_name_in_character_constant","with '#define a 5' the character constant 'a' was turned into '5' by macro substitution")

fixed("C02","9843b33","pin:sta_lda_pair_flags","the peephole rule 'STA x / LDA x' removed the reload although a branch tested its flags (which then were those of an earlier CMP)")

fixed("C02","f386ac4","pin:sta_lda_pair_flags","follow-up of 9843b33: the STA x / LDA x rule looked only one line ahead for the instruction consuming the flags; with further stores in between the reload was still removed")
fixed("C01","732fd54","pin:short_array_rmw_incdec","'--sa[2]' / 'sa[Y]++' on a short (or pointer) array element selected by a constant or by Y updated the low byte only (family short_array_rmw; found again by C17's enumerated update forms on cartridge-RAM arrays)")
fixed("C01","9d2cdcc","pin:short_array_rmw","'sa[1] >>= 1' / 'sa[Y] <<= 1' on a short array element selected by a constant or by Y shifted the low byte as an 8-bit value")
fixed("C16","1b4eaf7","pin:macro_applied_to_its_own_name","'#define G(f) f(f)' then 'G(G)': the substitution loop never reached a fixed point (hang); now an error")
fixed("C16","00432da","pin:address_offset_overflow","'r = (arr >> 8) + 16777216;', 'p = arr + 2147483647 + 1;': offsets on the address of a constant array overflowed (panic)")
fixed("C16","00432da","pin:pointer_initialiser_offset_overflow","'const char *p = arr - -2147483648;' (also inside a pointer table) overflowed sign * offset (panic)")
fixed("C16","0136e70","pin:insert_code_multibyte_character","--insert-code with a line holding multi-byte characters ('€') sliced the source inside a character (panic); also shifted the lines of later diagnostics after non-ASCII text in an included assembler file (C06)")
fixed("C16","0136e70","pin:insert_code_truncation_inside_character","--insert-code truncated a line longer than 256 bytes in the middle of a multi-byte character (panic)")
fixed("C18","0532010","C18:csleep_dummy_unprotected","csleep(3/5/9/10) emitted its STA/DEC DUMMY unprotected (the peephole pass could pair it away) and panicked on targets that declare no DUMMY")
fixed("C16","f68e583","pin:header_including_itself","a header that includes itself recursed until the stack overflowed (abort)")
fixed("C16","a65624f","pin:inline_function_calling_itself","an inline function calling itself pasted its unfinished body into itself; check_branches then hit unreachable!()")
fixed("C02","26ee78c","pin:inc_of_aliased_element","'if (arr[X] == 3) { arr[1]++; if (arr[X] == 4) ...': INC arr+1 did not invalidate the cached 'arr,X', the second load was removed at -O1")
fixed("C02","d2267d2","pin:compare_fold_symbolic_immediate","'X = arr; if (X != 144)': CPX #144 / BEQ folded away because the texts '#<arr' and '#144' differ, although the values may be equal")
fixed("C01","b85f90b","pin:signed_return_value","'signed char f()': the return type's signedness was compared with the string \"return_signed\" and never recorded; 'if (f() < 2)' compared unsigned")
fixed("C01","d7a111d","pin:return_postincrement","'return i++;' emitted the INC after the RTS (dead); and the caller took the flags left by the callee for those of the returned value ('t = f(); if (t)')")
fixed("C01","d7a111d","pin:y_scratch_in_return","'return *p;' returned before Y was restored (formerly a recorded finding; repaired by the same commit: postponed work is emitted before the function is left)")
fixed("C01","b0b4035","pin:carry_after_register_step","'r = a - b; X--; if (X >= 1)': carry_flag_ok survived DEX and the test branched on the subtraction's carry")
fixed("C13","f3490e0","pin:duplicate_user_label","'l1: ...; l1: ...' was accepted and emitted .l1 twice")
fixed("C13","f3490e0","pin:user_label_named_like_a_generated_one","a user label 'forend1' / 'fix1' collided with the label the code generator makes up")
fixed("C04","54265b2","pin:memory_class_of_second_declarator","'char * const HI = 0x280, * const LO = 0x81;': LO inherited HI's memory class, 'STA LO' was counted 3 bytes and assembles to 2")
fixed("C18","c9bbfed","pin:strobe_with_subscript","'strobe(REG[2]);' ignored the subscript and wrote REG")
fixed("C18","bb09e77","pin:store_with_computed_subscript","'load(v); store(arr[i + 1]);' computed the subscript in A and stored i + 1")
fixed("C01","344f088","pin:compound_assignment_on_pointer_element","'pp[1] += 255;' on 'char *pp[2]' updated the low byte only")
fixed("C01","d495362","pin:flags_after_sty_indexed","'t[X] = a; t[X] = Y; if (t[X])' tested the flags of a (STY does not set flags, the record was kept)")
fixed("C01","ba22ebf","pin:flags_after_16bit_increment","'w++; if (w < 0)' on a short used the N flag of the low-byte INC")
fixed("C01","b6d2667","pin:truth_of_indexed_short_element","'if (s[X])' on an array of shorts tested the low byte only")
fixed("C09","5427877","pin:quote_character_constant","the character constant '\"' was taken for the start of a string literal")
fixed("C09","27b9453","pin:literal_sizes_in_pointer_table","string literals in a table of pointers were recorded with size = index in the table")
fixed("C13","b70365a","pin:address_of_function_never_called","'p = f;' with f never called: f was not in the in-use set, 'LDA #<f' named a routine nobody emits")
fixed("C01","3f12a13","pin:signed_array_element_variable_subscript","'s = sa[i];' (signed char array, variable subscript) zero-extended the element")
fixed("C08","7967774","pin:parameter_named_like_a_macro","'#define x 5', '#define F(x) ((x)+1)': the parameter was replaced by the earlier macro when the body was stored, F(2) gave 6")
fixed("C08","cc21c89","pin:body_names_a_later_macro","'#define FIRST SECOND', '#define SECOND 9': FIRST expanded to SECOND and stopped (only macros named in the original text were applied)")
fixed("C08","b0f5f26","pin:tab_after_define","'#define<TAB>SEVEN<TAB>7' was refused (directive and operand were split at a blank only); same for #ifdef #ifndef #undef (also C11)")
fixed("C07","56dc566","C07:numeric_condition_values","'#if X' with X = 2 was false and '#if X == 3' true: only the literal 1 counted as true and == compared truth values")
fixed("C01","c77e1a7","pin:identifier_starting_with_a_keyword","'return_value = 3;' parsed as 'return _value = 3;' and 'elsewhere = 3;' after an if as its else part: keywords were matched as prefixes of identifiers")
fixed("C11","c77e1a7","pin:do_without_a_blank","'do{' without a blank after the keyword was a syntax error")
fixed("C11","61bcb00","C11:blank_before_include","white space or a comment in front of #include made the directive fail ('Expected < or \" in #include filename spec'); covered by the multi-file kind of C11")
fixed("C09","0bbcb57","pin:macro_parameter_in_character_constant","'#define CHK(x) ((x) == 'x')': the parameter was substituted inside the character constant of the body")

# ---------------- recorded, not repaired (each has a pinned witness in harness/src/pins.rs and a
# generator rule that keeps the random pools out of the family)
C01=[
 ("postinc_in_condition","post-increment inside a condition is skipped on the not-taken path: 'if (i++ == 3)' leaves i unchanged when the test fails"),
 ("while_postdec","'while (i--)' does not decrement on the exit test (i ends 0, C says 255)"),
 ("signed_relational_no_overflow_flag","signed < <= > >= use BMI/BPL without the V flag: wrong when the operands are >= 128 apart (100 < -100 is taken)"),
 ("wide_dest_bnot","'s = ~s' on a short complements the low byte twice (high byte = ~low)"),
 ("wide_dest_comparison_value","'s = (g == 101) + s': comparison re-evaluated for the high byte and clobbers the carry"),
 ("wide_dest_call","'s = f()' stores the char result into both bytes of the short"),
 ("wide_dest_ternary","'s = g ? a : b' stores the selected char into both bytes of the short"),
 ("compare_const_exceeds_type","a char compared with a constant above 255 is compared with the constant's low byte ('g >= 4660' is true for g = 0x40)"),
 ("unsigned_relational_zero","non-negated 'x > 0' on an unsigned operand emits no branch at all ('if (l > 0) break;' never breaks)"),
 ("unsigned_less_than_zero","'x < 0' / 'x >= 0' on an unsigned operand test the sign bit (true for x = 200)"),
 ("cond_value_in_arith","a comparison/logical value as right operand of arithmetic pushes A twice and pops once ('(a ^ b) + (c || c)' corrupts the stack)"),
 ("ysave_in_condition","arr[expr] inside a condition saves Y and pushes A but the taken branch skips the restore (loop counter Y corrupted, stack leak)"),
 ("y_scratch_with_y","'arr[g & 7] = Y' stores the scratch index, not the programmer's Y"),
 ("deref_with_y","'arr[Y] = *p' uses Y = 0 for both accesses"),
 ("wide_compare_le_gt","16-bit '<=' and '>' test the two difference bytes for zero separately (0 <= 0xffff is false)"),
 ("mixed_signedness_follows_left","signedness of 8-bit arithmetic follows the left operand: '(signed + unsigned) >> 6' shifts arithmetically"),
 ("wide_condition_arith","'if (s & s)' on shorts tests the low byte only"),
 ("nested_call_clobbers_static_params","'f(10, f(3, 1))': the inner call overwrites the outer call's already-stored first argument"),
 ("y_scratch_call_arg","'f(1, arr[l & 7])' pops the stack once too often"),
 ("y_scratch_with_call","'r = *p + f(2, 3)' pushes without popping (stack corrupted)"),
 ("deref_in_ternary","'c ? *p : k' restores Y from the scratch cell on the arm that never saved it"),
]
for n,w in C01: known("C01","pin:"+n,w)

known("C01","pin:wide_dest_shift","'s = s << 5' on a short shifts the low byte and derives the high byte from the shifted low byte ('s <<= 5' is correct)")
known("C15","pin:wide_mirror","16-bit 't >= s' versus 's <= t' differ (C01 family wide_compare_le_gt)")
known("C15","pin:wide_shift_assign","'s <<= 5' versus 's = s << 5' on a short differ (C01 family wide_dest_shift)")
known("C17","pin:pointer_into_split_port_ram","a char pointer set to a superchip / bank-RAM array holds the read-port address: a store through it writes the read port")
known("C16","pin:deep_blocks_5000","5000 nested blocks (also 'if' chains and parentheses at similar depths) overflow pest's recursive descent on the 8 MiB stack: the process aborts; depth 512 is fine")
known("C08","pin:paste_keeps_argument_blanks","'CAT(g, 2)' with '#define CAT(a,b) a##b' yields 'g 2': arguments keep their surrounding blanks, so ## does not form one token")
known("C08","pin:macro_argument_nesting_limit","a macro argument that (after expansion) nests more than four parenthesis levels no longer matches: the macro call is silently left unexpanded")
known("C08","pin:paste_with_non_parameter","'#define M(a) a##_t': the template '$a_t' names a capture group that does not exist, the argument is dropped")
known("C10","pin:calc_nested_ternary_middle","the constant calculator encodes ?: as two binary operators with a magic 'not taken' value: a bare ?: as middle operand ('0 ? 1 ? 5 : 6 : 7') yields 6 instead of 7")
known("C11","pin:macro_call_across_lines","a function-like macro call whose '(' or arguments continue on the next line is never expanded (macros are matched line by line)")
known("C11","pin:comment_glues_tokens","a comment is removed without leaving a blank: 'unsigned/**/char a;' becomes 'unsignedchar a;' (the repair, one pushed blank, changes the exact text two existing preprocessor tests assert)")
known("C11","pin:blank_after_hash","'# define N 3' (white space or a comment between '#' and the directive name) is an unrecognised directive")

json.dump({"comment":"generated by tools/mk_known.py; checks read it, never write it","findings":K}, open('/verif/known_findings.json','w'), indent=1)
print(len(K),"entries")
