#!/usr/bin/env python3
# Regenerates the tables of DESIGN.md sections 8.2 and 8.3 from known_findings.json
# (run by hand after tools/mk_known.py).
import json, re, subprocess
K = json.load(open('/verif/known_findings.json'))
K = K if isinstance(K, list) else K.get('findings', K)
esc = lambda s: s.replace('||', '//').replace('|', '/')
fixed = [k for k in K if k['status'] == 'fixed']
known = [k for k in K if k['status'] == 'known']
nfix = len([l for l in subprocess.run(['git', '-C', '/repo', 'log', '--format=%s'], capture_output=True, text=True).stdout.splitlines() if l.startswith('fix:')])
t82 = "| property | commit | what failed |\n|---|---|---|\n" + "".join(f"| {k['property']} | {k['commit']} | {esc(k['what'])} |\n" for k in fixed)
t83 = "| property | signature | what fails |\n|---|---|---|\n" + "".join(f"| {k['property']} | `{k['signature']}` | {esc(k['what'])} |\n" for k in known)
d = open('/verif/DESIGN.md').read()
d = re.sub(r"(### 8\.2 Genuine defects repaired in /repo \()\d+( `fix:` commits\))", lambda m: f"{m.group(1)}{nfix}{m.group(2)}", d)
def repl(d, header_re, table):
    m = re.search(header_re, d)
    assert m, header_re
    start = d.index("| property |", m.end())
    end = start
    for line in d[start:].splitlines(keepends=True):
        if not line.startswith("|"):
            break
        end += len(line)
    return d[:start] + table + d[end:]
d = repl(d, r"### 8\.2 ", t82)
d = repl(d, r"### 8\.3 ", t83)
open('/verif/DESIGN.md', 'w').write(d)
print(nfix, "fix commits;", len(fixed), "fixed entries;", len(known), "known entries")
