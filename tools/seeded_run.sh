#!/bin/bash
# usage: tools/seeded_run.sh <patch.diff> <tier> <ID> [<ID> ...]
# Applies a seeded change to /repo's working tree, runs the named checks against it, and
# undoes the change straight afterwards (the change is never committed).  One line per check.
P="$(readlink -f "$1")"; T="$2"; shift 2
cd /repo || exit 2
if ! git diff --quiet -- src; then echo "refusing: /repo/src has uncommitted changes"; exit 2; fi
if ! git apply --check "$P" 2>/dev/null; then echo "patch does not apply: $P"; exit 2; fi
git apply "$P"
trap 'git -C /repo checkout -- . ' EXIT
cd /verif
for id in "$@"; do
  out=/verif/work/seeded-$id.out
  s=$(date +%s)
  ./check "$id" "$T" > "$out" 2>&1
  rc=$?
  e=$(date +%s)
  echo "$id rc=$rc t=$((e-s))s viol=$(grep -c '^VIOLATION' "$out") $(grep -m1 -A1 '^VIOLATION' "$out" | tail -1 | cut -c1-220) $(grep -m1 INCONCLUSIVE "$out" | cut -c1-160)"
done
