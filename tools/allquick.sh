#!/bin/bash
# run every quick check, record exit code and time
cd /verif
for id in C01 C02 C03 C04 C05 C06 C07 C08 C09 C10 C11 C12 C13 C14 C15 C16 C17 C18; do
  s=$(date +%s)
  ./check $id ${1:-quick} > work/q-$id.out 2>&1
  rc=$?
  e=$(date +%s)
  echo "$id rc=$rc t=$((e-s))s $(grep -c '^VIOLATION' work/q-$id.out) viol $(grep -c '^KNOWN-FINDING' work/q-$id.out) known $(grep -m1 INCONCLUSIVE work/q-$id.out | cut -c1-200)"
done | tee work/all-${1:-quick}.log
