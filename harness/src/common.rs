// Helpers shared by the monitors.

use crate::asm6502::OPCODES;
use crate::cmodel::*;
use crate::driver::*;
use crate::emu6502::{Machine, Stop};
use crate::exec::*;
use crate::framework::CaseResult;
use crate::layout::Built;
use serde_json::{json, Value};

pub enum Prep {
    Ready(Obs, Built),
    /// class string describing why this case is not executed
    Skip(String),
}

pub fn norm_msg(m: &str) -> String {
    // strip identifiers / numbers so that messages group into classes
    let mut out = String::new();
    for w in m.split_whitespace().take(9) {
        if w.chars().any(|c| c.is_ascii_digit()) || w.contains('_') {
            out.push_str("# ");
        } else {
            out.push_str(w);
            out.push(' ');
        }
    }
    out.trim().to_string()
}

pub fn outcome_class(o: &Outcome) -> String {
    match o {
        Outcome::Ok(_) => "accepted".into(),
        Outcome::Err(e) => format!("rejected [{}]: {}", e.kind, norm_msg(&e.msg)),
        Outcome::Panic { site, .. } => format!("panic at {} (C16's business)", site),
    }
}

pub fn prepare(src: &str, opts: &Opts) -> Prep {
    let o = compile_src(src, opts);
    match o {
        Outcome::Ok(obs) => match build(&obs) {
            Ok(b) => {
                if b.asm.errors.iter().any(|e| e.kind == "image-too-large") {
                    return Prep::Skip("image larger than one 4K bank (not executed)".into());
                }
                if !b.asm.errors.is_empty() {
                    let e = &b.asm.errors[0];
                    return Prep::Skip(format!("does not assemble (C13's business): {}", e.kind));
                }
                if !b.asm.globals.contains_key("main") {
                    return Prep::Skip("no main".into());
                }
                Prep::Ready(obs, b)
            }
            Err(e) => Prep::Skip(format!("layout: {}", norm_msg(&e))),
        },
        other => Prep::Skip(outcome_class(&other)),
    }
}

/// reference run; None when the input leaves the defined / unambiguous domain
pub fn reference(p: &Program, input: &State, max_steps: u64) -> Result<(State, Vec<TraceEv>, u64), String> {
    let mut iso = Interp::new(p, EvalMode::Iso, input.clone(), max_steps);
    if let Err(e) = iso.run_main() {
        return Err(format!("reference left the defined domain: {:?}", e));
    }
    let mut ctx = Interp::new(p, EvalMode::Ctx, input.clone(), max_steps);
    if let Err(e) = ctx.run_main() {
        return Err(format!("ctx reference left the defined domain: {:?}", e));
    }
    // (the digests differ as soon as the two readings take different branches or store different
    // values anywhere: differences that cancel out in the final state - the compiler may follow
    // one reading here and the other there - are ambiguous too)
    if diff_states(p, &iso.st, &ctx.st, true).is_some() || iso.trace != ctx.trace || iso.flow != ctx.flow {
        return Err("ambiguous (8-bit vs promoted evaluation differ)".into());
    }
    Ok((iso.st, iso.trace, iso.steps))
}

/// ISO reference only: Err when the input leaves the defined domain (used by the differential
/// monitors, which do not need the 8-bit-context agreement)
pub fn reference_defined(p: &Program, input: &State, max_steps: u64) -> Result<(State, Vec<TraceEv>, u64), String> {
    let mut iso = Interp::new(p, EvalMode::Iso, input.clone(), max_steps);
    if let Err(e) = iso.run_main() {
        return Err(format!("reference left the defined domain: {:?}", e));
    }
    Ok((iso.st, iso.trace, iso.steps))
}

pub fn cycle_budget(steps: u64) -> u64 {
    20_000 + steps * 400
}

pub fn record_exec_coverage(r: &mut CaseResult, m: &Machine) {
    for o in OPCODES {
        let n = m.op_hist[o.2 as usize];
        if n > 0 {
            r.set("executed mnemonic/mode", &format!("{} {:?}", o.0, o.1));
        }
        if m.br_taken[o.2 as usize] > 0 {
            r.set("branches taken", o.0);
        }
        if m.br_not[o.2 as usize] > 0 {
            r.set("branches not taken", o.0);
        }
    }
    r.count("instructions executed", m.instr_count);
}

pub fn stop_str(s: &Stop) -> String {
    match s {
        Stop::Halt => "halt".into(),
        Stop::Budget => "cycle budget exceeded".into(),
        Stop::Fault(f) => format!("fault: {}", f),
    }
}

pub fn listing(obs: &Obs) -> String {
    let mut s = String::new();
    for f in &obs.funcs {
        if let Some(t) = &f.text {
            s.push_str(&format!("{}:\n{}", f.name, t));
        }
    }
    s
}

pub fn replay_json(kind: &str, idx: u64, src: &str, extra: Value) -> Value {
    json!({"kind": kind, "idx": idx, "source": src, "detail": extra})
}

/// names of AST node kinds present in a program (coverage evidence)
pub fn ast_kinds(p: &Program, out: &mut std::collections::BTreeSet<String>) {
    fn lv(l: &LV, out: &mut std::collections::BTreeSet<String>) {
        match l {
            LV::Var(_) => {
                out.insert("lv:var".into());
            }
            LV::X => {
                out.insert("lv:X".into());
            }
            LV::Y => {
                out.insert("lv:Y".into());
            }
            LV::Idx(_, i) => {
                out.insert(format!("lv:arr[{}]", idx_kind(i)));
                ex(i, out);
            }
            LV::PtrIdx(_, i) => {
                out.insert(format!("lv:ptr[{}]", idx_kind(i)));
                ex(i, out);
            }
            LV::Deref(_) => {
                out.insert("lv:*ptr".into());
            }
        }
    }
    fn idx_kind(e: &Expr) -> &'static str {
        match e {
            Expr::Num(_) | Expr::Hex(_) => "const",
            Expr::Lv(LV::X) => "X",
            Expr::Lv(LV::Y) => "Y",
            Expr::Lv(LV::Var(_)) => "var",
            _ => "expr",
        }
    }
    fn ex(e: &Expr, out: &mut std::collections::BTreeSet<String>) {
        match e {
            Expr::Num(_) | Expr::Hex(_) => {
                out.insert("const".into());
            }
            Expr::Lv(l) => lv(l, out),
            Expr::Un(op, a) => {
                out.insert(format!("un:{:?}", op));
                ex(a, out)
            }
            Expr::Bin(op, a, b) => {
                out.insert(format!("bin:{:?}", op));
                ex(a, out);
                ex(b, out)
            }
            Expr::Assign(l, r) => {
                out.insert("assign".into());
                lv(l, out);
                ex(r, out)
            }
            Expr::OpAssign(op, l, r) => {
                out.insert(format!("opassign:{:?}", op));
                lv(l, out);
                ex(r, out)
            }
            Expr::IncDec { lv: l, post, inc } => {
                out.insert(format!("{}{}", if *post { "post" } else { "pre" }, if *inc { "inc" } else { "dec" }));
                lv(l, out)
            }
            Expr::Cond(a, b, c) => {
                out.insert("ternary".into());
                ex(a, out);
                ex(b, out);
                ex(c, out)
            }
            Expr::Call(_, args) => {
                out.insert(format!("call/{}", args.len()));
                for a in args {
                    ex(a, out)
                }
            }
            Expr::Comma(a, b) => {
                out.insert("comma".into());
                ex(a, out);
                ex(b, out)
            }
            Expr::Paren(a) => ex(a, out),
            Expr::AddrOf(_) => {
                out.insert("addr-of-array".into());
            }
            Expr::Sizeof(_) => {
                out.insert("sizeof".into());
            }
        }
    }
    fn st(s: &Stmt, out: &mut std::collections::BTreeSet<String>) {
        match s {
            Stmt::Expr(e) => ex(e, out),
            Stmt::If(c, t, e) => {
                out.insert(if e.is_some() { "if-else".into() } else { "if".into() });
                ex(c, out);
                st(t, out);
                if let Some(e) = e {
                    st(e, out)
                }
            }
            Stmt::While(c, b) => {
                out.insert("while".into());
                ex(c, out);
                st(b, out)
            }
            Stmt::DoWhile(b, c) => {
                out.insert("do-while".into());
                ex(c, out);
                st(b, out)
            }
            Stmt::For(a, b, c, d) => {
                out.insert("for".into());
                for e in [a, b, c].iter().copied().flatten() {
                    ex(e, out)
                }
                st(d, out)
            }
            Stmt::Switch(e, cases, d) => {
                out.insert("switch".into());
                ex(e, out);
                for c in cases {
                    if c.0.len() > 1 {
                        out.insert("switch:multi-value case".into());
                    }
                    if !matches!(c.1.last(), Some(Stmt::Break)) {
                        out.insert("switch:fall-through".into());
                    }
                    for s in &c.1 {
                        st(s, out)
                    }
                }
                if let Some(d) = d {
                    out.insert("switch:default".into());
                    for s in d {
                        st(s, out)
                    }
                }
            }
            Stmt::Break => {
                out.insert("break".into());
            }
            Stmt::Continue => {
                out.insert("continue".into());
            }
            Stmt::Return(e) => {
                out.insert("return".into());
                if let Some(e) = e {
                    ex(e, out)
                }
            }
            Stmt::Block(v) => {
                for s in v {
                    st(s, out)
                }
            }
            Stmt::Decl(_, e) => {
                out.insert("local-decl".into());
                if let Some(e) = e {
                    ex(e, out)
                }
            }
            Stmt::Goto(_) => {
                out.insert("goto".into());
            }
            Stmt::Labeled(_, s) => {
                out.insert("label".into());
                st(s, out)
            }
            Stmt::Asm(..) => {
                out.insert("asm".into());
            }
            Stmt::Load(e) => {
                out.insert("load".into());
                ex(e, out)
            }
            Stmt::Store(l) => {
                out.insert("store".into());
                lv(l, out)
            }
            Stmt::Strobe(_) => {
                out.insert("strobe".into());
            }
            Stmt::CSleep(_) => {
                out.insert("csleep".into());
            }
            Stmt::Empty => {}
        }
    }
    for f in &p.funcs {
        if f.inline {
            out.insert("inline-function".into());
        }
        if !f.params.is_empty() {
            out.insert("parameters".into());
        }
        for s in &f.body {
            st(s, out)
        }
    }
    for v in &p.vars {
        match (&v.kind, &v.scope) {
            (VarKind::Scalar(t), sc) => {
                out.insert(format!("var:{:?}:{}", t, match sc {
                    Scope::Global => "global",
                    Scope::Local(_) => "local",
                    Scope::Param(_) => "param",
                }));
            }
            (VarKind::Array(t, _), _) => {
                out.insert(format!("var:array:{:?}", t));
            }
            (VarKind::ConstTab(..), _) => {
                out.insert("var:const-table".into());
            }
            (VarKind::Ptr, _) => {
                out.insert("var:pointer".into());
            }
            (VarKind::ConstVal(..), _) => {
                out.insert("var:const".into());
            }
            (VarKind::HwReg(_), _) => {
                out.insert("var:hw-register".into());
            }
        }
    }
}


/// co-execute two compilations of the same source from identical pseudo-random initial RAM and
/// registers; Ok(n) = n runs compared equal, Err = first difference
pub fn coexec_equal(a: &Obs, b: &Obs, nvec: u64, seed: u64) -> Result<u64, String> {
    let ba = build(a).map_err(|e| format!("layout: {}", e))?;
    let bb = build(b).map_err(|e| format!("layout: {}", e))?;
    let too_large = |b: &Built| b.asm.errors.iter().any(|e| e.kind == "image-too-large");
    if too_large(&ba) || too_large(&bb) {
        // larger than one bank: nothing to execute (a size limit of this harness, not a difference)
        return Ok(0);
    }
    if !ba.asm.errors.is_empty() || !bb.asm.errors.is_empty() {
        if !ba.asm.errors.is_empty() && !bb.asm.errors.is_empty() {
            return Ok(0); // neither assembles: C13's business, nothing to co-execute
        }
        return Err("one of the two does not assemble".into());
    }
    let mut n = 0;
    for k in 0..nvec {
        let mut rng = crate::util::Rng::for_case("coexec", seed.wrapping_mul(131).wrapping_add(k));
        let init: Vec<u8> = (0..0x80).map(|_| rng.bbyte()).collect();
        let (x, y, acc) = (rng.bbyte(), rng.bbyte(), rng.byte());
        let run = |bl: &Built| {
            let mut m = crate::layout::new_machine(bl);
            for (i, v) in init.iter().enumerate() {
                m.mem[0x80 + i] = *v;
            }
            for s in m.split.iter_mut() {
                for (i, c) in s.store.iter_mut().enumerate() {
                    *c = init[i % init.len()] ^ (i as u8);
                }
            }
            m.x = x;
            m.y = y;
            m.a = acc;
            let stop = m.run(bl.asm.entry_stub, 2_000_000);
            let mut img: Vec<u8> = m.mem[0x81..bl.layout.zp_end as usize].to_vec();
            for s in &m.split {
                img.extend_from_slice(&s.store);
            }
            img.push(m.x);
            img.push(m.y);
            (stop_str(&stop).split(':').next().unwrap_or("").to_string(), img)
        };
        let ra = run(&ba);
        let rb = run(&bb);
        if ra.0 == rb.0 && !ra.0.starts_with("halt") {
            // neither run finished (an input that sends both into an endless loop or out of the
            // program): the images were cut at an arbitrary instant and say nothing
            continue;
        }
        if ra != rb {
            return Err(format!("run #{}: {} vs {} / RAM images {}", k, ra.0, rb.0, if ra.1 == rb.1 { "equal" } else { "differ" }));
        }
        n += 1;
    }
    Ok(n)
}
