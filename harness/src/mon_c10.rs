// C10: compile-time constant expressions evaluate as in C.
// Reference-evaluator monitor: random expression trees over integer literals, printed with the
// minimal parentheses ISO C needs, are placed in every syntactic position that takes a constant;
// the value the compiler derived (const definitions, array sizes, alignment, asm size, folded
// stores executed on the emulator) is compared with an independent evaluator.  Only trees whose
// every intermediate fits a 16-bit int are used, so 16- and 32-bit int give the same value.

use crate::common::*;
use crate::driver::*;
use crate::emu6502::Stop;
use crate::framework::*;
use crate::pins::run_source;
use crate::util::*;
use serde_json::json;

pub struct C10;

#[derive(Clone, Debug)]
enum CE {
    Lit(String, i64),
    Un(char, Box<CE>),
    Bin(&'static str, Box<CE>, Box<CE>),
    Cond(Box<CE>, Box<CE>, Box<CE>),
    Paren(Box<CE>),
}

fn prec(op: &str) -> u8 {
    match op {
        "*" | "/" => 13,
        "+" | "-" => 12,
        "<<" | ">>" => 11,
        "<" | "<=" | ">" | ">=" => 10,
        "==" | "!=" => 9,
        "&" => 8,
        "^" => 7,
        "|" => 6,
        "&&" => 5,
        "||" => 4,
        _ => 0,
    }
}

const BINOPS: [&str; 18] = ["*", "/", "+", "-", "<<", ">>", "<", "<=", ">", ">=", "==", "!=", "&", "^", "|", "&&", "||", "+"];

impl CE {
    fn print(&self, min: u8) -> String {
        let (s, p) = match self {
            CE::Lit(t, _) => (t.clone(), if t.starts_with('-') { 14 } else { 16 }),
            CE::Un(op, a) => {
                let inner = a.print(14);
                let sep = if *op == '-' && inner.starts_with('-') { " " } else { "" };
                (format!("{}{}{}", op, sep, inner), 14)
            }
            CE::Bin(op, a, b) => {
                let p = prec(op);
                (format!("{} {} {}", a.print(p), op, b.print(p + 1)), p)
            }
            CE::Cond(c, a, b) => (format!("{} ? {} : {}", c.print(4), a.print(3), b.print(3)), 3),
            CE::Paren(a) => (format!("({})", a.print(0)), 16),
        };
        if p < min {
            format!("({})", s)
        } else {
            s
        }
    }
    /// value under C rules; None if undefined or if an intermediate leaves the 16-bit int range
    fn eval(&self) -> Option<i64> {
        let fit = |v: i64| if (-32768..=32767).contains(&v) { Some(v) } else { None };
        match self {
            CE::Lit(_, v) => fit(*v),
            CE::Paren(a) => a.eval(),
            CE::Un(op, a) => {
                let v = a.eval()?;
                fit(match op {
                    '-' => -v,
                    '!' => (v == 0) as i64,
                    _ => !v,
                })
            }
            CE::Cond(c, a, b) => {
                // both arms must be well defined for the tree to be used
                let (x, y) = (a.eval()?, b.eval()?);
                Some(if c.eval()? != 0 { x } else { y })
            }
            CE::Bin(op, a, b) => {
                let x = a.eval()?;
                let y = b.eval()?;
                fit(match *op {
                    "*" => x * y,
                    "/" => {
                        if y == 0 {
                            return None;
                        }
                        // C: truncation toward zero (Rust's / does the same)
                        x / y
                    }
                    "+" => x + y,
                    "-" => x - y,
                    "<<" => {
                        if !(0..15).contains(&y) || x < 0 {
                            return None;
                        }
                        x << y
                    }
                    ">>" => {
                        if !(0..15).contains(&y) || x < 0 {
                            return None;
                        }
                        x >> y
                    }
                    "<" => (x < y) as i64,
                    "<=" => (x <= y) as i64,
                    ">" => (x > y) as i64,
                    ">=" => (x >= y) as i64,
                    "==" => (x == y) as i64,
                    "!=" => (x != y) as i64,
                    "&" => x & y,
                    "^" => x ^ y,
                    "|" => x | y,
                    "&&" => (x != 0 && y != 0) as i64,
                    "||" => (x != 0 || y != 0) as i64,
                    _ => return None,
                })
            }
        }
    }
    fn ops(&self, out: &mut Vec<String>) {
        match self {
            CE::Lit(t, _) => out.push(
                if t.starts_with("0x") {
                    "lit:hex"
                } else if t.starts_with('\'') {
                    "lit:char"
                } else if t.len() > 1 && t.starts_with('0') {
                    "lit:octal"
                } else {
                    "lit:decimal"
                }
                .into(),
            ),
            CE::Un(op, a) => {
                out.push(format!("unary {}", op));
                a.ops(out)
            }
            CE::Bin(op, a, b) => {
                out.push(format!("binary {}", op));
                if let CE::Bin(op2, _, _) = &**a {
                    out.push(format!("pair ({} {}) left-nested", op2, op));
                }
                if let CE::Bin(op2, _, _) = &**b {
                    out.push(format!("pair ({} {}) right-nested", op, op2));
                }
                a.ops(out);
                b.ops(out)
            }
            CE::Cond(c, a, b) => {
                out.push("?:".into());
                c.ops(out);
                a.ops(out);
                b.ops(out)
            }
            CE::Paren(a) => a.ops(out),
        }
    }
}

fn lit(rng: &mut Rng) -> CE {
    const V: [i64; 16] = [0, 1, 2, 3, 4, 5, 7, 8, 10, 15, 16, 31, 100, 127, 128, 255];
    let v = if rng.chance(3, 4) { *rng.pick(&V) } else { rng.below(300) as i64 };
    match rng.below(8) {
        0 => CE::Lit(format!("0x{:x}", v), v),
        1 if v > 0 => CE::Lit(format!("0{:o}", v), v),
        2 if (32..127).contains(&v) && v != 39 && v != 92 && v != 34 => CE::Lit(format!("'{}'", v as u8 as char), v),
        // escaped character constants (the sources define one-letter macros n, r, v, b: the letter
        // after the backslash is not a macro use)
        3 if [0, 7, 8, 10].contains(&v) => CE::Lit(match v { 0 => "'\\0'", 7 => "'\\a'", 8 => "'\\b'", _ => "'\\n'" }.to_string(), v),
        _ => CE::Lit(format!("{}", v), v),
    }
}

fn tree(rng: &mut Rng, depth: u64, calc_only: bool) -> CE {
    if depth == 0 || rng.chance(1, 5) {
        return lit(rng);
    }
    match rng.below(20) {
        0 | 1 => CE::Un(*rng.pick(&['-', '!', '~']), Box::new(tree(rng, depth - 1, calc_only))),
        2 => {
            let c = tree(rng, depth - 1, calc_only);
            let mut a = tree(rng, depth - 1, calc_only);
            let b = tree(rng, depth - 1, calc_only);
            // a bare ?: as the middle operand of another ?: is mis-evaluated by the calculator's
            // two-operator encoding (known finding calc_nested_ternary_middle): parenthesised here
            if let CE::Cond(..) = a {
                a = CE::Paren(Box::new(a));
            }
            CE::Cond(Box::new(c), Box::new(a), Box::new(b))
        }
        3 => CE::Paren(Box::new(tree(rng, depth - 1, calc_only))),
        _ => {
            let op = *rng.pick(&BINOPS);
            CE::Bin(op, Box::new(tree(rng, depth - 1, calc_only)), Box::new(tree(rng, depth - 1, calc_only)))
        }
    }
}

/// a well-defined tree (retry until the reference evaluator accepts it)
fn good_tree(rng: &mut Rng, depth: u64, want: &dyn Fn(i64) -> bool) -> (CE, i64) {
    for _ in 0..200 {
        let t = tree(rng, depth, false);
        if let Some(v) = t.eval() {
            if want(v) {
                return (t, v);
            }
        }
    }
    (CE::Lit("1".into(), 1), 1)
}

/// enumerated core: every ordered pair of binary operators in both nestings, over a small literal set
fn pair_tree(idx: u64) -> CE {
    let n = 17u64; // distinct operators
    let a = BINOPS[(idx % n) as usize];
    let b = BINOPS[((idx / n) % n) as usize];
    let shape = (idx / (n * n)) % 2;
    let lits = [(7, 2, 3), (1, 0, 1), (12, 4, 2), (0, 5, 1), (255, 16, 1), (3, 3, 3)];
    let (x, y, z) = lits[((idx / (n * n * 2)) % 6) as usize];
    let l = |v: i64| Box::new(CE::Lit(format!("{}", v), v));
    if shape == 0 {
        CE::Bin(b, Box::new(CE::Bin(a, l(x), l(y))), l(z))
    } else {
        CE::Bin(a, l(x), Box::new(CE::Bin(b, l(y), l(z))))
    }
}

pub fn core_len() -> u64 {
    17 * 17 * 2 * 6
}

fn viol(res: &mut CaseResult, kind: &str, idx: u64, sig: &Option<String>, why: String, src: &str) {
    res.class = "constant differs from the reference value".into();
    res.violate(
        &sig.clone().unwrap_or(format!("C10:{}:{}", kind, idx)),
        &format!("C10: {}\n--- source\n{}", why, src),
        json!({"kind": kind, "idx": idx, "source": src, "why": why}),
    );
}

/// static positions: const initialiser, array size, alignment, asm size, table elements
fn judge_static(kind: &str, idx: u64, t: &CE, v: i64, sig: Option<String>) -> CaseResult {
    let e = t.print(0);
    let mut rng = Rng::for_case("C10pos", idx);
    let (sz, szv) = good_tree(&mut rng, 2, &|v| (1..=40).contains(&v));
    // aligned(...) sits inside a compound-atomic grammar rule: no blanks are accepted inside its
    // parentheses (C11's subject, recorded there), so this one position is written compactly
    let (al, alv) = {
        let mut r = (CE::Lit("8".into(), 8), 8);
        for _ in 0..50 {
            let c = good_tree(&mut rng, 1, &|v| (1..=64).contains(&v));
            let t = c.0.print(0).replace(' ', "");
            if !t.contains("--") && !t.contains('\'') {
                r = (CE::Lit(t, c.1), c.1);
                break;
            }
        }
        r
    };
    let (asz, aszv) = good_tree(&mut rng, 2, &|v| (0..=200).contains(&v));
    let src = format!(
        "#define n 7\n#define r 8\n#define v 9\n#define b 3\nconst char k = {};\nconst short ks = {};\nunsigned char t[{}];\naligned({}) const char t2[2] = {{{}, 1}};\nvoid f() {{ asm(\"NOP ;@I1\", {}); }}\nvoid main() {{ f(); }}\n",
        e,
        e,
        sz.print(0),
        al.print(0),
        e,
        asz.print(0)
    );
    let mut res = CaseResult::new("", hash_str(&src));
    let mut ops = Vec::new();
    t.ops(&mut ops);
    sz.ops(&mut ops);
    for o in ops {
        res.set("operators / literal forms / operator pairs", &o);
    }
    res.set("positions", "const initialiser; array size; aligned(); asm size; table element");
    let out = compile_src(&src, &Opts::o(1));
    let obs = match &out {
        Outcome::Ok(o) => o,
        other => {
            // every tree here is well defined: a rejection is a disagreement with C
            viol(&mut res, kind, idx, &sig, format!("well-defined constant expressions rejected: {}", other.short()), &src);
            return res;
        }
    };
    res.nontrivial = true;
    let get = |n: &str| obs.vars.iter().find(|x| x.name == n);
    res.count("comparisons", 6);
    match get("k").map(|x| &x.def) {
        Some(Def::Value(Val::Int(i))) if *i as i64 == v => {}
        o => {
            viol(&mut res, kind, idx, &sig, format!("const char k = {} : compiler {:?}, C says {}", e, o, v), &src);
            return res;
        }
    }
    match get("ks").map(|x| &x.def) {
        Some(Def::Value(Val::Int(i))) if *i as i64 == v => {}
        o => {
            viol(&mut res, kind, idx, &sig, format!("const short ks = {} : compiler {:?}, C says {}", e, o, v), &src);
            return res;
        }
    }
    if get("t").map(|x| x.size as i64) != Some(szv) {
        viol(&mut res, kind, idx, &sig, format!("array size [{}]: compiler {:?}, C says {}", sz.print(0), get("t").map(|x| x.size), szv), &src);
        return res;
    }
    if get("t2").map(|x| x.alignment as i64) != Some(alv) {
        viol(&mut res, kind, idx, &sig, format!("aligned({}): compiler {:?}, C says {}", al.print(0), get("t2").map(|x| x.alignment), alv), &src);
        return res;
    }
    match get("t2").map(|x| &x.def) {
        Some(Def::Array(a)) if a.first() == Some(&Val::Int(v as i32)) => {}
        o => {
            viol(&mut res, kind, idx, &sig, format!("table element {}: compiler {:?}, C says {}", e, o, v), &src);
            return res;
        }
    }
    let fsz = obs.funcs.iter().find(|f| f.name == "f").and_then(|f| f.size_bytes).map(|x| x as i64);
    if fsz != Some(aszv) {
        viol(&mut res, kind, idx, &sig, format!("asm size hint {}: size_bytes() {:?}, C says {}", asz.print(0), fsz, aszv), &src);
        return res;
    }
    res.class = "accepted; every constant equals the reference value".into();
    if idx % 701 == 0 {
        res.sample = Some(json!({"kind": kind, "idx": idx, "expression": e, "value": v, "source": src}));
    }
    res
}

/// statement-level folding, executed on the emulator: r = E; s = E; if (E)
fn judge_folded(kind: &str, idx: u64, t: &CE, v: i64, sig: Option<String>) -> CaseResult {
    let e = t.print(0);
    let src = format!(
        "unsigned char r, c, li;\nshort s, ls;\nvoid main() {{\n  unsigned char l0 = {};\n  short l1 = {};\n  r = {};\n  s = {};\n  c = 2;\n  if ({}) c = 1;\n  li = l0;\n  ls = l1;\n}}\n",
        e, e, e, e, e
    );
    let mut res = CaseResult::new("", hash_str(&src));
    let mut ops = Vec::new();
    t.ops(&mut ops);
    for o in ops {
        res.set("operators / literal forms / operator pairs", &o);
    }
    res.set("positions", "folded in statements: char store; short store; condition; local initialisers");
    let pr = run_source(&src, &Opts::o(1), &[], 0, 0);
    if pr.outcome != "Ok" {
        // statement-level folding may refuse shapes ("partially implemented"): counted, not judged
        res.class = format!("statement form not accepted: {}", norm_msg(&pr.outcome));
        return res;
    }
    res.nontrivial = true;
    res.count("comparisons", 5);
    if pr.stop != Some(Stop::Halt) {
        viol(&mut res, kind, idx, &sig, format!("folded program did not run: {:?}", pr.stop), &src);
        return res;
    }
    let get = |n: &str| pr.values.iter().find(|x| x.0 == n).map(|x| x.1);
    let exp_r = v & 0xff;
    let exp_s = v & 0xffff;
    let exp_c = if v != 0 { 1 } else { 2 };
    if get("li") != Some(exp_r) || get("ls") != Some(exp_s) {
        // (initialisers of locals are parsed by an operator table of their own)
        viol(
            &mut res,
            kind,
            idx,
            &sig,
            format!("{} = {} in C: as initialiser of a local char it gives {:?} (want {}), of a local short {:?} (want {})", e, v, get("li"), exp_r, get("ls"), exp_s),
            &src,
        );
        return res;
    }
    if get("r") != Some(exp_r) || get("s") != Some(exp_s) || get("c") != Some(exp_c) {
        viol(
            &mut res,
            kind,
            idx,
            &sig,
            format!("{} = {} in C: stored r={:?} (want {}), s={:?} (want {}), condition c={:?} (want {})", e, v, get("r"), exp_r, get("s"), exp_s, get("c"), exp_c),
            &src,
        );
        return res;
    }
    res.class = "folded value stored by the compiled program equals the reference value".into();
    res
}

/// fold versus run time: x = E(c1, c2) against v1 = c1; v2 = c2; x = E(v1, v2)
fn judge_fold_vs_runtime(kind: &str, idx: u64) -> CaseResult {
    let mut rng = Rng::for_case("C10fr", idx);
    let ops = ["+", "-", "&", "|", "^", "<", "<=", ">", ">=", "==", "!=", "<<", ">>"];
    let op = *rng.pick(&ops);
    let c1 = rng.bbyte() as i64;
    let c2 = if op == "<<" || op == ">>" { rng.range(1, 7) } else { rng.bbyte() as i64 };
    let op2 = *rng.pick(&["+", "-", "&", "|", "^"]);
    let c3 = rng.bbyte() as i64;
    let shape = rng.below(3);
    let (ec, ev) = match shape {
        0 => (format!("{} {} {}", c1, op, c2), if op == "<<" || op == ">>" { format!("v1 {} {}", op, c2) } else { format!("v1 {} v2", op) }),
        1 => (
            format!("({} {} {}) {} {}", c1, op2, c3, op, c2),
            if op == "<<" || op == ">>" { format!("(v1 {} v3) {} {}", op2, op, c2) } else { format!("(v1 {} v3) {} v2", op2, op) },
        ),
        _ => (format!("~{} {} {}", c1, op2, c3), format!("~v1 {} v3", op2)),
    };
    let src = format!(
        "unsigned char v1, v2, v3, x, y;\nvoid main() {{\n  v1 = {}; v2 = {}; v3 = {};\n  x = {};\n  y = {};\n}}\n",
        c1, c2, c3, ec, ev
    );
    let mut res = CaseResult::new("", hash_str(&src));
    res.set("positions", "fold versus run time");
    res.set("operators / literal forms / operator pairs", &format!("fold-vs-runtime {}", op));
    let pr = run_source(&src, &Opts::o(0), &[], 0, 0);
    if pr.outcome != "Ok" {
        res.class = format!("run-time form not accepted: {}", norm_msg(&pr.outcome));
        return res;
    }
    if pr.stop != Some(Stop::Halt) {
        res.class = "run-time form did not finish".into();
        return res;
    }
    res.nontrivial = true;
    res.count("comparisons", 1);
    res.count("fold versus run-time comparisons", 1);
    let get = |n: &str| pr.values.iter().find(|x| x.0 == n).map(|x| x.1);
    // the two must agree whenever the run-time computation stays within 8 bits before the
    // operation that decides (comparisons of wrapped sums differ legitimately: excluded by
    // requiring the inner result to fit)
    let inner_fits = match shape {
        1 => {
            let i = match op2 {
                "+" => c1 + c3,
                "-" => c1 - c3,
                "&" => c1 & c3,
                "|" => c1 | c3,
                _ => c1 ^ c3,
            };
            (0..=255).contains(&i)
        }
        2 => false, // ~c as an int is negative: 8-bit and int views differ on purpose; only x == y is not required
        _ => true,
    };
    if shape == 2 {
        // both go to an unsigned char: the low byte must agree in any case
    }
    if (inner_fits || shape == 2) && get("x") != get("y") {
        viol(
            &mut res,
            kind,
            idx,
            &None,
            format!("folded x = {} gives {:?} but the same expression on variables gives y = {:?}", ec, get("x"), get("y")),
            &src,
        );
        return res;
    }
    res.class = "folded constant equals the value computed at run time".into();
    res
}

/// undefined cases must be rejected
fn judge_undefined(kind: &str, idx: u64) -> CaseResult {
    let exprs = [
        "1 / 0", "5 / (3 - 3)", "1 << 32", "1 << 40", "1 << -1", "1 >> 32", "65536 * 65536", "2147483647 + 1", "-2147483647 - 2", "99999999999", "0x100000000",
        "040000000000", "2147483647 * 2", "7 / (1 / 2)", "0x40000000 << 1", "0x1000000 << 8", "3 << 31", "(0x7fffffff << 1) >> 28", "-2147483647 - 1 - 1", "0 - 2147483647 - 2",
        "2147483647 - -1", "46341 * 46341", "-46341 * 46341", "5 % 0",
        "0x80000000", "0xFFFFFFFF", "0xffff0000 >> 16", "(0xF0000000 < 16) + 1",
    ];
    let positions = [
        "const char k = @;\nvoid main() {}\n",
        "unsigned char t[@];\nvoid main() {}\n",
        "aligned(@) const char t[2] = {1, 2};\nvoid main() {}\n",
        "const char t[2] = {@, 1};\nvoid main() {}\n",
        "void main() { asm(\"NOP\", @); }\n",
        "unsigned char a;\nvoid main() { a = @; }\n",
        "short s;\nvoid main() { s = @; }\n",
        "unsigned char a;\nvoid main() { if (@) a = 1; }\n",
    ];
    let e = exprs[(idx as usize) % exprs.len()];
    let p = positions[(idx as usize / exprs.len()) % positions.len()];
    let src = p.replace('@', e);
    let mut res = CaseResult::new("", hash_str(&src));
    res.nontrivial = true;
    res.set("positions", "undefined constant expressions (must be rejected)");
    res.count("comparisons", 1);
    match compile_src(&src, &Opts::o(1)) {
        Outcome::Err(_) => {
            res.class = "undefined constant expression rejected, as required".into();
            res.count("undefined cases rejected", 1);
        }
        other => {
            viol(&mut res, kind, idx, &None, format!("undefined constant expression '{}' was not rejected: {}", e, other.short()), &src);
        }
    }
    res
}

fn sizeof_case(idx: u64) -> CaseResult {
    let src = "unsigned char c; short s; char *p; unsigned char a[5]; short sa[3]; const char tab[4] = {1,2,3,4}; const char str[] = \"abc\";\n\
               const char z1 = sizeof(c); const char z2 = sizeof(s); const char z3 = sizeof(p); const char z4 = sizeof(a); const char z5 = sizeof(sa);\n\
               const char z6 = sizeof(tab); const char z7 = sizeof(str); const char z8 = sizeof(char); const char z9 = sizeof(short); const char z10 = sizeof(int);\n\
               const char z11 = sizeof(char*); const char z12 = sizeof(a) + sizeof(short) * 2;\n\
               unsigned char r1, r2, r3;\nvoid main() { r1 = sizeof(a); r2 = sizeof(short) + sizeof(c); r3 = sizeof(sa); }\n";
    let exp = [("z1", 1), ("z2", 2), ("z3", 2), ("z4", 5), ("z5", 6), ("z6", 4), ("z7", 4), ("z8", 1), ("z9", 2), ("z10", 2), ("z11", 2), ("z12", 9)];
    let mut res = CaseResult::new("", hash_str(src) ^ idx);
    res.set("positions", "sizeof of every type / object kind");
    match compile_src(src, &Opts::o(1)) {
        Outcome::Ok(obs) => {
            res.nontrivial = true;
            for (n, v) in exp {
                res.count("comparisons", 1);
                match obs.vars.iter().find(|x| x.name == n).map(|x| &x.def) {
                    Some(Def::Value(Val::Int(i))) if *i == v => {}
                    o => {
                        viol(&mut res, "sizeof", idx, &None, format!("{}: compiler {:?}, C says {}", n, o, v), src);
                        return res;
                    }
                }
            }
            let pr = run_source(src, &Opts::o(1), &[], 0, 0);
            let get = |n: &str| pr.values.iter().find(|x| x.0 == n).map(|x| x.1);
            if get("r1") != Some(5) || get("r2") != Some(3) || get("r3") != Some(6) {
                viol(&mut res, "sizeof", idx, &None, format!("sizeof in statements: r1={:?} r2={:?} r3={:?} (want 5, 3, 6)", get("r1"), get("r2"), get("r3")), src);
                return res;
            }
            res.class = "sizeof values equal the object sizes".into();
        }
        other => viol(&mut res, "sizeof", idx, &None, format!("sizeof program rejected: {}", other.short()), src),
    }
    res
}

pub fn c10_pins() -> Vec<(&'static str, &'static str, i64)> {
    vec![
        ("calc_logical_not", "!0 + !5", 1),
        ("calc_eq_precedence", "1 == 0 < 1", 1),
        ("calc_eq_precedence_2", "2 != 1 > 0", 1),
        ("calc_nested_ternary_middle", "0 ? 1 ? 5 : 6 : 7", 7),
    ]
}

impl Monitor for C10 {
    fn id(&self) -> &'static str {
        "C10"
    }
    fn level(&self) -> &'static str {
        "exploration"
    }
    fn rule(&self) -> String {
        "constant expressions over decimal, hex, octal and character literals with unary - ! ~, binary * / + - << >> < <= > >= == != & ^ | && ||, ?: and \
         parentheses, printed with minimal parentheses: enumerated core = every ordered pair of binary operators in both nestings over 6 literal \
         triples; random trees to depth 4. Positions: const char / const short initialiser, array size, aligned(), asm size hint (through \
         size_bytes), table element, sizeof of every type and object kind, folding inside statements (char store, short store, condition; executed \
         on the emulator), fold versus run time (same expression on constants and on variables). Undefined cases (division by zero, overflowing \
         literals and results, shift counts outside the type) x 8 positions must be rejected. Only trees whose every intermediate fits a 16-bit \
         int are used. Literals include escaped character constants next to one-letter macros n, r, v, b; hexadecimal literals with bit 31 set must be rejected. non-trivial = accepted and compared"
            .into()
    }
    fn assumptions(&self) -> Vec<String> {
        vec!["values are compared raw (VariableValue::Int), before any truncation to the variable's width".into()]
    }
    fn plan(&self, tier: &Tier, seed: u64) -> Vec<Chunk> {
        let np = c10_pins().len() as u64;
        let mut v = split_chunks("pin", 0, np, np, 1);
        let nc = core_len();
        v.extend(split_chunks("pairs", 0, nc, nc, 200));
        v.extend(split_chunks("pairs-folded", 0, nc, nc, 200));
        v.extend(split_chunks("undefined", 0, 28 * 8, 28 * 8, 20));
        v.extend(split_chunks("sizeof", 0, 1, 1, 1));
        let n = match tier {
            Tier::Quick => 60_000,
            Tier::Thorough => 600_000,
        };
        v.extend(split_chunks("tree", seed_offset(seed, "C10t", 600_000), n, 600_000, 300));
        v.extend(split_chunks("tree-folded", seed_offset(seed, "C10f", 600_000), n / 2, 600_000, 300));
        v.extend(split_chunks("fold-vs-run", seed_offset(seed, "C10r", 300_000), n / 2, 300_000, 300));
        v
    }
    fn run_case(&self, kind: &str, idx: u64) -> CaseResult {
        match kind {
            "pin" => {
                let (name, e, v) = c10_pins()[idx as usize];
                let t = CE::Lit(e.to_string(), v);
                // a pin is an expression text with its C value, checked in the static positions
                let mut r = judge_static(kind, idx, &t, v, Some(format!("pin:{}", name)));
                r.sample = Some(json!({"kind": "pin", "name": name, "expression": e, "value": v}));
                r
            }
            "pairs" | "pairs-folded" => {
                let t = pair_tree(idx);
                match t.eval() {
                    Some(v) => {
                        if kind == "pairs" {
                            judge_static(kind, idx, &t, v, None)
                        } else {
                            judge_folded(kind, idx, &t, v, None)
                        }
                    }
                    None => CaseResult::new("tree outside the defined 16-bit domain (not used)", idx),
                }
            }
            "undefined" => judge_undefined(kind, idx),
            "sizeof" => sizeof_case(idx),
            "fold-vs-run" => judge_fold_vs_runtime(kind, idx),
            _ => {
                let mut rng = Rng::for_case(if kind == "tree" { "C10tree" } else { "C10treef" }, idx);
                let d = rng.range(1, 4) as u64;
                let t = tree(&mut rng, d, false);
                match t.eval() {
                    Some(v) => {
                        if kind == "tree" {
                            judge_static(kind, idx, &t, v, None)
                        } else {
                            judge_folded(kind, idx, &t, v, None)
                        }
                    }
                    None => CaseResult::new("tree outside the defined 16-bit domain (not used)", idx),
                }
            }
        }
    }
    fn thresholds(&self, _tier: &Tier) -> Vec<(String, u64)> {
        vec![
            ("distinct_nontrivial".into(), 6000),
            ("set:operators / literal forms / operator pairs".into(), 300),
            ("undefined cases rejected".into(), 100),
            ("fold versus run-time comparisons".into(), 1000),
            ("set:positions".into(), 5),
        ]
    }
}
