// C08: macro expansion is token-exact.
// Differential monitor against hand expansion: a program using macros is compiled by the real
// compiler and compared (declarations and emitted text, instruction for instruction) with the
// same program expanded by an independent token-level reference expander.  -D definitions are
// compared with the equivalent #define at the top of the file.

use crate::driver::*;
use crate::framework::*;
use crate::util::*;
use serde_json::json;
use std::collections::BTreeMap;

pub struct C08;

// ------------------------------------------------------------------ reference expander

#[derive(Clone, Debug, PartialEq)]
enum Tok {
    Id(String),
    Num(String),
    Str(String), // including quotes
    Chr(String),
    Punct(String),
    Ws(String),
}

impl Tok {
    fn text(&self) -> &str {
        match self {
            Tok::Id(s) | Tok::Num(s) | Tok::Str(s) | Tok::Chr(s) | Tok::Punct(s) | Tok::Ws(s) => s,
        }
    }
}

fn lex(s: &str) -> Vec<Tok> {
    let c: Vec<char> = s.chars().collect();
    let mut i = 0;
    let mut v = Vec::new();
    while i < c.len() {
        let ch = c[i];
        if ch.is_whitespace() {
            let st = i;
            while i < c.len() && c[i].is_whitespace() {
                i += 1;
            }
            v.push(Tok::Ws(c[st..i].iter().collect()));
        } else if ch.is_ascii_alphabetic() || ch == '_' {
            let st = i;
            while i < c.len() && (c[i].is_ascii_alphanumeric() || c[i] == '_') {
                i += 1;
            }
            v.push(Tok::Id(c[st..i].iter().collect()));
        } else if ch.is_ascii_digit() {
            let st = i;
            while i < c.len() && (c[i].is_ascii_alphanumeric() || c[i] == '_') {
                i += 1;
            }
            v.push(Tok::Num(c[st..i].iter().collect()));
        } else if ch == '"' || ch == '\'' {
            let st = i;
            i += 1;
            while i < c.len() && c[i] != ch {
                if c[i] == '\\' {
                    i += 1;
                }
                i += 1;
            }
            i = (i + 1).min(c.len());
            let t: String = c[st..i].iter().collect();
            v.push(if ch == '"' { Tok::Str(t) } else { Tok::Chr(t) });
        } else if ch == '#' && i + 1 < c.len() && c[i + 1] == '#' {
            v.push(Tok::Punct("##".into()));
            i += 2;
        } else {
            v.push(Tok::Punct(ch.to_string()));
            i += 1;
        }
    }
    v
}

#[derive(Clone, Debug)]
struct Macro {
    params: Option<Vec<String>>,
    body: Vec<Tok>,
}

pub struct Expander {
    macros: BTreeMap<String, Macro>,
}

impl Expander {
    pub fn new() -> Expander {
        Expander { macros: BTreeMap::new() }
    }
    pub fn define(&mut self, name: &str, params: Option<Vec<String>>, body: &str) {
        // ISO: the body is kept as written and rescanned at each use (so a parameter hides a
        // macro of the same name, and a body may name a macro that is defined later).  An eager
        // expander gives the same as long as nothing used in the body is #undef'd before the use
        let b = lex(body.trim());
        self.macros.insert(name.to_string(), Macro { params, body: b });
    }
    pub fn undef(&mut self, name: &str) {
        self.macros.remove(name);
    }
    pub fn expand_line(&self, line: &str) -> String {
        self.expand_tokens(&lex(line), 0).iter().map(|t| t.text().to_string()).collect()
    }
    fn expand_tokens(&self, toks: &[Tok], depth: usize) -> Vec<Tok> {
        if depth > 40 {
            return toks.to_vec();
        }
        let mut out = Vec::new();
        let mut i = 0;
        while i < toks.len() {
            if let Tok::Id(name) = &toks[i] {
                if let Some(m) = self.macros.get(name) {
                    match &m.params {
                        None => {
                            out.extend(self.expand_tokens(&m.body, depth + 1));
                            i += 1;
                            continue;
                        }
                        Some(params) => {
                            // function-like: needs "(" immediately (the compiler's pattern is NAME\( )
                            if i + 1 < toks.len() && toks[i + 1] == Tok::Punct("(".into()) {
                                if let Some((args, next)) = parse_args(toks, i + 2) {
                                    if args.len() == params.len() || (params.is_empty() && args.len() == 1 && args[0].iter().all(|t| matches!(t, Tok::Ws(_)))) {
                                        let mut map: BTreeMap<&str, Vec<Tok>> = BTreeMap::new();
                                        for (p, a) in params.iter().zip(args.iter()) {
                                            map.insert(p.as_str(), trim_ws(a));
                                        }
                                        // substitute
                                        let mut sub: Vec<Tok> = Vec::new();
                                        for t in &m.body {
                                            match t {
                                                Tok::Id(n) if map.contains_key(n.as_str()) => sub.extend(map[n.as_str()].clone()),
                                                Tok::Punct(p) if p == "##" => {
                                                    // paste: drop the operator and surrounding blanks
                                                    while matches!(sub.last(), Some(Tok::Ws(_))) {
                                                        sub.pop();
                                                    }
                                                    sub.push(Tok::Punct("\u{1}".into())); // glue marker
                                                }
                                                other => sub.push(other.clone()),
                                            }
                                        }
                                        // apply glue: remove marker and following blanks, then re-lex pasted text
                                        let mut text = String::new();
                                        let mut skip_ws = false;
                                        for t in &sub {
                                            if t.text() == "\u{1}" {
                                                skip_ws = true;
                                                continue;
                                            }
                                            if skip_ws && matches!(t, Tok::Ws(_)) {
                                                continue;
                                            }
                                            skip_ws = false;
                                            text.push_str(t.text());
                                        }
                                        let relexed = lex(&text);
                                        out.extend(self.expand_tokens(&relexed, depth + 1));
                                        i = next;
                                        continue;
                                    }
                                }
                            }
                        }
                    }
                }
            }
            out.push(toks[i].clone());
            i += 1;
        }
        out
    }
}

fn trim_ws(a: &[Tok]) -> Vec<Tok> {
    let mut s = 0;
    let mut e = a.len();
    while s < e && matches!(a[s], Tok::Ws(_)) {
        s += 1;
    }
    while e > s && matches!(a[e - 1], Tok::Ws(_)) {
        e -= 1;
    }
    a[s..e].to_vec()
}

/// parse macro arguments starting after "(" ; returns (args, index after ")")
fn parse_args(toks: &[Tok], start: usize) -> Option<(Vec<Vec<Tok>>, usize)> {
    let mut args: Vec<Vec<Tok>> = vec![vec![]];
    let mut depth = 0;
    let mut i = start;
    while i < toks.len() {
        match &toks[i] {
            Tok::Punct(p) if p == "(" => {
                depth += 1;
                args.last_mut().unwrap().push(toks[i].clone());
            }
            Tok::Punct(p) if p == ")" => {
                if depth == 0 {
                    return Some((args, i + 1));
                }
                depth -= 1;
                args.last_mut().unwrap().push(toks[i].clone());
            }
            Tok::Punct(p) if p == "," && depth == 0 => args.push(vec![]),
            t => args.last_mut().unwrap().push(t.clone()),
        }
        i += 1;
    }
    None
}

/// expand a whole source: #define / #undef lines are interpreted and dropped
pub fn expand_source(src: &str, cmdline: &[String]) -> String {
    let mut ex = Expander::new();
    for d in cmdline {
        let mut it = d.splitn(2, '=');
        let n = it.next().unwrap();
        let v = it.next().unwrap_or("1");
        ex.define(n, None, v);
    }
    let mut out = String::new();
    let mut skipping = false;
    for line in src.lines() {
        let t = line.trim();
        // the one conditional form the generator writes: a group that is never selected
        if t.starts_with("#ifdef NEVER_") {
            skipping = true;
            out.push('\n');
            continue;
        }
        if skipping {
            if t == "#endif" {
                skipping = false;
            }
            out.push('\n');
            continue;
        }
        if let Some(rest) = t.strip_prefix("#define ") {
            let rest = rest.trim_start();
            let name: String = rest.chars().take_while(|c| c.is_ascii_alphanumeric() || *c == '_').collect();
            let after = &rest[name.len()..];
            if let Some(p) = after.strip_prefix('(') {
                let close = p.find(')').unwrap_or(0);
                let plist = &p[..close];
                let params: Vec<String> = if plist.trim().is_empty() { vec![] } else { plist.split(',').map(|s| s.trim().to_string()).collect() };
                ex.define(&name, Some(params), &p[close + 1..]);
            } else {
                ex.define(&name, None, after);
            }
            out.push('\n');
        } else if let Some(rest) = t.strip_prefix("#undef ") {
            ex.undef(rest.trim());
            out.push('\n');
        } else {
            out.push_str(&ex.expand_line(line));
            out.push('\n');
        }
    }
    out
}

// ------------------------------------------------------------------ generator

struct MacroDef {
    name: String,
    params: Option<Vec<String>>,
    body: String,
    arity: usize,
    is_value: bool, // expands to an rvalue expression
}

pub struct Case {
    pub src: String,
    pub cmdline: Vec<String>,
    pub desc: Vec<String>,
    pub nmacros: usize,
}

pub fn gen_case(idx: u64, large: bool) -> Case {
    let mut rng = Rng::for_case(if large { "C08L" } else { "C08" }, idx);
    let mut desc: Vec<String> = Vec::new();
    let mut lines: Vec<String> = Vec::new();
    let mut cmdline: Vec<String> = Vec::new();
    // variables, including names that *contain* macro names
    lines.push("unsigned char g0, g1, g2, g3;".into());
    lines.push("unsigned char arr[8];".into());
    lines.push("unsigned char K0_x, xK0, K01, _K0, K0_;".into());
    lines.push("char *sp;".into());
    let mut macros: Vec<MacroDef> = Vec::new();
    let nm = if large { rng.range(90, 250) as usize } else { rng.range(1, 8) as usize };
    // command-line definitions first
    if rng.chance(1, 3) {
        let v = rng.below(100);
        cmdline.push(format!("DK={}", v));
        macros.push(MacroDef { name: "DK".into(), params: None, body: v.to_string(), arity: 0, is_value: true });
        desc.push("-D NAME=VALUE".into());
        if rng.chance(1, 2) {
            // a later -D whose value names an earlier one
            cmdline.push("DK2=DK".into());
            macros.push(MacroDef { name: "DK2".into(), params: None, body: "DK".into(), arity: 0, is_value: true });
            desc.push("-D NAME=EARLIER_NAME".into());
        }
    }
    if rng.chance(1, 4) {
        // a value that itself contains '='
        cmdline.push("DE=(g1==1)".into());
        macros.push(MacroDef { name: "DE".into(), params: None, body: "(g1==1)".into(), arity: 0, is_value: true });
        desc.push("-D NAME=VALUE with '=' inside the value".into());
    }
    if rng.chance(1, 4) {
        // the value contains the name, but only inside a longer identifier
        lines.push("unsigned char DB_x;".into());
        cmdline.push("DB=DB_x".into());
        macros.push(MacroDef { name: "DB".into(), params: None, body: "DB_x".into(), arity: 0, is_value: true });
        desc.push("-D NAME=NAME_longer".into());
    }
    if rng.chance(1, 4) {
        // a character constant as the very last token of a body, naming a one-letter macro / a parameter
        lines.push("#define q 4".into());
        lines.push("#define KEYQ 'q'".into());
        lines.push("#define ISC(c) c == 'c'".into());
        macros.push(MacroDef { name: "q".into(), params: None, body: "4".into(), arity: 0, is_value: true });
        macros.push(MacroDef { name: "KEYQ".into(), params: None, body: "'q'".into(), arity: 0, is_value: true });
        macros.push(MacroDef { name: "ISC".into(), params: Some(vec!["c".into()]), body: "c == 'c'".into(), arity: 1, is_value: true });
        desc.push("character constant at the end of a body".into());
    }
    if rng.chance(1, 4) {
        cmdline.push("DONE".into());
        macros.push(MacroDef { name: "DONE".into(), params: None, body: "1".into(), arity: 0, is_value: true });
        desc.push("-D NAME".into());
    }
    let mut undefined: Vec<String> = Vec::new();
    let mut body_uses: Vec<String> = Vec::new(); // macros used inside later bodies: never #undef'd
    for k in 0..nm {
        let values: Vec<&MacroDef> = macros.iter().filter(|m| m.is_value && m.params.is_none() && !undefined.contains(&m.name)).collect();
        let fns: Vec<&MacroDef> = macros.iter().filter(|m| m.params.is_some() && m.arity > 0 && m.is_value && !undefined.contains(&m.name)).collect();
        let mut kind = if large { rng.below(4) } else { rng.below(15) };
        if large && [97usize, 98, 99, 100, 197, 198, 199, 200].contains(&k) && rng.chance(1, 2) {
            kind = 4 + rng.below(3); // a function-like macro right at a chunk boundary of the macro tables
        }
        let name = format!("K{}", k);
        let def = match kind {
            0 | 1 => MacroDef { name, params: None, body: format!("{}", rng.below(120)), arity: 0, is_value: true },
            2 if !values.is_empty() => {
                let u = rng.pick(&values).name.clone();
                body_uses.push(u.clone());
                desc.push("body uses an earlier macro".into());
                MacroDef { name, params: None, body: format!("({} + {})", u, rng.below(9)), arity: 0, is_value: true }
            }
            3 => MacroDef { name, params: None, body: format!("g{}", rng.below(4)), arity: 0, is_value: true },
            4 => {
                desc.push("function-like, 2 parameters".into());
                MacroDef { name, params: Some(vec!["a".into(), "b".into()]), body: "((a)+(b))".into(), arity: 2, is_value: true }
            }
            5 => {
                desc.push("function-like, 1 parameter".into());
                MacroDef { name, params: Some(vec!["x".into()]), body: "((x) & 7)".into(), arity: 1, is_value: true }
            }
            6 => {
                desc.push("function-like, 3 parameters".into());
                MacroDef { name, params: Some(vec!["a".into(), "b".into(), "c".into()]), body: "((a) - (b) + (c))".into(), arity: 3, is_value: true }
            }
            7 if !fns.is_empty() => {
                let f = rng.pick(&fns);
                let fname = f.name.clone();
                let args: Vec<String> = (0..f.arity).map(|_| "x".to_string()).collect();
                body_uses.push(fname.clone());
                desc.push("function-like body calls an earlier function-like macro".into());
                MacroDef { name, params: Some(vec!["x".into()]), body: format!("{}({})", fname, args.join(", ")), arity: 1, is_value: true }
            }
            8 => {
                desc.push("function-like, 0 parameters".into());
                MacroDef { name, params: Some(vec![]), body: format!("{}", rng.below(50)), arity: 0, is_value: true }
            }
            9 => {
                desc.push("parameter named like a variable used in other bodies".into());
                MacroDef { name, params: Some(vec!["g0".into()]), body: "(g0 | 1)".into(), arity: 1, is_value: true }
            }
            12 => {
                // object-like, although the body starts with a parenthesised identifier
                desc.push("object-like body starting with (identifier)".into());
                MacroDef { name, params: None, body: format!("(g{})+{}", rng.below(4), rng.below(9)), arity: 0, is_value: true }
            }
            13 if !values.is_empty() => {
                // the parameter hides the macro of the same name inside this body
                let u = rng.pick(&values).name.clone();
                desc.push("parameter named like an earlier macro".into());
                MacroDef { name, params: Some(vec![u.clone()]), body: format!("(({}) ^ {})", u, 1 + rng.below(6)), arity: 1, is_value: true }
            }
            14 => {
                // the body names a macro that is only defined on the next line
                let later = format!("{}L", name);
                let v = rng.below(90);
                desc.push("body names a macro defined later".into());
                body_uses.push(later.clone());
                lines.push(format!("#define {} ({} + {})", name, later, rng.below(9)));
                macros.push(MacroDef { name: name.clone(), params: None, body: String::new(), arity: 0, is_value: true });
                MacroDef { name: later, params: None, body: format!("{}", v), arity: 0, is_value: true }
            }
            10 => {
                desc.push("## paste of two parameters".into());
                MacroDef { name, params: Some(vec!["a".into(), "b".into()]), body: "a##b".into(), arity: 2, is_value: false }
            }
            _ => MacroDef { name, params: None, body: format!("0x{:x}", rng.below(200)), arity: 0, is_value: true },
        };
        let head = match &def.params {
            None => format!("#define {} {}", def.name, def.body),
            Some(p) => format!("#define {}({}) {}", def.name, p.join(","), def.body),
        };
        lines.push(head);
        if !large && def.params.is_none() && def.is_value && rng.chance(1, 6) {
            // directives in a group that is not selected must leave the macro alone
            desc.push("#undef / #define of the macro inside an unselected group".into());
            lines.push(format!("#ifdef NEVER_{}", k));
            lines.push(format!("#undef {}", def.name));
            lines.push(format!("#define {} 111", def.name));
            lines.push("#endif".into());
        }
        macros.push(def);
        // occasional #undef of an earlier macro that no body depends on (at the roll-over indices for sure)
        let rollover = large && [98usize, 99, 100, 101, 198, 199, 200, 201].contains(&k);
        if (rollover || rng.chance(1, 15)) && k > 2 {
            let cands: Vec<String> = macros
                .iter()
                .filter(|m| !body_uses.contains(&m.name) && !undefined.contains(&m.name) && m.name.starts_with('K') && m.name != "K0")
                .map(|m| m.name.clone())
                .collect();
            if !cands.is_empty() {
                let u = rng.pick(&cands).clone();
                lines.push(format!("#undef {}", u));
                if rollover {
                    desc.push(format!("#undef at definition index {}", k));
                } else {
                    desc.push("#undef".into());
                }
                let objlike = macros.iter().any(|m| m.name == u && m.params.is_none() && m.is_value);
                if objlike && rng.chance(1, 2) {
                    // defined again with another value: legal after an #undef
                    let nv = format!("{}", 200 + rng.below(50));
                    lines.push(format!("#define {} {}", u, nv));
                    for m in macros.iter_mut() {
                        if m.name == u {
                            m.body = nv.clone();
                        }
                    }
                    desc.push("#define again after #undef".into());
                } else {
                    undefined.push(u);
                }
            }
        }
    }
    // uses
    lines.push("const char txt[] = \"K0 K1(2) xK0 K0_x \\\"K2\\\" DK\";".into());
    lines.push("void show(char *s) { sp = s; }".into());
    lines.push("void main() {".into());
    let live: Vec<&MacroDef> = macros.iter().filter(|m| !undefined.contains(&m.name)).collect();
    let value_of = |m: &MacroDef, rng: &mut Rng, live: &Vec<&MacroDef>, depth: usize| -> String {
        fn arg(rng: &mut Rng, live: &Vec<&MacroDef>, depth: usize) -> String {
            let vals: Vec<&&MacroDef> = live.iter().filter(|m| m.is_value).collect();
            if depth >= 1 {
                // inside a nested macro call only parenthesis-free arguments: after expansion an
                // argument nested deeper than 4 parenthesis levels is silently left unexpanded
                // (known finding macro_argument_nesting_limit)
                return match rng.below(3) {
                    0 => format!("g{}", rng.below(4)),
                    1 => format!("{}", rng.below(30)),
                    _ => format!("arr[{}]", rng.below(8)),
                };
            }
            match rng.below(6) {
                0 => format!("g{}", rng.below(4)),
                1 => format!("{}", rng.below(30)),
                2 if !vals.is_empty() && depth < 1 => {
                    let m = rng.pick(&vals);
                    use_text(m, rng, live, depth + 1)
                }
                3 => format!("(g{}, {})", rng.below(4), rng.below(9)), // comma expression in parentheses: one argument
                4 => format!("(g{} & (3 | {}))", rng.below(4), rng.below(4)),
                _ => format!("arr[{}]", rng.below(8)),
            }
        }
        fn use_text(m: &MacroDef, rng: &mut Rng, live: &Vec<&MacroDef>, depth: usize) -> String {
            match &m.params {
                None => m.name.clone(),
                Some(p) => {
                    let a: Vec<String> = (0..p.len()).map(|_| arg(rng, live, depth)).collect();
                    format!("{}({})", m.name, a.join(if rng.chance(1, 2) { ", " } else { "," }))
                }
            }
        }
        use_text(m, rng, live, depth)
    };
    let nuse = if large { 12 } else { rng.range(3, 9) };
    let ops = ["+", "-", "&", "|", "^"];
    for _ in 0..nuse {
        let vals: Vec<&&MacroDef> = live.iter().filter(|m| m.is_value).collect();
        if vals.is_empty() {
            break;
        }
        let m = **rng.pick(&vals);
        let u = value_of(m, &mut rng, &live, 0);
        match rng.below(9) {
            0 => lines.push(format!("  g0 = {};", u)),
            1 => {
                // adjacent to operators without blanks
                let op = rng.pick(&ops);
                lines.push(format!("  g1 = g2{}{}{}1;", op, u, op));
                desc.push("use adjacent to operators".into());
            }
            2 => {
                lines.push(format!("  K0_x = {}; xK0 = K0_x; K01 = xK0; _K0 = K01; K0_ = _K0;", u));
                desc.push("identifiers containing a macro name".into());
            }
            3 => {
                lines.push(format!("  show(\"{} K0 {}\");", m.name, "K1"));
                desc.push("macro name inside a string literal".into());
            }
            4 => lines.push(format!("  arr[{} & 7] = g3;", u)),
            5 => lines.push(format!("  if (g0 == {}) g1 = {};", u, u)),
            6 => {
                let pasters: Vec<&&MacroDef> = live.iter().filter(|m| m.body == "a##b").collect();
                if !pasters.is_empty() {
                    let p = rng.pick(&pasters);
                    // no blanks around the arguments: the compiler keeps them and "g" ## " 2" no
                    // longer forms one token (known finding paste_keeps_argument_blanks)
                    lines.push(format!("  {}(g,{}) = {}(1,{});", p.name, rng.below(4), p.name, rng.below(9)));
                    desc.push("## use".into());
                } else {
                    lines.push(format!("  g2 = ({});", u));
                }
            }
            7 => {
                let v2 = **rng.pick(&vals);
                let u2 = value_of(v2, &mut rng, &live, 0);
                lines.push(format!("  g3 = {} + {};", u, u2));
            }
            _ => lines.push(format!("  g2 = {} ;", u)),
        }
    }
    // a function-like macro nested in itself three deep, next to a macro defined after it
    {
        let two: Vec<&&MacroDef> = live.iter().filter(|m| m.params.is_some() && m.arity == 2 && m.is_value && m.body != "a##b").collect();
        let later: Vec<&&MacroDef> = live.iter().filter(|m| m.params.is_none() && m.is_value).collect();
        if let (Some(f), Some(k)) = (two.first(), later.last()) {
            lines.push(format!("  g2 = {f}({f}({f}(1,2),3),{k});", f = f.name, k = k.name));
            desc.push("three nested calls of one macro next to a later macro".into());
        }
    }
    // a function whose name ENDS in the name of a function-like macro, called after the macro
    // is defined: `xK3(2)` is one identifier, not `x` followed by a macro call
    let suffix_fns: Vec<String> = live.iter().filter(|m| m.params.is_some() && m.arity == 1).map(|m| m.name.clone()).take(2).collect();
    for n in &suffix_fns {
        lines.push(format!("  g1 = x{}(2) + g1;", n));
        desc.push("function name ending in a macro name".into());
    }
    // names of undefined macros are ordinary identifiers again: declare and use one
    lines.push("}".into());
    for n in &suffix_fns {
        lines.insert(4, format!("char x{}(char v) {{ return v + 1; }}", n));
    }
    for u in undefined.iter().take(2) {
        lines.insert(4, format!("unsigned char {}_after;", u));
    }
    Case { src: lines.join("\n") + "\n", cmdline, desc, nmacros: nm }
}

// ------------------------------------------------------------------ judgement

fn strip_obs(o: &Outcome) -> String {
    match o {
        Outcome::Ok(obs) => {
            let mut s = String::new();
            for v in &obs.vars {
                s.push_str(&format!("{:?}\n", v));
            }
            for f in &obs.funcs {
                s.push_str(&format!("{} {:?} {:?}\n{}\n", f.name, f.inline, f.size_bytes, f.text.clone().unwrap_or_default()));
            }
            s.push_str(&format!("{:?}{:?}", obs.call_tree, obs.in_use));
            s
        }
        Outcome::Err(e) => format!("Err {} {}", e.kind, e.msg),
        Outcome::Panic { site, msg } => format!("Panic {} {}", site, msg),
    }
}

fn judge(kind: &str, idx: u64, c: &Case, sig: Option<String>) -> CaseResult {
    let mut res = CaseResult::new("", hash_str(&c.src) ^ hash_str(&c.cmdline.join(" ")));
    let expanded = expand_source(&c.src, &c.cmdline);
    let mut o = Opts::default();
    o.defines = c.cmdline.clone();
    let with_macros = compile_src(&c.src, &o);
    let by_hand = compile_src(&expanded, &Opts::default());
    res.count("comparisons", 1);
    for d in &c.desc {
        res.set("macro / use-site kinds", d);
    }
    res.set("macro count bucket", &format!("{:03}+", (c.nmacros / 50) * 50));
    let a = strip_obs(&with_macros);
    let b = strip_obs(&by_hand);
    if expanded.trim() != c.src.trim() {
        res.nontrivial = true;
    }
    if a != b {
        res.class = "expansion differs from the reference expansion".into();
        // first differing line
        let d = a.lines().zip(b.lines()).find(|(x, y)| x != y).map(|(x, y)| format!("compiler: {}\nreference: {}", trunc(x, 300), trunc(y, 300))).unwrap_or_else(|| format!("{} / {}", with_macros.short(), by_hand.short()));
        res.violate(
            &sig.clone().unwrap_or(format!("C08:{}:{}", kind, idx)),
            &format!("C08: compiling with macros differs from compiling the reference expansion ({} / {})\n{}\n--- source (-D {:?})\n{}\n--- reference expansion\n{}", with_macros.short(), by_hand.short(), d, c.cmdline, c.src, expanded),
            json!({"kind": kind, "idx": idx, "source": c.src, "expanded": expanded, "defines": c.cmdline, "why": d}),
        );
        return res;
    }
    // -D versus #define at the top
    if !c.cmdline.is_empty() {
        let mut top = String::new();
        for d in &c.cmdline {
            let mut it = d.splitn(2, '=');
            let n = it.next().unwrap();
            top.push_str(&format!("#define {} {}\n", n, it.next().unwrap_or("1")));
        }
        let as_define = compile_src(&format!("{}{}", top, c.src), &Opts::default());
        res.count("comparisons", 1);
        res.count("-D versus #define comparisons", 1);
        if strip_obs(&as_define) != a {
            res.violate(
                &sig.unwrap_or(format!("C08:{}:{}", kind, idx)),
                &format!("C08: -D {:?} behaves differently from the equivalent #define at the top of the file\n--- source\n{}", c.cmdline, c.src),
                json!({"kind": kind, "idx": idx, "source": c.src, "defines": c.cmdline}),
            );
            return res;
        }
    }
    res.class = match &with_macros {
        Outcome::Ok(_) => "identical to the hand-expanded program (both compile)".into(),
        _ => "identical outcome (both refused)".into(),
    };
    if idx % 503 == 0 {
        res.sample = Some(json!({"kind": kind, "idx": idx, "source": c.src, "expanded": expanded, "defines": c.cmdline}));
    }
    res
}

pub fn c08_pins() -> Vec<(&'static str, Case)> {
    vec![
        (
            "paste_keeps_argument_blanks",
            Case {
                src: "unsigned char g2;\n#define CAT(a,b) a##b\nvoid main() { CAT(g, 2) = CAT(1, 7); }\n".into(),
                cmdline: vec![],
                desc: vec!["## with blanks around the arguments".into()],
                nmacros: 1,
            },
        ),
        (
            "macro_argument_nesting_limit",
            Case {
                src: "unsigned char g0, g1, g3;\n#define K2(a,b,c) ((a) - (b) + (c))\n#define K3(x) ((x) & 7)\nvoid main() { g3 = K3(K3(K2(g0, (g1 & (3 | 2)), g0))); }\n".into(),
                cmdline: vec![],
                desc: vec!["argument nested deeper than four parenthesis levels".into()],
                nmacros: 2,
            },
        ),
        (
            "parameter_named_like_a_macro",
            Case {
                src: "unsigned char g0, g1;\n#define x 5\n#define F(x) ((x)+1)\n#define IS_X(x) ((x) == 'x')\nvoid main() { g0 = F(2); g1 = IS_X(120); }\n".into(),
                cmdline: vec![],
                desc: vec!["parameter named like an earlier macro".into()],
                nmacros: 3,
            },
        ),
        (
            "body_names_a_later_macro",
            Case {
                src: "unsigned char g0, g1;\n#define FIRST SECOND\n#define TWICE(a) (SECOND + (a))\n#define SECOND 9\nvoid main() { g0 = FIRST; g1 = TWICE(FIRST); }\n".into(),
                cmdline: vec![],
                desc: vec!["body naming a macro defined later".into()],
                nmacros: 3,
            },
        ),
        (
            "tab_after_define",
            Case {
                src: "unsigned char g0;\n#define\tSEVEN\t7\n#define\tINC(a)\t((a)+1)\nvoid main() { g0 = INC(SEVEN); }\n".into(),
                cmdline: vec![],
                desc: vec!["tab between #define and the name".into()],
                nmacros: 2,
            },
        ),
        (
        "paste_with_non_parameter",
        Case {
            src: "unsigned char v_t;\n#define M(a) a##_t\nvoid main() { M(v) = 1; }\n".into(),
            cmdline: vec![],
            desc: vec!["## with a non-parameter right operand".into()],
            nmacros: 1,
        },
    )]
}

impl Monitor for C08 {
    fn id(&self) -> &'static str {
        "C08"
    }
    fn level(&self) -> &'static str {
        "translation_validation"
    }
    fn rule(&self) -> String {
        "programs with 1-8 (small pool) or 90-250 (large pool, with #undef at definition indices 98-101 and 198-201) macro definitions: object-like \
         (numbers, expressions over earlier macros, variable aliases), function-like with 0-3 parameters, bodies calling earlier function-like \
         macros, ## paste, parameters named like variables; uses adjacent to operators, inside longer identifiers (K0_x, xK0, K01, _K0, K0_), inside \
         string literals, as arguments of other macros, nested calls, parenthesised comma arguments; -D NAME and -D NAME=VALUE. Each program is \
         compiled as written and after expansion by an independent token-level expander; declarations, emitted text, call tree must be identical; \
         -D is also compared with a #define at the top. Also: parameters named like earlier macros, bodies naming a macro defined on the next line, a never-selected group with #undef / #define of the macro just defined, -D NAME=NAME_longer, a character constant as last token of a body. non-trivial = the reference expansion changed the text"
            .into()
    }
    fn assumptions(&self) -> Vec<String> {
        vec![
            "no macro that a later body depends on is #undef'd before that body is used (eager and rescanning expansion agree)".into(),
            "self-referential macros are C16's subject and not generated here".into(),
        ]
    }
    fn plan(&self, tier: &Tier, seed: u64) -> Vec<Chunk> {
        let np = c08_pins().len() as u64;
        let mut v = split_chunks("pin", 0, np, np, 1);
        let (ns, nl) = match tier {
            Tier::Quick => (40_000, 800),
            Tier::Thorough => (200_000, 6_000),
        };
        v.extend(split_chunks("small", seed_offset(seed, "C08s", 200_000), ns, 200_000, 200));
        v.extend(split_chunks("large", seed_offset(seed, "C08l", 6_000), nl, 6_000, 10));
        v
    }
    fn run_case(&self, kind: &str, idx: u64) -> CaseResult {
        match kind {
            "pin" => {
                let (name, c) = &c08_pins()[idx as usize];
                judge(kind, idx, c, Some(format!("pin:{}", name)))
            }
            "large" => judge(kind, idx, &gen_case(idx, true), None),
            _ => judge(kind, idx, &gen_case(idx, false), None),
        }
    }
    fn thresholds(&self, _tier: &Tier) -> Vec<(String, u64)> {
        vec![
            ("distinct_nontrivial".into(), 5000),
            ("set:macro / use-site kinds".into(), 12),
            ("-D versus #define comparisons".into(), 500),
            ("set:macro count bucket".into(), 3),
        ]
    }
    fn extra_coverage(&self, agg: &Aggregate) -> serde_json::Map<String, serde_json::Value> {
        let mut m = serde_json::Map::new();
        m.insert("programs".into(), json!(agg.distinct.len()));
        m.insert("disagreements_checked".into(), json!(agg.counter("comparisons")));
        m
    }
}
