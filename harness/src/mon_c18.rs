// C18: timing and hardware-access statements are emitted exactly.
// (a) cycle monitor: cycles spent between two executed marker instructions around csleep(n),
//     registers and memory compared with a csleep-free twin;
// (b) access-trace monitor: the ordered list of accesses to hardware addresses, executed asm
//     markers and csleep durations observed on the emulator must equal the reference
//     interpreter's list, at every optimisation level;
// (c) the C01 oracle on the surrounding code.

use crate::cgen::*;
use crate::cmodel::*;
use crate::common::*;
use crate::driver::*;
use crate::emu6502::{AccKind, Stop};
use crate::exec::*;
use crate::framework::*;
use crate::layout::{build_image, new_machine, Built};
use crate::pins::{self, Pin};
use serde_json::json;
use std::collections::BTreeMap;

pub struct C18;

pub fn cfg_c18() -> GenCfg {
    GenCfg { hw: true, hw_dense: true, inline: true, ..GenCfg::default() }
}

const DUMMY: u16 = 0x2d;
/// the register whose reads belong to load() alone (cgen::hw_stmt)
const EXPLICIT_READ: u16 = 0x02;

fn marker_addrs(b: &Built) -> BTreeMap<u16, String> {
    let mut m = BTreeMap::new();
    for l in &b.asm.lines {
        if let Some(mk) = &l.marker {
            if mk.starts_with("@I") {
                m.insert(l.addr, mk.clone());
            }
        }
    }
    m
}

#[derive(Debug, Clone, PartialEq)]
enum Ev {
    R(u16),
    W(u16, Option<u8>),
    X(String),
    /// register transfer executed (opcode)
    T(u8),
}

fn hw_watch(m: &mut crate::emu6502::Machine, marks: &BTreeMap<u16, String>) {
    m.watch.push((0x00, 0x80));
    m.watch.push((0x0280, 0x0281));
    m.watch.push((0xff, 0x102)); // the boundary register HW4
    m.pc_marks = marks.keys().cloned().collect();
    m.watch_ops = vec![0x8a, 0xaa, 0x98, 0xa8]; // TXA TAX TYA TAY
    m.max_events = 20_000;
}

fn observed_trace(m: &crate::emu6502::Machine, marks: &BTreeMap<u16, String>) -> (Vec<Ev>, Vec<u64>) {
    let mut v = Vec::new();
    let mut cyc = Vec::new();
    for e in &m.events {
        if e.addr == DUMMY && e.kind != AccKind::Exec {
            continue;
        }
        match e.kind {
            AccKind::Read | AccKind::RmwRead => v.push(Ev::R(e.addr)),
            AccKind::Write | AccKind::RmwWrite => v.push(Ev::W(e.addr, Some(e.val))),
            AccKind::Exec => {
                if e.val != 0 {
                    v.push(Ev::T(e.val))
                } else {
                    v.push(Ev::X(marks.get(&e.addr).cloned().unwrap_or_default()))
                }
            }
        }
        cyc.push(e.cycle);
    }
    (v, cyc)
}

fn marker_of(text: &str) -> String {
    match text.find("@I") {
        Some(i) => text[i..].chars().take_while(|c| c.is_ascii_alphanumeric() || *c == '@').collect(),
        None => String::new(),
    }
}

/// In a listing (--insert-code) the source line of every statement is written as a comment in
/// front of its code.  For a line that is exactly one explicit statement - load(..); store(..);
/// strobe(..); - the code up to the next source line must contain the instruction the statement
/// stands for: LDA / TXA / TYA, STA / TAX / TAY.  Returns (statements checked, first miss).
fn listing_oracle(obs: &Obs) -> (u64, Option<String>) {
    let mut n = 0;
    for f in &obs.funcs {
        let text = match &f.text {
            Some(t) => t,
            None => continue,
        };
        let lines: Vec<&str> = text.lines().collect();
        let mut i = 0;
        while i < lines.len() {
            let l = lines[i].trim();
            i += 1;
            let stmt = match l.strip_prefix(";(l.") {
                Some(rest) => rest.split_once(')').map(|x| x.1.trim()).unwrap_or(""),
                None => continue,
            };
            let want: &[&str] = if stmt.starts_with("load(") && stmt.ends_with(");") && stmt.matches(';').count() == 1 {
                &["LDA", "TXA", "TYA"]
            } else if (stmt.starts_with("store(") || stmt.starts_with("strobe(")) && stmt.ends_with(");") && stmt.matches(';').count() == 1 {
                &["STA", "TAX", "TAY"]
            } else {
                continue;
            };
            let mut found = false;
            let mut j = i;
            while j < lines.len() && !lines[j].trim_start().starts_with(";(l.") {
                let t = lines[j].trim();
                if want.iter().any(|m| t.starts_with(m)) {
                    found = true;
                    break;
                }
                j += 1;
            }
            if !found {
                // the peephole pass may swap a load with the CLC / SEC that follows it (same cycles,
                // same effect): the load is then the first instruction under the next source line
                let only_carry = lines[i..j].iter().map(|t| t.trim()).filter(|t| !t.is_empty() && !t.starts_with(';') && !t.starts_with('.')).all(|t| t.starts_with("CLC") || t.starts_with("SEC"));
                let mut k = j;
                while k < lines.len() && (lines[k].trim_start().starts_with(';') || lines[k].starts_with('.') || lines[k].trim().is_empty()) {
                    k += 1;
                }
                if only_carry && i < j && k < lines.len() && want.iter().any(|m| lines[k].trim().starts_with(m)) {
                    found = true;
                }
            }
            n += 1;
            if !found {
                return (n, Some(format!("function {}: nothing was emitted for the explicit statement '{}' (expected one of {:?} before the next source line)", f.name, stmt, want)));
            }
        }
    }
    (n, None)
}

fn judge_trace(kind: &str, idx: u64, p: &Program, tag: &str) -> CaseResult {
    let src = print_program(p);
    let mut res = CaseResult::new("", crate::util::hash_str(&src));
    let sig = format!("C18:{}:{}", kind, idx);
    for lvl in [0u8, 1, 2, 3] {
        if lvl >= 2 && idx % 5 != 0 {
            continue; // -O2/-O3 take the same path in the library: sampled
        }
        let (obs, built) = match prepare(&src, &Opts::o(lvl)) {
            Prep::Ready(o, b) => (o, b),
            Prep::Skip(c) => {
                res.class = c;
                return res;
            }
        };
        // listing oracle: with --insert-code every statement's source line precedes what was
        // emitted for it; the instruction of an explicit statement must still be there
        if lvl <= 1 {
            let mut ol = Opts::o(lvl);
            ol.insert_code = true;
            if let Outcome::Ok(lobs) = compile_src(&src, &ol) {
                let (n, bad) = listing_oracle(&lobs);
                res.count("explicit statements found in the listing with their instruction", n);
                if let Some(w) = bad {
                    res.class = "an explicit statement was not emitted".into();
                    res.violate(
                        &format!("C18:{}:{}", kind, idx),
                        &format!("C18 -O{} --insert-code: {}\n--- source\n{}", lvl, w, src),
                        json!({"kind": kind, "idx": idx, "opt": lvl, "why": w, "source": src, "listing": listing(&lobs)}),
                    );
                    return res;
                }
            }
        }
        let marks = marker_addrs(&built);
        // (address, mnemonic) of every instruction the compiler marked protected, sorted by address
        let mut prot: Vec<(u16, String)> = Vec::new();
        {
            let mut pending = false;
            for l in &built.asm.lines {
                match l.kind {
                    crate::asm6502::LineKind::Comment => {
                        if l.text.trim() == ";@P" {
                            pending = true;
                        }
                    }
                    crate::asm6502::LineKind::Instr => {
                        if pending {
                            prot.push((l.addr, l.mnemonic.clone()));
                        }
                        pending = false;
                    }
                    _ => {}
                }
            }
            prot.sort();
            prot.dedup_by_key(|x| x.0);
        }
        if built.layout.zp_end > 0xf0 {
            // variables would reach the watched boundary addresses
            res.class = "too many variables for the watched address ranges (not judged)".into();
            return res;
        }
        for k in 0..4u64 {
            let input = gen_input(p, tag, idx, k);
            let (exp_state, trace, steps) = match reference(p, &input, 20_000) {
                Ok(x) => x,
                Err(_) => continue,
            };
            let rr = run_compiled(p, &built, &input, cycle_budget(steps), &|m| {
                hw_watch(m, &marks);
                m.pc_count_set = prot.iter().map(|x| x.0).collect();
            });
            // protected instructions executed (the compiler's own mark, made visible by the hook
            // steux_cc6502_verif) against the explicit statements the reference executed
            if rr.stop == Stop::Halt && !prot.is_empty() || rr.stop == Stop::Halt && trace.iter().any(|t| matches!(t, TraceEv::Explicit(_))) {
                let (mut got_l, mut got_s) = (0u64, 0u64);
                for (i, (_, mn)) in prot.iter().enumerate() {
                    let n = rr.machine.pc_counts.get(i).copied().unwrap_or(0);
                    match mn.as_str() {
                        "LDA" | "TXA" | "TYA" => got_l += n,
                        "STA" | "TAX" | "TAY" => got_s += n,
                        _ => {}
                    }
                }
                let want_l = trace.iter().filter(|t| matches!(t, TraceEv::Explicit(1))).count() as u64;
                let want_s = trace.iter().filter(|t| matches!(t, TraceEv::Explicit(2) | TraceEv::CSleep(3))).count() as u64;
                res.count("protected loads / stores executed and compared with the explicit statements executed", got_l + got_s);
                if got_l != want_l || got_s != want_s {
                    let w = format!(
                        "the source executes {} explicit loads and {} explicit stores / strobes, the emitted code executes {} protected load and {} protected store instructions",
                        want_l, want_s, got_l, got_s
                    );
                    res.class = "explicit statements not executed as prescribed".into();
                    res.violate(
                        &format!("C18:{}:{}", kind, idx),
                        &format!("C18 -O{} input #{}: {}\n--- source\n{}", lvl, k, w, src),
                        json!({"kind": kind, "idx": idx, "opt": lvl, "vector": k, "why": w, "source": src, "listing": listing(&obs), "input": state_brief(p, &input)}),
                    );
                    return res;
                }
            }
            let (got, cyc) = observed_trace(&rr.machine, &marks);
            let got_all = got.clone();
            let mut openers: std::collections::BTreeSet<String> = std::collections::BTreeSet::new();
            // expected lists from the reference trace: `full` has every access to a hardware
            // operand; `want` only what the explicit statements do (the property's subject)
            let mut full: Vec<Ev> = Vec::new();
            let mut want: Vec<Ev> = Vec::new();
            let mut sleeps: Vec<(usize, i32)> = Vec::new(); // (index in `want` of the marker before the csleep, n)
            let mut last_marker = false;
            let mut last_sleep = false;
            for t in &trace {
                let mut marker = false;
                match t {
                    TraceEv::HwRead(a) => full.push(Ev::R(*a)),
                    TraceEv::HwWrite(a) => full.push(Ev::W(*a, None)),
                    TraceEv::Load(a) => {
                        full.push(Ev::R(*a));
                        want.push(Ev::R(*a));
                    }
                    TraceEv::Store(a) | TraceEv::Strobe(a) => {
                        full.push(Ev::W(*a, None));
                        want.push(Ev::W(*a, None));
                    }
                    TraceEv::Asm(t) => {
                        full.push(Ev::X(marker_of(t)));
                        want.push(Ev::X(marker_of(t)));
                        marker = true;
                    }
                    TraceEv::CSleep(n) => {
                        if last_marker {
                            sleeps.push((want.len() - 1, *n));
                            last_sleep = true;
                            last_marker = false;
                            continue;
                        } else if last_sleep {
                            // several csleep statements in a row between the same two markers
                            if let Some(l) = sleeps.last_mut() {
                                l.1 += *n;
                            }
                            continue;
                        }
                    }
                    TraceEv::Xfer(op) => {
                        if last_marker {
                            if let Some(Ev::X(m)) = want.last() {
                                openers.insert(m.clone());
                            }
                        }
                        full.push(Ev::T(*op));
                        want.push(Ev::T(*op));
                        // keep `last_marker` false: the bracket is open until the next marker
                    }
                    TraceEv::Enter(_) | TraceEv::Explicit(_) => continue,
                }
                last_marker = marker;
                last_sleep = false;
            }
            // register transfers are also what ordinary code is made of: only those executed
            // inside a transfer bracket (a marker directly followed by load(X) / load(Y), up to
            // the next marker) belong to explicit statements
            let got: Vec<Ev> = {
                let mut open = false;
                let mut out = Vec::new();
                for e in got.into_iter() {
                    match &e {
                        Ev::X(m) => {
                            open = openers.contains(m);
                            out.push(e);
                        }
                        Ev::T(_) => {
                            if open {
                                out.push(e);
                            }
                        }
                        _ => out.push(e),
                    }
                }
                out
            };
            let cyc: Vec<u64> = {
                // cycles of the kept events only (same filter)
                let mut open = false;
                let mut out = Vec::new();
                for (e, c) in got_all.iter().zip(cyc.iter()) {
                    match e {
                        Ev::X(m) => {
                            open = openers.contains(m);
                            out.push(*c);
                        }
                        Ev::T(_) => {
                            if open {
                                out.push(*c);
                            }
                        }
                        _ => out.push(*c),
                    }
                }
                out
            };
            // observed accesses that can only come from explicit statements (see cgen::hw_stmt):
            // reads of HW0, writes of the write-only registers, executed markers
            let explicit_only = |e: &Ev| match e {
                Ev::R(a) => *a == EXPLICIT_READ,
                Ev::W(a, _) => WRITE_ONLY_HW.contains(a),
                Ev::X(_) => true,
                Ev::T(_) => true,
            };
            let mut got_x = Vec::new();
            let mut cyc_x = Vec::new();
            for (e, c) in got.iter().zip(cyc.iter()) {
                if explicit_only(e) {
                    got_x.push(e.clone());
                    cyc_x.push(*c);
                }
            }
            let ev_eq = |w: &Ev, g: &Ev| match (w, g) {
                (Ev::R(a), Ev::R(b)) => a == b,
                (Ev::W(a, _), Ev::W(b, _)) => a == b,
                (Ev::X(a), Ev::X(b)) => a == b,
                (Ev::T(a), Ev::T(b)) => a == b,
                _ => false,
            };
            res.count("comparisons", 1);
            res.count("explicit accesses / markers compared", want.len() as u64);
            res.count("explicit register transfers compared", want.iter().filter(|e| matches!(e, Ev::T(_))).count() as u64);
            let first_diff = |w: &Vec<Ev>, g: &Vec<Ev>| -> Option<usize> {
                let i = w.iter().zip(g.iter()).take_while(|(a, b)| ev_eq(a, b)).count();
                if i == w.len() && i == g.len() {
                    None
                } else {
                    Some(i)
                }
            };
            let mut why = None;
            if rr.stop != Stop::Halt {
                why = Some(format!("emitted code: {}", stop_str(&rr.stop)));
            } else if let Some(i) = first_diff(&want, &got_x) {
                why = Some(format!(
                    "explicit statements (load / store / strobe / asm) differ at position {}: source prescribes {:?} (of {}), emitted code did {:?} (of {})",
                    i,
                    &want[i.min(want.len())..(i + 3).min(want.len())],
                    want.len(),
                    &got_x[i.min(got_x.len())..(i + 3).min(got_x.len())],
                    got_x.len()
                ));
            } else if lvl == 0 && first_diff(&full, &got).is_some() {
                // without the optimiser every access of the source is in the code
                let i = first_diff(&full, &got).unwrap();
                why = Some(format!(
                    "-O0 access trace differs at position {}: source prescribes {:?} (of {}), emitted code did {:?} (of {})",
                    i,
                    &full[i.min(full.len())..(i + 3).min(full.len())],
                    full.len(),
                    &got[i.min(got.len())..(i + 3).min(got.len())],
                    got.len()
                ));
            } else {
                for (i, n) in &sleeps {
                    // want[i] is the marker before the csleep, want[i+1] the marker after it
                    if *i + 1 < cyc_x.len() && matches!(want[*i], Ev::X(_)) && matches!(want.get(*i + 1), Some(Ev::X(_))) {
                        let d = cyc_x[*i + 1] as i64 - cyc_x[*i] as i64 - 2;
                        res.count("csleep durations measured in context", 1);
                        res.set("csleep values measured", &format!("{:02}", n));
                        if d != *n as i64 {
                            why = Some(format!("csleep({}) took {} cycles between its markers", n, d));
                            break;
                        }
                    }
                }
                if why.is_none() {
                    if let Some(d) = diff_states(p, &exp_state, &rr.state, true) {
                        why = Some(format!("code around the explicit statements misbehaves: final state differs from the reference: {}", d));
                    }
                }
            }
            let want = full; // adjacency statistics are taken over all accesses
            if !want.is_empty() {
                res.nontrivial = true;
                // adjacency patterns: same-operand neighbours
                for w in want.windows(2) {
                    if let (Ev::R(a), Ev::W(b, _)) | (Ev::W(b, _), Ev::R(a)) = (&w[0], &w[1]) {
                        if a == b {
                            res.count("adjacent read/write of the same hardware operand", 1);
                        }
                    }
                    if let (Ev::W(a, _), Ev::W(b, _)) = (&w[0], &w[1]) {
                        if a == b {
                            res.count("adjacent writes to the same hardware operand", 1);
                        }
                    }
                    if let (Ev::R(a), Ev::R(b)) = (&w[0], &w[1]) {
                        if a == b {
                            res.count("adjacent reads of the same hardware operand", 1);
                        }
                    }
                }
            }
            if let Some(w) = why {
                res.class = "violated".into();
                res.violate(
                    &sig,
                    &format!("C18 -O{} input #{}: {}\n--- source\n{}", lvl, k, w, src),
                    json!({"kind": kind, "idx": idx, "opt": lvl, "vector": k, "why": w, "source": src, "listing": listing(&obs), "input": state_brief(p, &input)}),
                );
                return res;
            }
        }
    }
    res.class = if res.nontrivial { "explicit statements executed exactly as prescribed".into() } else { "accepted; no explicit statement executed".into() };
    if idx % 499 == 0 {
        res.sample = Some(json!({"kind": kind, "idx": idx, "source": src}));
    }
    res
}

// ------------------------------------------------------------------ (a) cycle monitor

fn cycle_case(idx: u64) -> (String, String, i32, u64, u8) {
    let n = [2, 3, 4, 5, 6, 7, 8, 9, 10][(idx % 9) as usize];
    let ctx = (idx / 9) % 5;
    let lvl = ((idx / 45) % 4) as u8;
    let body = |sleep: &str| -> String {
        let core = format!("asm(\"NOP ;@I1\", 1); {} asm(\"NOP ;@I2\", 1);", sleep);
        match ctx {
            0 => format!("  {}\n", core),
            1 => format!("  for (n = 0; n != 3; n++) {{ {} }}\n", core),
            2 => format!("  if (a != 77) {{ {} }}\n", core),
            3 => format!("  if (a == 77) {{ c = 1; }} else {{ {} }}\n", core),
            _ => format!("  X = b; {} if (X == 0) c = 9; else c = 8;\n", core),
        }
    };
    let mk = |sleep: &str| format!("unsigned char a, b, c, r1, r2, n;\nvoid main() {{\n  X = a; Y = b;\n{}  r1 = X; r2 = Y;\n}}\n", body(sleep));
    (mk(&format!("csleep({});", n)), mk(""), n, ctx, lvl)
}

fn run_cycles(src: &str, lvl: u8, a: u8, b: u8) -> Result<(Vec<u64>, Vec<u8>, String), String> {
    let o = compile_src(src, &Opts::o(lvl));
    let obs = match &o {
        Outcome::Ok(obs) => obs.clone(),
        other => return Err(other.short()),
    };
    let built = build_image(&obs, false)?;
    if let Some(e) = built.asm.errors.first() {
        return Err(format!("{:?}", e));
    }
    let marks = marker_addrs(&built);
    let mut m = new_machine(&built);
    hw_watch(&mut m, &marks);
    for v in &built.layout.ram {
        let val = match v.name.as_str() {
            "a" => a,
            "b" => b,
            _ => 0x5a,
        };
        m.mem[v.addr as usize] = val;
    }
    m.a = 0x33;
    let stop = m.run(built.asm.entry_stub, 100_000);
    if stop != Stop::Halt {
        return Err(stop_str(&stop));
    }
    let ex: Vec<(String, u64)> = m.events.iter().filter(|e| e.kind == AccKind::Exec).map(|e| (marks[&e.addr].clone(), e.cycle)).collect();
    let mut deltas = Vec::new();
    let mut i = 0;
    while i + 1 < ex.len() {
        if ex[i].0 == "@I1" && ex[i + 1].0 == "@I2" {
            deltas.push(ex[i + 1].1 - ex[i].1 - 2);
            i += 2;
        } else {
            i += 1;
        }
    }
    let mut img: Vec<u8> = m.mem[0x81..built.layout.zp_end as usize].to_vec();
    img.push(m.x);
    img.push(m.y);
    img.push(m.sp);
    img.push(m.a); // csleep must leave the accumulator alone too (load(); csleep(); store() idiom)
    Ok((deltas, img, listing(&obs)))
}

fn judge_cycles(kind: &str, idx: u64) -> CaseResult {
    let (with, without, n, ctx, lvl) = cycle_case(idx);
    let mut res = CaseResult::new("", crate::util::hash_str(&with) ^ lvl as u64);
    res.set("csleep values measured", &format!("{:02}", n));
    res.set("cycle-monitor contexts", &["straight line", "inside a loop", "inside an if", "inside an else", "between X = b and a test of X"][ctx as usize]);
    let sig = format!("C18:{}:{}", kind, idx);
    for (a, b) in [(0u8, 0u8), (77, 1), (200, 0), (1, 255)] {
        let r1 = run_cycles(&with, lvl, a, b);
        let r0 = run_cycles(&without, lvl, a, b);
        let (d1, img1, lst) = match r1 {
            Ok(x) => x,
            Err(e) => {
                res.class = format!("not accepted / not run: {}", norm_msg(&e));
                return res;
            }
        };
        let (d0, img0, _) = match r0 {
            Ok(x) => x,
            Err(e) => {
                res.class = format!("twin not run: {}", norm_msg(&e));
                return res;
            }
        };
        res.count("comparisons", 1);
        let mut why = None;
        if d1.len() != d0.len() {
            why = Some(format!("the marker pair ran {} times with csleep, {} times without", d1.len(), d0.len()));
        } else {
            for (x, y) in d1.iter().zip(d0.iter()) {
                res.count("csleep durations measured (twin-calibrated)", 1);
                if *x as i64 - *y as i64 != n as i64 {
                    why = Some(format!("csleep({}) consumes {} cycles (twin without it: {})", n, x, y));
                }
            }
            if why.is_none() && img1 != img0 {
                why = Some(format!("csleep({}) changed a variable or a register: final RAM/X/Y/S differ from the csleep-free twin", n));
            }
        }
        if !d1.is_empty() {
            res.nontrivial = true;
        }
        if let Some(w) = why {
            res.class = "violated".into();
            res.violate(
                &sig,
                &format!("C18 cycle monitor -O{} (a={}, b={}): {}\n--- source\n{}\n{}", lvl, a, b, w, with, lst),
                json!({"kind": kind, "idx": idx, "opt": lvl, "why": w, "source": with, "listing": lst}),
            );
            return res;
        }
    }
    res.class = "csleep consumes exactly n cycles and changes nothing".into();
    res
}

pub fn c18_pins() -> Vec<Pin> {
    vec![
        Pin {
            name: "csleep_then_flag_test",
            src: "unsigned char a, r; void main() { X = a; csleep(5); r = 0; if (X == 0) r = 1; }",
            init: &[("a", 0)],
            x: 9,
            y: 0,
            expect: &[("r", 1)],
        },
        Pin {
            name: "store_with_computed_subscript",
            src: "unsigned char arr[8]; unsigned char v, i, r; void main() { v = 77; i = 2; load(v); store(arr[i + 1]); r = arr[3]; }",
            init: &[],
            x: 0,
            y: 0,
            expect: &[("r", 77)],
        },
        Pin {
            name: "strobe_with_subscript",
            src: "unsigned char pad[15]; unsigned char arr[4]; unsigned char * const REG = 0x90; unsigned char v, r; void main() { v = 5; load(v); strobe(REG[2]); r = arr[2]; }",
            init: &[],
            x: 0,
            y: 0,
            expect: &[("r", 5)],
        },
        Pin {
            name: "load_then_flag_test",
            src: "unsigned char * const P = 0x2a;\nunsigned char a, l, r; void main() { l = a; load(*P); if (l == 0) r = 1; else r = 2; }",
            init: &[("a", 0)],
            x: 0,
            y: 0,
            expect: &[("r", 1)],
        },
        Pin {
            name: "asm_then_flag_test",
            src: "unsigned char a, l, r; void main() { l = a; asm(\"LDA #1\", 2); if (l == 0) r = 1; else r = 2; }",
            init: &[("a", 0)],
            x: 0,
            y: 0,
            expect: &[("r", 1)],
        },
        Pin {
            name: "store_x_then_flag_test",
            src: "unsigned char a, l, r; void main() { l = a; load(1); store(X); if (l == 0) r = 1; else r = 2; }",
            init: &[("a", 0)],
            x: 0,
            y: 0,
            expect: &[("r", 1)],
        },
    ]
}

fn strobe_pin(idx: u64) -> CaseResult {
    // load(*P); strobe(P): the strobe's store must survive every optimisation level
    let src = "unsigned char * const P = 0x2a;\nunsigned char a;\nvoid main() { load(*P); strobe(P); a = 1; *P = a; strobe(P); }\n";
    let mut res = CaseResult::new("pinned witness: held", crate::util::hash_str(src));
    res.nontrivial = true;
    for lvl in [0u8, 1, 2, 3] {
        let o = compile_src(src, &Opts::o(lvl));
        if let Outcome::Ok(obs) = &o {
            if let Ok(b) = build_image(obs, false) {
                let marks = BTreeMap::new();
                let mut m = new_machine(&b);
                hw_watch(&mut m, &marks);
                let _ = m.run(b.asm.entry_stub, 10_000);
                let (got, _) = observed_trace(&m, &marks);
                let kinds: Vec<&str> = got.iter().map(|e| match e {
                    Ev::R(_) => "R",
                    Ev::W(..) => "W",
                    Ev::X(_) => "X",
                    Ev::T(_) => "T",
                }).filter(|k| *k != "T").collect();
                res.count("comparisons", 1);
                if kinds != ["R", "W", "W", "W"] {
                    res.class = "pinned witness: violated".into();
                    res.violate(
                        "pin:strobe_after_load",
                        &format!("C18 pinned witness 'strobe_after_load' at -O{}: accesses to P were {:?}, the source prescribes read, strobe, write, strobe\n--- source\n{}", lvl, kinds, src),
                        json!({"kind": "pin", "idx": idx, "source": src, "listing": listing(obs)}),
                    );
                    return res;
                }
            }
        }
    }
    res
}

impl Monitor for C18 {
    fn id(&self) -> &'static str {
        "C18"
    }
    fn level(&self) -> &'static str {
        "exploration"
    }
    fn rule(&self) -> String {
        "(a) cycle monitor, enumerated: csleep(n) for every n in 2..10 x 5 contexts (straight line, loop body, if, else, between 'X = b' and a test \
         of X) x -O0..3 x 4 inputs; cycles between two executed marker instructions minus the csleep-free twin must be exactly n, and RAM, X, Y, S \
         must equal the twin's. (b) access-trace monitor: programs of the hardware profile (address-constant registers below and above $100; load, \
         store, strobe, marker asm lines and marker-bracketed csleep statements at a rate of 2 in 5 statements, interleaved with ordinary \
         assignments to and from the same operands, inside loops, branches, switch arms and inlined functions) run on the emulator with the \
         hardware addresses watched; the ordered list of reads, writes and executed markers must equal the reference interpreter's list, and every \
         bracketed csleep must take n cycles, at -O0 and -O1 (-O2/-O3 on a fifth). (c) final state against the reference. (d) through the hook steux_cc6502_verif: executions of the instructions the compiler marks protected are counted and must equal the explicit load / store / strobe (+ csleep(3)) statements the reference executed. (e) with --insert-code the code under the source line of an explicit statement must contain its instruction. non-trivial = at least \
         one explicit access or marker was executed"
            .into()
    }
    fn assumptions(&self) -> Vec<String> {
        vec![
            "csleep may change the flags and the DUMMY hardware cell, not registers or variables".into(),
            "store() writes the accumulator, whose value the source does not define: only the access is compared, not its value".into(),
        ]
    }
    fn plan(&self, tier: &Tier, seed: u64) -> Vec<Chunk> {
        let np = c18_pins().len() as u64 + 1;
        let mut v = split_chunks("pin", 0, np, np, 1);
        v.extend(split_chunks("cycles", 0, 9 * 5 * 4, 180, 20));
        let n = match tier {
            Tier::Quick => 60_000,
            Tier::Thorough => 400_000,
        };
        v.extend(split_chunks("trace", seed_offset(seed, "C18t", 400_000), n, 400_000, 150));
        v
    }
    fn run_case(&self, kind: &str, idx: u64) -> CaseResult {
        match kind {
            "pin" => {
                if (idx as usize) < c18_pins().len() {
                    pins::check_pin("C18", &c18_pins()[idx as usize], &[0, 1, 2, 3])
                } else {
                    strobe_pin(idx)
                }
            }
            "cycles" => judge_cycles(kind, idx),
            _ => judge_trace(kind, idx, &gen_program("C18", idx, &cfg_c18()), "C18"),
        }
    }
    fn thresholds(&self, _tier: &Tier) -> Vec<(String, u64)> {
        vec![
            ("distinct_nontrivial".into(), 3000),
            ("set:csleep values measured".into(), 9),
            ("set:cycle-monitor contexts".into(), 5),
            ("csleep durations measured in context".into(), 1000),
            ("explicit accesses / markers compared".into(), 50000),
            ("explicit register transfers compared".into(), 2000),
            ("adjacent read/write of the same hardware operand".into(), 200),
            ("adjacent writes to the same hardware operand".into(), 200),
        ]
    }
}
