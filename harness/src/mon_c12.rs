// C12: call graph and in-use set are complete.
// Four observers on generated call DAGs: (a) static - callees in the source AST versus
// functions_call_tree, JSR targets in the emitted text versus the inline-closed tree;
// (b) closure - independently computed reachability versus functions_actually_in_use;
// (c) dynamic - every JSR executed on the emulator is an edge of the closed tree and enters a
// function of the in-use set; (d) overlay co-execution - locals overlaid by call-tree level as the
// test builder does versus disjoint locals must give the same final state.

use crate::cgen::*;
use crate::cmodel::*;
use crate::common::*;
use crate::driver::*;
use crate::emu6502::Stop;
use crate::exec::*;
use crate::framework::*;
use crate::layout::build_image;
use crate::util::Rng;
use serde_json::json;
use std::collections::{BTreeMap, BTreeSet};

pub struct C12;

/// call graphs with cycles (the random generator only builds DAGs): direct recursion with other
/// calls before and after the self-call, mutual recursion through a prototype, a cycle that only
/// an interrupt handler reaches, functions reachable only from inside a cycle
pub fn recursive_program(idx: u64) -> Program {
    let mut rng = Rng::for_case("C12rec", idx);
    let mut p = Program::default();
    let g = |name: &str| VarDecl { name: name.into(), kind: VarKind::Scalar(Ty::U8), mem: MemClass::Zp, scope: Scope::Global };
    p.vars.push(g("n"));
    p.vars.push(g("m"));
    p.vars.push(g("r"));
    let (n, m, r) = (0usize, 1usize, 2usize);
    let lv = |v: usize| Expr::Lv(LV::Var(v));
    let dec = |v: usize| Stmt::Expr(Expr::IncDec { lv: LV::Var(v), post: true, inc: false });
    let inc = |v: usize| Stmt::Expr(Expr::IncDec { lv: LV::Var(v), post: true, inc: true });
    let call = |f: usize| Stmt::Expr(Expr::Call(f, vec![]));
    let func = |name: &str, body: Vec<Stmt>| Func { name: name.into(), ret: None, params: vec![], body, inline: false, interrupt: false, proto_first: false };
    // leaves
    let nleaf = rng.range(2, 4) as usize;
    for i in 0..nleaf {
        p.funcs.push(func(&format!("leaf{}", i), vec![inc(r)]));
    }
    // a routine that only has a prototype (written in assembler elsewhere), called from leaf0
    if idx % 3 == 0 {
        let ext = p.funcs.len();
        let mut f = func("ext_sfx", vec![]);
        f.proto_first = true;
        p.funcs.push(f);
        p.funcs[0].body.push(call(ext));
    }
    let leaf = |rng: &mut Rng| rng.below(nleaf as u64) as usize;
    let shape = idx % 4;
    match shape {
        0 | 1 => {
            // direct recursion: other calls before and after the self-call
            let me = p.funcs.len();
            let mut inner = vec![dec(n)];
            let nb = rng.below(3);
            for _ in 0..nb {
                inner.push(call(leaf(&mut rng)));
            }
            inner.push(call(me));
            let na = rng.range(1, 2);
            let mut body = vec![Stmt::If(lv(n), Box::new(Stmt::Block(inner)), None)];
            for _ in 0..na {
                body.push(call(leaf(&mut rng)));
            }
            p.funcs.push(func("down", body));
            if shape == 1 {
                // only an interrupt handler reaches the cycle
                let mut h = func("nmi", vec![call(me)]);
                h.interrupt = true;
                p.funcs.push(h);
                p.funcs.push(func("main", vec![inc(m)]));
            } else {
                if idx % 8 == 0 {
                    // two interrupt handlers, each the only caller of a function of its own
                    let cf = p.funcs.len();
                    p.funcs.push(func("count_frame", vec![inc(r)]));
                    p.funcs.push(func("count_tick", vec![inc(m)]));
                    let mut h1 = func("nmi", vec![call(cf)]);
                    h1.interrupt = true;
                    p.funcs.push(h1);
                    let mut h2 = func("irq", vec![call(cf + 1)]);
                    h2.interrupt = true;
                    p.funcs.push(h2);
                }
                p.funcs.push(func("main", vec![call(me), inc(m)]));
            }
        }
        _ => {
            // mutual recursion through a prototype: ping <-> pong
            let ping = p.funcs.len();
            let pong = ping + 1;
            let mut fping = func("ping", vec![Stmt::If(lv(n), Box::new(Stmt::Block(vec![dec(n), call(pong)])), None), call(leaf(&mut rng))]);
            let mut fpong = func("pong", vec![call(leaf(&mut rng)), Stmt::If(lv(n), Box::new(Stmt::Block(vec![dec(n), call(ping)])), None), call(leaf(&mut rng))]);
            fpong.proto_first = true;
            fping.proto_first = shape == 3;
            p.funcs.push(fping);
            p.funcs.push(fpong);
            p.funcs.push(func("main", vec![call(if rng.chance(1, 2) { ping } else { pong }), inc(m)]));
        }
    }
    // further functions are defined right before main, which calls into them
    let mut extra: Vec<Func> = Vec::new();
    let at = p.funcs.len() - 1;
    let mut main_calls: Vec<usize> = Vec::new();
    match idx % 4 {
        1 => {
            // functions in another bank: called from bank 0 through a Call<name> stub
            extra.push(func("bk1_far2", vec![inc(m)]));
            extra.push(func("bk1_far", vec![inc(r), call(at)])); // same-bank call inside bank 1
            main_calls.push(at + 1);
        }
        2 => {
            // a call in the update clause of a for loop; an inline function with a callee,
            // expanded in two functions of which the first is unreachable
            extra.push(func("nxt", vec![inc(r)])); // at
            extra.push(func("beep", vec![inc(r)])); // at + 1
            let mut fl = func("lose_life", vec![call(at + 1)]); // at + 2
            fl.inline = true;
            extra.push(fl);
            extra.push(func("debug_kill", vec![call(at + 2)])); // at + 3: nothing calls it
            let upd = Expr::Comma(Box::new(Expr::Call(at, vec![])), Box::new(Expr::IncDec { lv: LV::Var(m), post: true, inc: true }));
            let lp = Stmt::For(
                Some(Expr::Assign(LV::Var(m), Box::new(Expr::Num(0)))),
                Some(Expr::Bin(BinOp::Ne, Box::new(lv(m)), Box::new(Expr::Num(2)))),
                Some(upd),
                Box::new(Stmt::Block(vec![inc(r)])),
            );
            extra.push(func("user", vec![lp, call(at + 2)])); // at + 4
            main_calls.push(at + 4);
        }
        _ => {}
    }
    let n_extra = extra.len();
    if n_extra > 0 {
        let mut main = p.funcs.pop().unwrap();
        p.funcs.extend(extra);
        for c in main_calls {
            main.body.push(call(c));
        }
        p.funcs.push(main);
    }
    p
}

pub fn cfg_c12() -> GenCfg {
    GenCfg { max_funcs: 7, calls_everywhere: true, interrupt_handler: true, prototypes: true, stmts: (2, 6), ..GenCfg::default() }
}

fn calls_in_expr(e: &Expr, out: &mut BTreeSet<usize>, pos: &str, kinds: &mut BTreeSet<String>) {
    match e {
        Expr::Call(f, args) => {
            out.insert(*f);
            kinds.insert(format!("call in {}", pos));
            for a in args {
                calls_in_expr(a, out, "an argument", kinds);
            }
        }
        Expr::Un(_, a) | Expr::Paren(a) => calls_in_expr(a, out, pos, kinds),
        Expr::Bin(_, a, b) | Expr::Comma(a, b) => {
            calls_in_expr(a, out, pos, kinds);
            calls_in_expr(b, out, pos, kinds);
        }
        Expr::Cond(a, b, c) => {
            calls_in_expr(a, out, "a ?: condition", kinds);
            calls_in_expr(b, out, "a ?: arm", kinds);
            calls_in_expr(c, out, "a ?: arm", kinds);
        }
        Expr::Assign(l, r) | Expr::OpAssign(_, l, r) => {
            if let LV::Idx(_, i) | LV::PtrIdx(_, i) = l {
                calls_in_expr(i, out, "a subscript", kinds);
            }
            calls_in_expr(r, out, pos, kinds);
        }
        Expr::Lv(LV::Idx(_, i)) | Expr::Lv(LV::PtrIdx(_, i)) => calls_in_expr(i, out, "a subscript", kinds),
        _ => {}
    }
}

fn calls_in_stmt(s: &Stmt, out: &mut BTreeSet<usize>, kinds: &mut BTreeSet<String>) {
    match s {
        Stmt::Expr(e) => calls_in_expr(e, out, "a statement", kinds),
        Stmt::If(c, t, e) => {
            calls_in_expr(c, out, "an if condition", kinds);
            calls_in_stmt(t, out, kinds);
            if let Some(e) = e {
                calls_in_stmt(e, out, kinds);
            }
        }
        Stmt::While(c, b) | Stmt::DoWhile(b, c) => {
            calls_in_expr(c, out, "a loop condition", kinds);
            calls_in_stmt(b, out, kinds);
        }
        Stmt::For(a, b, c, d) => {
            for e in [a, b, c].iter().copied().flatten() {
                calls_in_expr(e, out, "a for header", kinds);
            }
            calls_in_stmt(d, out, kinds);
        }
        Stmt::Switch(e, cases, d) => {
            calls_in_expr(e, out, "a switch selector", kinds);
            for c in cases {
                for s in &c.1 {
                    calls_in_stmt(s, out, kinds);
                }
            }
            if let Some(d) = d {
                for s in d {
                    calls_in_stmt(s, out, kinds);
                }
            }
        }
        Stmt::Return(Some(e)) => calls_in_expr(e, out, "a return value", kinds),
        Stmt::Block(v) => {
            for s in v {
                calls_in_stmt(s, out, kinds);
            }
        }
        Stmt::Decl(_, Some(e)) => calls_in_expr(e, out, "an initialiser", kinds),
        Stmt::Labeled(_, s) => calls_in_stmt(s, out, kinds),
        Stmt::Load(e) => calls_in_expr(e, out, "a statement", kinds),
        _ => {}
    }
}

fn judge(kind: &str, idx: u64, p: &Program, tag: &str) -> CaseResult {
    let src = print_program(p);
    let mut res = CaseResult::new("", crate::util::hash_str(&src));
    let out = compile_src(&src, &Opts::o(1));
    let obs = match &out {
        Outcome::Ok(o) => o,
        other => {
            res.class = outcome_class(other);
            return res;
        }
    };
    res.nontrivial = true;
    let sig = format!("C12:{}:{}", kind, idx);
    let viol = |res: &mut CaseResult, why: String| {
        res.class = "call tree / in-use set incomplete".into();
        res.violate(
            &sig,
            &format!("C12: {}\n--- source\n{}\ncall tree: {:?}\nin use: {:?}", why, src, obs.call_tree, obs.in_use),
            json!({"kind": kind, "idx": idx, "why": why, "source": src, "call_tree": obs.call_tree, "in_use": obs.in_use, "listing": listing(obs)}),
        );
    };
    // (a) static: AST callees == call tree entry, as sets
    let mut kinds = BTreeSet::new();
    let mut max_depth = 0usize;
    let name_of = |i: usize| p.funcs[i].name.clone();
    let mut ast_tree: BTreeMap<String, BTreeSet<String>> = BTreeMap::new();
    for f in &p.funcs {
        let mut callees = BTreeSet::new();
        for s in &f.body {
            calls_in_stmt(s, &mut callees, &mut kinds);
        }
        let names: BTreeSet<String> = callees.iter().map(|c| name_of(*c)).collect();
        let published: BTreeSet<String> = obs.call_tree.get(&f.name).map(|v| v.iter().cloned().collect()).unwrap_or_default();
        res.count("comparisons", 1);
        res.count("functions whose callee set was compared", 1);
        res.count("edges checked (static)", names.len() as u64);
        // the tree may omit calls the compiler never emitted (an arm of a constant-folded
        // condition): it must not invent callees, and what it omits must be absent from the text
        if !published.is_subset(&names) {
            viol(&mut res, format!("function {}: functions_call_tree lists {:?} but the source only calls {:?}", f.name, published, names));
            return res;
        }
        if let Some(of) = obs.funcs.iter().find(|x| x.name == f.name) {
            if let Some(t) = &of.text {
                for m in names.difference(&published) {
                    if t.lines().any(|l| l.trim() == format!("JSR {}", m) || l.trim() == format!("JSR Call{}", m)) {
                        viol(&mut res, format!("function {}: emitted code contains 'JSR {}' but functions_call_tree[{}] = {:?} does not record it", f.name, m, f.name, published));
                        return res;
                    }
                    res.count("source calls absent from tree and from the emitted code (folded away)", 1);
                }
                // one .endofinlineN label per inline expansion compiled directly into this function
                let expansions = t.lines().filter(|l| l.starts_with(".endofinline") && l[12..].chars().all(|c| c.is_ascii_digit())).count();
                let recorded = obs.call_tree.get(&f.name).map(|v| v.iter().filter(|c| p.funcs.iter().any(|x| &x.name == *c && x.inline)).count()).unwrap_or(0);
                res.count("inline expansions checked against recorded inline calls", expansions as u64);
                if expansions != recorded {
                    viol(&mut res, format!("function {}: {} inline expansions in the emitted code but {} inline calls recorded in functions_call_tree", f.name, expansions, recorded));
                    return res;
                }
            }
        }
        ast_tree.insert(f.name.clone(), published.clone());
    }
    for k in &kinds {
        res.set("call-site positions", k);
    }
    // JSR targets in the emitted text within the inline-closed tree
    let inline_names: BTreeSet<String> = obs.funcs.iter().filter(|f| f.inline).map(|f| f.name.clone()).collect();
    let closed = |f: &str| -> BTreeSet<String> {
        let mut seen = BTreeSet::new();
        let mut stack = vec![f.to_string()];
        let mut outset = BTreeSet::new();
        while let Some(x) = stack.pop() {
            if !seen.insert(x.clone()) {
                continue;
            }
            if let Some(cs) = obs.call_tree.get(&x) {
                for c in cs {
                    outset.insert(c.clone());
                    if inline_names.contains(c) {
                        stack.push(c.clone());
                    }
                }
            }
        }
        outset
    };
    for f in &obs.funcs {
        if let Some(t) = &f.text {
            let allowed = closed(&f.name);
            for l in t.lines() {
                let l = l.trim();
                if let Some(target) = l.strip_prefix("JSR ") {
                    let target = target.split_whitespace().next().unwrap_or("");
                    // a call into another bank goes through the stub Call<name> the builder provides
                    let target = match target.strip_prefix("Call") {
                        Some(t) if obs.funcs.iter().any(|x| x.name == t) => t,
                        _ => target,
                    };
                    res.count("JSR instructions checked against the tree", 1);
                    if !allowed.contains(target) {
                        viol(&mut res, format!("emitted code of {} contains 'JSR {}' but the call tree (closed over inline callees) only allows {:?}", f.name, target, allowed));
                        return res;
                    }
                }
            }
        }
    }
    // (b) closure: reachability from main and interrupt handlers
    let mut reach = BTreeSet::new();
    let mut stack: Vec<String> = vec!["main".into()];
    for f in &p.funcs {
        if f.interrupt {
            stack.push(f.name.clone());
        }
    }
    while let Some(x) = stack.pop() {
        if !reach.insert(x.clone()) {
            continue;
        }
        if let Some(cs) = ast_tree.get(&x) {
            for c in cs {
                stack.push(c.clone());
            }
        }
    }
    res.count("comparisons", 1);
    if reach != obs.in_use {
        viol(&mut res, format!("reachable from main and interrupt handlers: {:?}; functions_actually_in_use: {:?}", reach, obs.in_use));
        return res;
    }
    res.count("unused functions present", (p.funcs.len() - reach.len()) as u64);
    if p.funcs.iter().any(|f| f.interrupt) {
        res.count("programs with an interrupt handler", 1);
    }
    if p.funcs.iter().any(|f| f.proto_first) {
        res.count("programs with prototypes", 1);
    }
    // depth of the call DAG
    fn depth(f: &str, t: &BTreeMap<String, BTreeSet<String>>, d: usize) -> usize {
        if d > 12 {
            return d;
        }
        t.get(f).map(|cs| cs.iter().map(|c| depth(c, t, d + 1)).max().unwrap_or(d)).unwrap_or(d)
    }
    max_depth = max_depth.max(depth("main", &ast_tree, 0));
    res.set("call depth reached", &format!("{}", max_depth));
    let nested_arg_calls = kinds.contains("call in an argument");
    // (c) dynamic JSR trace and (d) overlay co-execution
    let b_plain = match build_image(obs, false) {
        Ok(b) if b.asm.errors.is_empty() => b,
        _ => {
            res.class = "static checks held; image not executable (size / assembly)".into();
            return res;
        }
    };
    let b_over = build_image(obs, true).ok().filter(|b| b.asm.errors.is_empty());
    let ranges: Vec<(String, u16, u16)> = b_plain.asm.func_ranges.iter().map(|r| (r.0.clone(), r.1, r.2)).collect();
    let func_at = |pc: u16| ranges.iter().find(|r| pc >= r.1 && pc < r.2).map(|r| r.0.clone());
    for k in 0..3u64 {
        let input = gen_input(p, tag, idx, k);
        let r0 = run_compiled(p, &b_plain, &input, 400_000, &|m| m.log_calls = true);
        for ev in r0.machine.calls.iter().filter(|c| !c.is_return) {
            let caller = func_at(ev.from_pc);
            let callee = func_at(ev.target);
            res.count("JSR events observed on the emulator", 1);
            if let (Some(cr), Some(ce)) = (&caller, &callee) {
                if !closed(cr).contains(ce) {
                    viol(&mut res, format!("executed JSR from {} into {} is not an edge of the published (inline-closed) call tree", cr, ce));
                    return res;
                }
                if !obs.in_use.contains(ce) {
                    viol(&mut res, format!("function {} was entered at run time but is not in functions_actually_in_use", ce));
                    return res;
                }
            }
        }
        // overlay co-execution only from inputs on which the program stays inside its arrays
        // (an out-of-range read sees whatever the layout puts there)
        if reference_defined(p, &input, 20_000).is_err() {
            res.count("vectors not co-executed: reference leaves the defined domain", 1);
            continue;
        }
        if nested_arg_calls {
            // a call inside another call's argument list runs while the outer callee's parameter
            // cells are already loaded: that liveness is not what the tree describes (C01 records
            // the related finding); the overlay reliance is only tested without it
            res.count("overlay co-execution skipped: calls nested in argument lists", 1);
            continue;
        }
        if let Some(bo) = &b_over {
            let r1 = run_compiled(p, bo, &input, 400_000, &|_m| {});
            res.count("comparisons", 1);
            res.count("overlay co-executions", 1);
            let why = match (&r0.stop, &r1.stop) {
                (Stop::Halt, Stop::Halt) => diff_states(p, &r0.state, &r1.state, true).map(|d| format!("final state differs: {}", d)),
                (a, b) if std::mem::discriminant(a) == std::mem::discriminant(b) => None,
                (a, b) => Some(format!("disjoint locals: {} / overlaid locals: {}", stop_str(a), stop_str(b))),
            };
            if let Some(w) = why {
                viol(&mut res, format!("locals overlaid by call-tree level (as the builder does) change the behaviour on input #{}: {}", k, w));
                return res;
            }
        }
    }
    res.class = "call tree, in-use set, executed JSRs and overlay co-execution all consistent".into();
    if idx % 499 == 0 {
        res.sample = Some(json!({"kind": kind, "idx": idx, "source": src, "call_tree": obs.call_tree, "in_use": obs.in_use}));
    }
    res
}

impl Monitor for C12 {
    fn id(&self) -> &'static str {
        "C12"
    }
    fn level(&self) -> &'static str {
        "exploration"
    }
    fn rule(&self) -> String {
        "programs with up to 7 functions forming call DAGs (calls in statements, conditions, loop headers, switch selectors, ?:, arguments, \
         subscripts, return values, initialisers; inline functions calling further functions; prototypes; functions that nothing calls and chains of \
         them; interrupt handlers) plus the label-stress profile. Observers: (a) callee set of every function in the source AST = \
         functions_call_tree[f]; every JSR in write_function(f) targets a member of the tree closed over inline callees; (b) reachability from main \
         and interrupt handlers computed on the AST = functions_actually_in_use; (c) every JSR executed on the emulator is an edge of the closed \
         tree and enters an in-use function; (d) the image with locals overlaid by call-tree level (replica of tests/build.rs) ends in the same state \
         as the image with disjoint locals. Recursive kind: recursion, mutual recursion, interrupt-only cycles, two interrupt handlers with callees of their own, prototype-only callees, callees in another bank, calls in for-update clauses. non-trivial = accepted and compared"
            .into()
    }
    fn assumptions(&self) -> Vec<String> {
        vec!["semantics of the programs are not judged here (C01 does that): calls appear in positions whose evaluation order C leaves open".into()]
    }
    fn plan(&self, tier: &Tier, seed: u64) -> Vec<Chunk> {
        let (ng, ns) = match tier {
            Tier::Quick => (60_000, 20_000),
            Tier::Thorough => (300_000, 100_000),
        };
        let mut v = split_chunks("graph", seed_offset(seed, "C12g", 300_000), ng, 300_000, 200);
        v.extend(split_chunks("recursive", seed_offset(seed, "C12r", 2_000), 400, 2_000, 50));
        v.extend(split_chunks("stress", seed_offset(seed, "C12s", 100_000), ns, 100_000, 100));
        v
    }
    fn run_case(&self, kind: &str, idx: u64) -> CaseResult {
        if kind == "recursive" {
            let mut r = judge(kind, idx, &recursive_program(idx), "C12r");
            if r.nontrivial {
                r.count("programs with a call-graph cycle", 1);
            }
            return r;
        }
        if kind == "stress" {
            judge(kind, idx, &stress_program(idx, &crate::mon_c01::cfg_c01()), "C12s")
        } else {
            judge(kind, idx, &gen_program("C12", idx, &cfg_c12()), "C12g")
        }
    }
    fn thresholds(&self, _tier: &Tier) -> Vec<(String, u64)> {
        vec![
            ("distinct_nontrivial".into(), 3000),
            ("set:call-site positions".into(), 8),
            ("JSR events observed on the emulator".into(), 5000),
            ("overlay co-executions".into(), 3000),
            ("unused functions present".into(), 500),
            ("programs with an interrupt handler".into(), 300),
            ("programs with prototypes".into(), 300),
            ("set:call depth reached".into(), 4),
            ("programs with a call-graph cycle".into(), 200),
        ]
    }
}
