// Small helpers: deterministic PRNG, hashing, string helpers.

#[derive(Clone)]
pub struct Rng(pub u64);

impl Rng {
    pub fn new(seed: u64) -> Rng {
        let mut r = Rng(seed ^ 0x9E37_79B9_7F4A_7C15);
        r.next();
        r.next();
        r
    }
    /// Independent stream for (generator tag, index)
    pub fn for_case(tag: &str, index: u64) -> Rng {
        let mut h = fnv(tag.as_bytes());
        h ^= index.wrapping_mul(0xD6E8_FEB8_6659_FD93);
        Rng::new(h)
    }
    pub fn next(&mut self) -> u64 {
        // splitmix64
        self.0 = self.0.wrapping_add(0x9E37_79B9_7F4A_7C15);
        let mut z = self.0;
        z = (z ^ (z >> 30)).wrapping_mul(0xBF58_476D_1CE4_E5B9);
        z = (z ^ (z >> 27)).wrapping_mul(0x94D0_49BB_1331_11EB);
        z ^ (z >> 31)
    }
    pub fn below(&mut self, n: u64) -> u64 {
        if n == 0 {
            0
        } else {
            self.next() % n
        }
    }
    pub fn range(&mut self, lo: i64, hi: i64) -> i64 {
        // inclusive
        lo + self.below((hi - lo + 1) as u64) as i64
    }
    pub fn chance(&mut self, num: u64, den: u64) -> bool {
        self.below(den) < num
    }
    pub fn pick<'a, T>(&mut self, v: &'a [T]) -> &'a T {
        &v[self.below(v.len() as u64) as usize]
    }
    pub fn byte(&mut self) -> u8 {
        (self.next() >> 24) as u8
    }
    /// a byte biased towards boundary values
    pub fn bbyte(&mut self) -> u8 {
        const B: [u8; 12] = [0, 1, 2, 3, 0x7e, 0x7f, 0x80, 0x81, 0xfe, 0xff, 0x10, 0x40];
        if self.chance(1, 2) {
            *self.pick(&B)
        } else {
            self.byte()
        }
    }
}

pub fn fnv(b: &[u8]) -> u64 {
    let mut h: u64 = 0xcbf29ce484222325;
    for x in b {
        h ^= *x as u64;
        h = h.wrapping_mul(0x100000001b3);
    }
    h
}

pub fn hash_str(s: &str) -> u64 {
    fnv(s.as_bytes())
}

pub fn now_s() -> f64 {
    use std::time::{SystemTime, UNIX_EPOCH};
    SystemTime::now().duration_since(UNIX_EPOCH).unwrap().as_secs_f64()
}

pub fn trunc(s: &str, n: usize) -> String {
    if s.len() <= n {
        s.to_string()
    } else {
        let mut e = n;
        while !s.is_char_boundary(e) {
            e -= 1;
        }
        format!("{}…", &s[..e])
    }
}
