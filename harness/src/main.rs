mod asm6502;
mod bait;
mod cgen;
mod cmodel;
mod common;
mod corpus;
mod driver;
mod emu6502;
mod exec;
mod framework;
mod layout;
mod matrix;
mod mon_c01;
mod mon_c02;
mod mon_c03;
mod mon_c05;
mod mon_c06;
mod mon_c07;
mod mon_c08;
mod mon_c09;
mod mon_c10;
mod mon_c11;
mod mon_c12;
mod mon_c14;
mod mon_c15;
mod mon_c16;
mod mon_c17;
mod mon_c18;
mod mon_struct;
mod pins;
mod reduce;
mod util;

use driver::*;
use framework::*;
use std::io::Write;

fn monitor(id: &str) -> Option<Box<dyn Monitor>> {
    match id {
        "C01" => Some(Box::new(mon_c01::C01)),
        "C02" => Some(Box::new(mon_c02::C02)),
        "C03" => Some(Box::new(mon_c03::C03)),
        "C04" => Some(Box::new(mon_struct::C04)),
        "C05" => Some(Box::new(mon_c05::C05)),
        "C06" => Some(Box::new(mon_c06::C06)),
        "C07" => Some(Box::new(mon_c07::C07)),
        "C08" => Some(Box::new(mon_c08::C08)),
        "C09" => Some(Box::new(mon_c09::C09)),
        "C10" => Some(Box::new(mon_c10::C10)),
        "C11" => Some(Box::new(mon_c11::C11)),
        "C12" => Some(Box::new(mon_c12::C12)),
        "C13" => Some(Box::new(mon_struct::C13)),
        "C14" => Some(Box::new(mon_c14::C14)),
        "C16" => Some(Box::new(mon_c16::C16)),
        "C17" => Some(Box::new(mon_c17::C17)),
        "C15" => Some(Box::new(mon_c15::C15)),
        "C18" => Some(Box::new(mon_c18::C18)),
        _ => None,
    }
}

fn main() {
    let args: Vec<String> = std::env::args().collect();
    if args.len() < 2 {
        eprintln!("usage: vmon <check|worker|cases|run-src|gen> ...");
        std::process::exit(2);
    }
    match args[1].as_str() {
        "c05-child" => {
            mon_c05::child_main(&args[2..]);
        }
        "worker" => {
            install_panic_hook();
            let mut out = silence_stdio();
            let mon = monitor(&args[2]).expect("unknown property");
            worker_main(mon.as_ref(), &mut out);
        }
        "check" => {
            // vmon check <ID> <quick|thorough>
            let mon = match monitor(&args[2]) {
                Some(m) => m,
                None => {
                    println!("INCONCLUSIVE property={} reason=no monitor registered", args[2]);
                    std::process::exit(2);
                }
            };
            let tier = if args.get(3).map(|s| s.as_str()) == Some("thorough") { Tier::Thorough } else { Tier::Quick };
            let seed: u64 = std::env::var("VERIF_SEED").ok().and_then(|s| s.parse().ok()).unwrap_or(0);
            let mut so = std::io::stdout();
            let code = run_check(mon.as_ref(), tier, seed, &mut so);
            let _ = so.flush();
            std::process::exit(code);
        }
        "cases" => {
            // development: vmon cases <ID> <kind> <start> <count>  -> run and print every violation in full
            let mon = monitor(&args[2]).expect("unknown property");
            let kind = args[3].clone();
            let start: u64 = args[4].parse().unwrap();
            let count: u64 = args[5].parse().unwrap();
            let show: usize = args.get(6).and_then(|s| s.parse().ok()).unwrap_or(10);
            let chunks = split_chunks(&kind, start, count, u64::MAX / 2, 100);
            let ro = run_pool(mon.as_ref(), chunks, 16);
            println!("{} cases in {:.1}s", ro.agg.evaluations, ro.wall_s);
            let mut cl: Vec<_> = ro.agg.classes.iter().collect();
            cl.sort_by(|a, b| b.1.cmp(a.1));
            for (c, n) in cl {
                println!("{:8} {}", n, c);
            }
            for (c, n) in &ro.agg.counters {
                println!("  counter {:40} {}", c, n);
            }
            if let Some(c) = ro.agg.sets.get("crashed cases") {
                println!("crashed cases: {:?}", c.iter().take(10).collect::<Vec<_>>());
            }
            println!("violations: {}", ro.agg.violations.len());
            for v in ro.agg.violations.iter().take(show) {
                println!("=========== {}\n{}\n{}", v.signature, v.summary, v.replay["listing"].as_str().unwrap_or(""));
                println!("input: {}\nexpected: {}\nobserved: {}", v.replay["input"], v.replay["expected"], v.replay["observed"]);
            }
            for e in ro.harness_errors {
                println!("HARNESS ERROR {}", e);
            }
        }
        "reduce" => {
            // development: vmon reduce <tag> <idx> : shrink a violating random program
            install_panic_hook();
            let _keep = silence_stdio();
            let idx: u64 = args[3].parse().unwrap();
            let cfg = mon_c01::cfg_c01();
            let p = if corpus::KINDS.contains(&args[2].as_str()) {
                let (mut p, _) = corpus::corpus_program(&args[2], idx);
                for v in p.vars.iter_mut() {
                    v.mem = cmodel::MemClass::Zp;
                }
                p
            } else if args[2] == "C18" {
                cgen::gen_program("C18", idx, &mon_c18::cfg_c18())
            } else {
                cgen::gen_program(&args[2], idx, &cfg)
            };
            let tag = args[2].clone();
            let lv: u8 = std::env::var("REDUCE_LEVEL").ok().and_then(|s| s.parse().ok()).unwrap_or(0);
            let bad = |q: &cmodel::Program| -> bool {
                let r = mon_c01::judge_program("C01", "rand", idx, q, &tag, &[lv], None);
                !r.violations.is_empty()
            };
            let mut out = _keep;
            if !bad(&p) {
                let _ = writeln!(out, "// {} {}: not violating at -O0", tag, idx);
                return;
            }
            let q = reduce::reduce(&p, &bad, 400);
            let r = mon_c01::judge_program("C01", "rand", idx, &q, &tag, &[lv], None);
            let v = &r.violations[0];
            let _ = writeln!(out, "// ===== {} {}\n{}// input: {}\n// expected: {}\n// observed: {}\n{}", tag, idx, cmodel::print_program(&q), v.replay["input"], v.replay["expected"], v.replay["observed"], v.replay["listing"].as_str().unwrap_or("").lines().map(|l| format!("//   {}", l)).collect::<Vec<_>>().join("\n"));
        }
        "reduce-rej" => {
            // development: vmon reduce-rej <tag> <idx> <substring> : shrink a program the compiler refuses with that message
            install_panic_hook();
            let _keep = silence_stdio();
            let idx: u64 = args[3].parse().unwrap();
            let p = cgen::gen_program(&args[2], idx, &mon_c01::cfg_c01());
            let want = args[4].clone();
            let bad = |q: &cmodel::Program| -> bool {
                match driver::compile_src(&cmodel::print_program(q), &driver::Opts::o(0)) {
                    driver::Outcome::Ok(_) => false,
                    o => o.short().contains(&want),
                }
            };
            let mut out = _keep;
            if !bad(&p) {
                let _ = writeln!(out, "// not rejected with that message");
                return;
            }
            let q = reduce::reduce(&p, &bad, 400);
            let _ = writeln!(out, "{}", cmodel::print_program(&q));
        }
        "replay" => {
            // vmon replay <ID> <file> : re-run the case a replay file records; exit 1 if it still violates
            let mon = monitor(&args[2]).expect("unknown property");
            let text = std::fs::read_to_string(&args[3]).expect("replay file");
            let v: serde_json::Value = serde_json::from_str(&text).expect("replay json");
            let (kind, idx) = match (v["case_kind"].as_str(), v["case_idx"].as_u64()) {
                (Some(k), Some(i)) => (k.to_string(), i),
                _ => {
                    println!("INCONCLUSIVE property={} reason=replay file has no case coordinates", args[2]);
                    std::process::exit(2);
                }
            };
            install_panic_hook();
            let r = mon.run_case(&kind, idx);
            println!("replay of {} case {}:{} -> {}", args[2], kind, idx, r.class);
            let known = framework::load_known();
            let mut rc = 0;
            for w in &r.violations {
                if known.iter().any(|k| k.property == args[2] && k.status == "known" && k.signature == w.signature) {
                    println!("KNOWN-FINDING: property={} {}", args[2], w.signature);
                    continue;
                }
                println!("VIOLATION property={} replay={}\n{}", args[2], args[3], w.summary);
                rc = 1;
            }
            if rc == 0 {
                println!("no violation on the current tree");
            }
            std::process::exit(rc);
        }
        "reduce17" => {
            // development: vmon reduce17 <kind> <idx> [zp]: shrink a C17 violation (zp: all variables in zero page)
            install_panic_hook();
            let _keep = silence_stdio();
            let idx: u64 = args[3].parse().unwrap();
            let (mut p, defs, tag) = mon_c17::case_program(&args[2], idx);
            let zp = args.len() > 4;
            let kind = args[2].clone();
            let bad = |q: &cmodel::Program| -> bool {
                if zp {
                    let mut q2 = q.clone();
                    for v in q2.vars.iter_mut() {
                        v.mem = cmodel::MemClass::Zp;
                    }
                    !mon_c01::judge_program("C01", "rand", idx, &q2, tag, &[0, 1], None).violations.is_empty()
                } else {
                    !mon_c17::judge(&kind, idx, q, &defs, tag).violations.is_empty()
                }
            };
            let mut out = _keep;
            if !bad(&p) {
                let _ = writeln!(out, "// not violating");
                return;
            }
            p = reduce::reduce(&p, &bad, 600);
            let r = mon_c17::judge(&kind, idx, &p, &defs, tag);
            let _ = writeln!(out, "{}", cmodel::print_program(&p));
            for v in &r.violations {
                let _ = writeln!(out, "// {}\n// input {}\n{}", v.summary.lines().next().unwrap_or(""), v.replay["input"], v.replay["listing"].as_str().unwrap_or(""));
            }
        }
        "c05-diff" => {
            // development: vmon c05-diff <idx> : compile the bait on fresh threads until the output differs; print the differing lines
            let idx: u64 = args[2].parse().unwrap();
            let src = mon_c05::det_source(idx);
            let _keep = silence_stdio();
            let mut out = _keep;
            let first = driver::compile_raw(src.as_bytes(), &driver::Opts::o(1)).1;
            for _ in 0..64 {
                let s2 = src.clone();
                let other = std::thread::spawn(move || driver::compile_raw(s2.as_bytes(), &driver::Opts::o(1)).1).join().unwrap();
                if other != first {
                    let a = String::from_utf8_lossy(&first).to_string();
                    let b = String::from_utf8_lossy(&other).to_string();
                    let _ = std::fs::write("/tmp/c05a.json", &a);
                    let _ = std::fs::write("/tmp/c05b.json", &b);
                    let mut n = 0;
                    for (x, y) in a.lines().zip(b.lines()) {
                        if x != y {
                            let _ = writeln!(out, "< {}\n> {}", x.chars().take(300).collect::<String>(), y.chars().take(300).collect::<String>());
                            n += 1;
                            if n > 12 {
                                break;
                            }
                        }
                    }
                    return;
                }
            }
            let _ = writeln!(out, "no difference in 64 threads");
        }
        "one" => {
            // development: vmon one <ID> <kind> <idx> : run one case in this process, print everything
            let mon = monitor(&args[2]).expect("unknown property");
            let idx: u64 = args[4].parse().unwrap();
            let r = mon.run_case(&args[3], idx);
            println!("class: {}\nnontrivial: {}\ncounters: {:?}", r.class, r.nontrivial, r.counters);
            if let Some(sm) = &r.sample {
                println!("sample: {}", serde_json::to_string_pretty(sm).unwrap());
            }
            for v in &r.violations {
                println!("VIOLATION {}\n{}\n{}", v.signature, v.summary, serde_json::to_string_pretty(&v.replay).unwrap());
            }
        }
        "reduce14" => {
            // development: shrink a C14 violation (stress profile)
            install_panic_hook();
            let _keep = silence_stdio();
            let idx: u64 = args[3].parse().unwrap();
            let cfg = mon_c01::cfg_c01();
            let p = if args[2] == "stress" { cgen::stress_program(idx, &cfg) } else { cgen::gen_program("C01", idx, &cfg) };
            let tag = if args[2] == "stress" { "C14s" } else { "C14r" };
            let bad = |q: &cmodel::Program| -> bool { !mon_c14::judge_pub("stress", idx, q, tag).violations.is_empty() };
            let mut out = _keep;
            if !bad(&p) {
                let _ = writeln!(out, "// not violating");
                return;
            }
            let q = reduce::reduce(&p, &bad, 400);
            let r = mon_c14::judge_pub("stress", idx, &q, tag);
            let v = &r.violations[0];
            let _ = writeln!(out, "// {}\n{}\n{}", v.summary.lines().next().unwrap_or(""), v.replay["source"].as_str().unwrap_or(""), v.replay["listing"].as_str().unwrap_or(""));
        }
        "gen" => {
            // vmon gen <tag> <idx> : print a generated program
            let idx: u64 = args[3].parse().unwrap();
            if corpus::KINDS.contains(&args[2].as_str()) {
                let (p, _) = corpus::corpus_program(&args[2], idx);
                print!("{}", cmodel::print_program(&p));
                return;
            }
            let p = cgen::gen_program(&args[2], idx, &mon_c01::cfg_c01());
            print!("{}", cmodel::print_program(&p));
        }
        "run-src" => {
            install_panic_hook();
            let src = std::fs::read_to_string(&args[2]).unwrap();
            let mut o = Opts::default();
            for a in &args[3..] {
                if let Some(l) = a.strip_prefix("-O") {
                    o.opt_level = l.parse().unwrap();
                } else if a == "--insert-code" {
                    o.insert_code = true;
                } else if let Some(d) = a.strip_prefix("-D") {
                    o.defines.push(d.to_string());
                } else if let Some(d) = a.strip_prefix("-I") {
                    o.include_dirs.push(d.to_string());
                }
            }
            let out = compile_src(&src, &o);
            match &out {
                Outcome::Ok(obs) => {
                    for f in &obs.funcs {
                        println!("== {} inline={} size={:?} opt={} fix={}", f.name, f.inline, f.size_bytes, f.nb_opt, f.nb_fix);
                        if let Some(t) = &f.text {
                            print!("{}", t);
                        }
                    }
                    println!("call_tree {:?}\nin_use {:?}", obs.call_tree, obs.in_use);
                    match layout::build_image(obs, false) {
                        Ok(b) => {
                            for e in &b.asm.errors {
                                println!("ASM ERROR {:?}", e);
                            }
                            let mut m = layout::new_machine(&b);
                            let stop = m.run(b.asm.entry_stub, 1_000_000);
                            println!("stop={:?} cycles={} A={:02x} X={:02x} Y={:02x}", stop, m.cycles, m.a, m.x, m.y);
                            for v in &b.layout.ram {
                                let bytes: Vec<String> = (0..v.len).map(|i| format!("{:02x}", layout::peek(&m, &b, v, i))).collect();
                                println!("  {:20} @{:04x} = {}", v.name, v.addr, bytes.join(" "));
                            }
                        }
                        Err(e) => println!("layout error {}", e),
                    }
                }
                o => println!("{}", o.short()),
            }
        }
        _ => {
            eprintln!("unknown command");
            std::process::exit(2);
        }
    }
}
