// Enumerated operator / operand / context matrix for C01 (filled in below).
use crate::cmodel::*;

pub fn matrix_len() -> u64 {
    0
}

pub fn matrix_program(_idx: u64) -> Program {
    Program::default()
}
