// Enumerated operator / operand-kind / destination / context matrix for C01 (also reused by
// C02, C04, C13 as a deterministic core).  Small single-purpose programs: what makes a flipped
// branch, a lost carry or a wrong operand order certain to show.  Shapes that belong to a
// known-finding family (see known_findings.json) are not enumerated here; they have pinned
// witnesses instead.

use crate::cmodel::*;
use std::sync::OnceLock;

pub struct B {
    pub p: Program,
}

// fixed variable ids
pub const A: VarId = 0; // unsigned char a
pub const BV: VarId = 1; // unsigned char b
pub const C: VarId = 2; // unsigned char c
pub const R: VarId = 3; // unsigned char r
pub const SA: VarId = 4; // signed char sa
pub const SB: VarId = 5; // signed char sb
pub const S: VarId = 6; // unsigned short s
pub const T: VarId = 7; // unsigned short t
pub const U: VarId = 8; // unsigned short u
pub const V: VarId = 9; // short v
pub const W: VarId = 10; // short w
pub const ARR: VarId = 11; // unsigned char arr[8]
pub const TAB: VarId = 12; // const unsigned char tab[8]
pub const P: VarId = 13; // char *p
pub const N: VarId = 14; // unsigned char n (loop counter)

pub fn base() -> Program {
    let mut p = Program::default();
    let g = |name: &str, kind: VarKind| VarDecl { name: name.into(), kind, mem: MemClass::Zp, scope: Scope::Global };
    p.vars.push(g("a", VarKind::Scalar(Ty::U8)));
    p.vars.push(g("b", VarKind::Scalar(Ty::U8)));
    p.vars.push(g("c", VarKind::Scalar(Ty::U8)));
    p.vars.push(g("r", VarKind::Scalar(Ty::U8)));
    p.vars.push(g("sa", VarKind::Scalar(Ty::I8)));
    p.vars.push(g("sb", VarKind::Scalar(Ty::I8)));
    p.vars.push(g("s", VarKind::Scalar(Ty::U16)));
    p.vars.push(g("t", VarKind::Scalar(Ty::U16)));
    p.vars.push(g("u", VarKind::Scalar(Ty::U16)));
    p.vars.push(g("v", VarKind::Scalar(Ty::I16)));
    p.vars.push(g("w", VarKind::Scalar(Ty::I16)));
    p.vars.push(g("arr", VarKind::Array(Ty::U8, 8)));
    p.vars.push(g("tab", VarKind::ConstTab(Ty::U8, vec![0, 1, 0x7f, 0x80, 0xff, 0x55, 0xaa, 3])));
    p.vars.push(g("p", VarKind::Ptr));
    p.vars.push(g("n", VarKind::Scalar(Ty::U8)));
    p
}

fn lvv(v: VarId) -> Expr {
    Expr::Lv(LV::Var(v))
}
fn num(n: i32) -> Expr {
    Expr::Num(n)
}
fn bin(op: BinOp, a: Expr, b: Expr) -> Expr {
    Expr::Bin(op, Box::new(a), Box::new(b))
}
fn assign(l: LV, e: Expr) -> Stmt {
    Stmt::Expr(Expr::Assign(l, Box::new(e)))
}
fn idx(a: VarId, e: Expr) -> LV {
    LV::Idx(a, Box::new(e))
}

fn main_with(body: Vec<Stmt>) -> Program {
    let mut p = base();
    let mut b = vec![assign(LV::Var(P), Expr::AddrOf(ARR))];
    b.extend(body);
    p.funcs.push(Func { name: "main".into(), ret: None, params: vec![], body: b, inline: false, interrupt: false, proto_first: false });
    p
}

/// 8-bit operand kinds: (setup statements, expression)
fn operands8() -> Vec<(&'static str, Vec<Stmt>, Expr)> {
    vec![
        ("const", vec![], num(0x35)),
        ("const-hi", vec![], num(0xc8)),
        ("const1", vec![], num(1)),
        ("u8", vec![], lvv(A)),
        ("u8b", vec![], lvv(BV)),
        ("X", vec![], Expr::Lv(LV::X)),
        ("Y", vec![], Expr::Lv(LV::Y)),
        ("arr[k]", vec![], Expr::Lv(idx(ARR, num(3)))),
        ("arr[X]", vec![assign(LV::X, num(2))], Expr::Lv(idx(ARR, Expr::Lv(LV::X)))),
        ("arr[Y]", vec![assign(LV::Y, num(5))], Expr::Lv(idx(ARR, Expr::Lv(LV::Y)))),
        ("tab[X]", vec![assign(LV::X, num(4))], Expr::Lv(idx(TAB, Expr::Lv(LV::X)))),
        ("tab[k]", vec![], Expr::Lv(idx(TAB, num(6)))),
        ("p[Y]", vec![assign(LV::Y, num(1))], Expr::Lv(LV::PtrIdx(P, Box::new(Expr::Lv(LV::Y))))),
        ("paren", vec![], Expr::Paren(Box::new(bin(BinOp::And, lvv(C), num(0x3c))))),
        ("sub-expr", vec![], bin(BinOp::Xor, lvv(C), lvv(BV))),
    ]
}

fn dests8() -> Vec<(&'static str, Vec<Stmt>, LV)> {
    vec![
        ("u8", vec![], LV::Var(R)),
        ("X", vec![], LV::X),
        ("Y", vec![], LV::Y),
        ("arr[k]", vec![], idx(ARR, num(1))),
        ("arr[X]", vec![assign(LV::X, num(6))], idx(ARR, Expr::Lv(LV::X))),
        ("arr[Y]", vec![assign(LV::Y, num(7))], idx(ARR, Expr::Lv(LV::Y))),
    ]
}

fn uses(e: &Expr, l: &LV) -> bool {
    // does expression e read register X / Y (as value or index)?
    fn lv_uses(x: &LV, l: &LV) -> bool {
        match x {
            LV::X => matches!(l, LV::X),
            LV::Y => matches!(l, LV::Y),
            LV::Idx(_, i) | LV::PtrIdx(_, i) => uses(i, l),
            _ => false,
        }
    }
    match e {
        Expr::Lv(x) => lv_uses(x, l),
        Expr::Bin(_, a, b) => uses(a, l) || uses(b, l),
        Expr::Un(_, a) | Expr::Paren(a) => uses(a, l),
        _ => false,
    }
}

fn conflicting(setups: &[&Vec<Stmt>], exprs: &[&Expr], dest: Option<&LV>) -> bool {
    // two different setups of the same register, or a destination register that a setup pins
    let mut xs = 0;
    let mut ys = 0;
    for s in setups {
        for st in s.iter() {
            if let Stmt::Expr(Expr::Assign(LV::X, _)) = st {
                xs += 1;
            }
            if let Stmt::Expr(Expr::Assign(LV::Y, _)) = st {
                ys += 1;
            }
        }
    }
    if xs > 1 || ys > 1 {
        return true;
    }
    if let Some(d) = dest {
        // destination X while an operand is indexed by X is fine; but the *index* of the
        // destination must not be clobbered: dest arr[X] with setup X=6 and operand setup X=2
        let _ = d;
    }
    let _ = exprs;
    false
}

fn build() -> Vec<Program> {
    let mut v: Vec<Program> = Vec::new();
    let ops = [BinOp::Add, BinOp::Sub, BinOp::And, BinOp::Or, BinOp::Xor];
    let o8 = operands8();
    let d8 = dests8();
    // 1. binary operators: dest = L op R
    for op in ops.iter() {
        for (ln, ls, le) in o8.iter() {
            for (rn, rs, re) in o8.iter() {
                if ln.starts_with("const") && rn.starts_with("const") {
                    continue; // constant folding is C10's
                }
                for (dn, ds, dl) in d8.iter() {
                    // keep the matrix affordable: full product on the plain destination, a
                    // diagonal on the others
                    if *dn != "u8" && !(ln == rn || *ln == "u8" || *rn == "const") {
                        continue;
                    }
                    if conflicting(&[ls, rs, ds], &[le, re], Some(dl)) {
                        continue;
                    }
                    // a destination indexed by Y (or p[Y]) together with a Y-scratch is not used here
                    let mut body = Vec::new();
                    body.extend(ls.clone());
                    body.extend(rs.clone());
                    body.extend(ds.clone());
                    body.push(assign(dl.clone(), bin(*op, le.clone(), re.clone())));
                    v.push(main_with(body));
                }
            }
        }
    }
    // 2. shifts and unary operators
    for (ln, ls, le) in o8.iter() {
        if ln.starts_with("const") {
            continue;
        }
        for k in 1..=7 {
            for op in [BinOp::Shl, BinOp::Shr] {
                let mut body = ls.clone();
                body.push(assign(LV::Var(R), bin(op, le.clone(), num(k))));
                v.push(main_with(body));
            }
        }
        for op in [UnOp::Neg, UnOp::BNot] {
            let mut body = ls.clone();
            body.push(assign(LV::Var(R), Expr::Un(op, Box::new(le.clone()))));
            v.push(main_with(body));
        }
        // !x as a value
        let mut body = ls.clone();
        body.push(assign(LV::Var(R), Expr::Un(UnOp::Not, Box::new(le.clone()))));
        v.push(main_with(body));
    }
    // 3. compound assignment and ++/--
    for (dn, ds, dl) in d8.iter() {
        for (rn, rs, re) in o8.iter() {
            if conflicting(&[rs, ds], &[re], Some(dl)) {
                continue;
            }
            if uses(re, dl) {
                continue;
            }
            for op in ops.iter() {
                let mut body = rs.clone();
                body.extend(ds.clone());
                body.push(Stmt::Expr(Expr::OpAssign(*op, dl.clone(), Box::new(re.clone()))));
                v.push(main_with(body));
            }
            let _ = (dn, rn);
        }
        for k in 1..=7 {
            for op in [BinOp::Shl, BinOp::Shr] {
                let mut body = ds.clone();
                body.push(Stmt::Expr(Expr::OpAssign(op, dl.clone(), Box::new(num(k)))));
                v.push(main_with(body));
            }
        }
        for post in [false, true] {
            for inc in [false, true] {
                let mut body = ds.clone();
                body.push(Stmt::Expr(Expr::IncDec { lv: dl.clone(), post, inc }));
                v.push(main_with(body));
                // value of the ++/-- expression
                if !matches!(dl, LV::Var(R)) {
                    let mut body = ds.clone();
                    body.push(assign(LV::Var(R), Expr::IncDec { lv: dl.clone(), post, inc }));
                    v.push(main_with(body));
                }
            }
        }
    }
    // 4. comparisons in every context (unsigned operands; constants are non-zero: see R3)
    let cmps = [BinOp::Eq, BinOp::Ne, BinOp::Lt, BinOp::Le, BinOp::Gt, BinOp::Ge];
    let cmp_l: Vec<(&str, Vec<Stmt>, Expr)> = o8.iter().filter(|o| !o.0.starts_with("const")).cloned().collect();
    let cmp_r: Vec<(&str, Vec<Stmt>, Expr)> = vec![
        ("const", vec![], num(0x35)),
        ("const80", vec![], num(0x80)),
        ("constff", vec![], num(0xff)),
        ("const1", vec![], num(1)),
        ("u8", vec![], lvv(BV)),
        ("arr[k]", vec![], Expr::Lv(idx(ARR, num(3)))),
        ("tab[k]", vec![], Expr::Lv(idx(TAB, num(3)))),
    ];
    for op in cmps.iter() {
        for (_ln, ls, le) in cmp_l.iter() {
            for (_rn, rs, re) in cmp_r.iter() {
                let cond = bin(*op, le.clone(), re.clone());
                let set1 = assign(LV::Var(R), num(1));
                let set2 = assign(LV::Var(R), num(2));
                // if
                let mut body = ls.clone();
                body.extend(rs.clone());
                body.push(assign(LV::Var(R), num(0)));
                body.push(Stmt::If(cond.clone(), Box::new(set1.clone()), None));
                v.push(main_with(body));
                // if / else
                let mut body = ls.clone();
                body.extend(rs.clone());
                body.push(Stmt::If(cond.clone(), Box::new(set1.clone()), Some(Box::new(set2.clone()))));
                v.push(main_with(body));
                // value
                let mut body = ls.clone();
                body.extend(rs.clone());
                body.push(assign(LV::Var(R), cond.clone()));
                v.push(main_with(body));
                // ternary
                let mut body = ls.clone();
                body.extend(rs.clone());
                body.push(assign(LV::Var(R), Expr::Cond(Box::new(cond.clone()), Box::new(num(7)), Box::new(lvv(C)))));
                v.push(main_with(body));
                // negated
                let mut body = ls.clone();
                body.extend(rs.clone());
                body.push(assign(LV::Var(R), num(0)));
                body.push(Stmt::If(Expr::Un(UnOp::Not, Box::new(Expr::Paren(Box::new(cond.clone())))), Box::new(set1.clone()), None));
                v.push(main_with(body));
                // && and || with a second comparison
                for lop in [BinOp::LAnd, BinOp::LOr] {
                    let c2 = bin(BinOp::Ne, lvv(C), num(9));
                    let mut body = ls.clone();
                    body.extend(rs.clone());
                    body.push(Stmt::If(bin(lop, cond.clone(), c2.clone()), Box::new(set1.clone()), Some(Box::new(set2.clone()))));
                    v.push(main_with(body));
                    let mut body = ls.clone();
                    body.extend(rs.clone());
                    body.push(Stmt::If(bin(lop, c2, cond.clone()), Box::new(set1.clone()), Some(Box::new(set2.clone()))));
                    v.push(main_with(body));
                }
            }
        }
    }
    // 5. loops driven by each comparison: n counts iterations
    for op in [BinOp::Lt, BinOp::Ne, BinOp::Le] {
        for limit in [1, 3, 5] {
            for cnt in [LV::Var(A), LV::X, LV::Y] {
                let c = Expr::Lv(cnt.clone());
                let cond = bin(op, c.clone(), num(limit));
                let inc = Expr::IncDec { lv: cnt.clone(), post: true, inc: true };
                let bump = Stmt::Expr(Expr::IncDec { lv: LV::Var(N), post: true, inc: true });
                // for
                v.push(main_with(vec![
                    assign(LV::Var(N), num(0)),
                    Stmt::For(Some(Expr::Assign(cnt.clone(), Box::new(num(0)))), Some(cond.clone()), Some(inc.clone()), Box::new(bump.clone())),
                ]));
                // while
                v.push(main_with(vec![
                    assign(LV::Var(N), num(0)),
                    assign(cnt.clone(), num(0)),
                    Stmt::While(cond.clone(), Box::new(Stmt::Block(vec![bump.clone(), Stmt::Expr(inc.clone())]))),
                ]));
                // do-while
                v.push(main_with(vec![
                    assign(LV::Var(N), num(0)),
                    assign(cnt.clone(), num(0)),
                    Stmt::DoWhile(Box::new(Stmt::Block(vec![bump.clone(), Stmt::Expr(inc.clone())])), cond.clone()),
                ]));
                // for with break / continue
                v.push(main_with(vec![
                    assign(LV::Var(N), num(0)),
                    Stmt::For(
                        Some(Expr::Assign(cnt.clone(), Box::new(num(0)))),
                        Some(cond.clone()),
                        Some(inc.clone()),
                        Box::new(Stmt::Block(vec![
                            Stmt::If(bin(BinOp::Eq, lvv(BV), num(2)), Box::new(Stmt::Continue), None),
                            bump.clone(),
                            Stmt::If(bin(BinOp::Eq, lvv(C), num(2)), Box::new(Stmt::Break), None),
                        ])),
                    ),
                ]));
            }
        }
    }
    // 6. switch
    for sel in [lvv(A), Expr::Lv(LV::X), Expr::Lv(LV::Y), Expr::Lv(idx(ARR, num(2)))] {
        for variant in 0..4 {
            let cases = match variant {
                0 => vec![(vec![1], vec![assign(LV::Var(R), num(10)), Stmt::Break]), (vec![2], vec![assign(LV::Var(R), num(20)), Stmt::Break])],
                1 => vec![(vec![1], vec![assign(LV::Var(R), num(10))]), (vec![2], vec![assign(LV::Var(C), num(20)), Stmt::Break])], // fall through
                2 => vec![(vec![1, 3], vec![assign(LV::Var(R), num(10)), Stmt::Break]), (vec![0x80], vec![assign(LV::Var(R), num(20)), Stmt::Break])],
                _ => vec![(vec![0xff], vec![assign(LV::Var(R), num(10)), Stmt::Break])],
            };
            for def in [false, true] {
                let d = if def { Some(vec![assign(LV::Var(R), num(99))]) } else { None };
                v.push(main_with(vec![assign(LV::Var(R), num(0)), Stmt::Switch(sel.clone(), cases.clone(), d)]));
            }
        }
    }
    // 7. 16-bit: s = L op R ; s op= R ; ++ -- ; shifts ; widening ; comparisons
    let o16: Vec<(&str, Expr)> = vec![
        ("u16", lvv(T)),
        ("u16b", lvv(U)),
        ("i16", lvv(V)),
        ("const", num(0x1234)),
        ("const-lo", num(0x00ff)),
        ("const-hi", num(0x7f00)),
        ("const1", num(1)),
        ("u8", lvv(A)),
    ];
    for op in ops.iter() {
        for (ln, le) in o16.iter() {
            for (rn, re) in o16.iter() {
                if ln.starts_with("const") && rn.starts_with("const") {
                    continue;
                }
                if *ln == "u8" {
                    continue; // an 8-bit left operand in a 16-bit sum: R1
                }
                for d in [S, V] {
                    v.push(main_with(vec![assign(LV::Var(d), bin(*op, le.clone(), re.clone()))]));
                }
            }
        }
        for (_rn, re) in o16.iter() {
            for d in [S, V] {
                v.push(main_with(vec![Stmt::Expr(Expr::OpAssign(*op, LV::Var(d), Box::new(re.clone())))]));
            }
        }
    }
    for d in [S, V] {
        for post in [false, true] {
            for inc in [false, true] {
                v.push(main_with(vec![Stmt::Expr(Expr::IncDec { lv: LV::Var(d), post, inc })]));
            }
        }
        for k in 1..=7 {
            v.push(main_with(vec![Stmt::Expr(Expr::OpAssign(BinOp::Shl, LV::Var(d), Box::new(num(k))))]));
            v.push(main_with(vec![Stmt::Expr(Expr::OpAssign(BinOp::Shr, LV::Var(d), Box::new(num(k))))]));
        }
        // widening and narrowing
        for src in [lvv(A), lvv(SA), Expr::Lv(LV::X), Expr::Lv(LV::Y), num(200), num(0x1234)] {
            v.push(main_with(vec![assign(LV::Var(d), src)]));
        }
        v.push(main_with(vec![assign(LV::Var(R), lvv(d))]));
        v.push(main_with(vec![assign(LV::Var(d), bin(BinOp::Shl, lvv(A), num(8)))]));
        v.push(main_with(vec![assign(LV::Var(R), bin(BinOp::Shr, lvv(T), num(8)))]));
    }
    for op in [BinOp::Eq, BinOp::Ne, BinOp::Lt, BinOp::Ge] {
        for (l, r) in [(lvv(S), lvv(T)), (lvv(S), num(0x1234)), (lvv(S), num(0x0100)), (lvv(S), num(0x00ff)), (lvv(T), lvv(S))] {
            let cond = bin(op, l, r);
            v.push(main_with(vec![Stmt::If(cond.clone(), Box::new(assign(LV::Var(R), num(1))), Some(Box::new(assign(LV::Var(R), num(2)))))]));
        }
    }
    for op in [BinOp::Eq, BinOp::Ne] {
        let cond = bin(op, lvv(V), lvv(W));
        v.push(main_with(vec![Stmt::If(cond, Box::new(assign(LV::Var(R), num(1))), Some(Box::new(assign(LV::Var(R), num(2)))))]));
    }
    // bare 16-bit condition
    v.push(main_with(vec![Stmt::If(lvv(S), Box::new(assign(LV::Var(R), num(1))), Some(Box::new(assign(LV::Var(R), num(2)))))]));
    // 8. signed char: sign extension, compare with zero, equality, negate
    for op in [BinOp::Lt, BinOp::Le, BinOp::Gt, BinOp::Ge, BinOp::Eq, BinOp::Ne] {
        let cond = bin(op, lvv(SA), num(0));
        v.push(main_with(vec![Stmt::If(cond, Box::new(assign(LV::Var(R), num(1))), Some(Box::new(assign(LV::Var(R), num(2)))))]));
    }
    for op in [BinOp::Eq, BinOp::Ne] {
        let cond = bin(op, lvv(SA), lvv(SB));
        v.push(main_with(vec![Stmt::If(cond, Box::new(assign(LV::Var(R), num(1))), Some(Box::new(assign(LV::Var(R), num(2)))))]));
    }
    v.push(main_with(vec![assign(LV::Var(SB), Expr::Un(UnOp::Neg, Box::new(lvv(SA))))]));
    v.push(main_with(vec![assign(LV::Var(V), lvv(SA))]));
    v.push(main_with(vec![assign(LV::Var(SB), bin(BinOp::Shr, lvv(SA), num(1)))]));
    // 9. functions: parameters, return values in expressions, nested expressions around calls
    for variant in 0..8 {
        let mut p = base();
        let px = p.vars.len();
        p.vars.push(VarDecl { name: "x".into(), kind: VarKind::Scalar(Ty::U8), mem: MemClass::Zp, scope: Scope::Param(0) });
        p.vars.push(VarDecl { name: "y".into(), kind: VarKind::Scalar(Ty::U8), mem: MemClass::Zp, scope: Scope::Param(0) });
        let fbody = vec![Stmt::Return(Some(bin(BinOp::Sub, lvv(px), lvv(px + 1))))];
        p.funcs.push(Func { name: "f".into(), ret: Some(Ty::U8), params: vec![px, px + 1], body: fbody, inline: variant % 2 == 1, interrupt: false, proto_first: false });
        let call = |a: Expr, b: Expr| Expr::Call(0, vec![a, b]);
        let body = match variant / 2 {
            0 => vec![assign(LV::Var(R), call(lvv(A), lvv(BV)))],
            1 => vec![assign(LV::Var(R), bin(BinOp::Add, call(lvv(A), num(3)), lvv(C)))],
            2 => vec![assign(LV::Var(R), bin(BinOp::Sub, lvv(C), call(Expr::Lv(LV::X), Expr::Lv(LV::Y))))],
            _ => vec![Stmt::If(bin(BinOp::Eq, call(lvv(A), lvv(BV)), num(0)), Box::new(assign(LV::Var(R), num(1))), Some(Box::new(assign(LV::Var(R), num(2)))))],
        };
        p.funcs.push(Func { name: "main".into(), ret: None, params: vec![], body, inline: false, interrupt: false, proto_first: false });
        v.push(p);
    }
    // 10. precedence and associativity: every ordered pair of binary operators in both
    // groupings, printed with minimal parentheses, as an assignment and as the initialiser of a
    // local (the two positions are parsed by different operator tables)
    let pops = [BinOp::Add, BinOp::Sub, BinOp::And, BinOp::Or, BinOp::Xor, BinOp::Shl, BinOp::Shr];
    let is_shift = |o: BinOp| matches!(o, BinOp::Shl | BinOp::Shr);
    for o1 in pops.iter() {
        for o2 in pops.iter() {
            for shape in 0..2 {
                let e = if shape == 0 {
                    // (a o1 b) o2 c
                    let b = if is_shift(*o1) { num(1) } else { lvv(BV) };
                    let c = if is_shift(*o2) { num(2) } else { lvv(C) };
                    bin(*o2, bin(*o1, lvv(A), b), c)
                } else {
                    // a o1 (b o2 c)
                    if is_shift(*o1) {
                        // the count must be a constant expression
                        let c = if is_shift(*o2) { num(1) } else { num(2) };
                        bin(*o1, lvv(A), bin(*o2, num(3), c))
                    } else {
                        let c = if is_shift(*o2) { num(2) } else { lvv(C) };
                        bin(*o1, lvv(A), bin(*o2, lvv(BV), c))
                    }
                };
                // assignment
                v.push(main_with(vec![assign(LV::Var(R), e.clone())]));
                // local initialiser
                let mut p = base();
                let l = p.vars.len();
                p.vars.push(VarDecl { name: "l0".into(), kind: VarKind::Scalar(Ty::U8), mem: MemClass::Zp, scope: Scope::Local(0) });
                let body = vec![Stmt::Decl(l, Some(e.clone())), assign(LV::Var(R), lvv(l))];
                p.funcs.push(Func { name: "main".into(), ret: None, params: vec![], body, inline: false, interrupt: false, proto_first: false });
                v.push(p);
            }
        }
    }
    v
}

static MATRIX: OnceLock<Vec<Program>> = OnceLock::new();

pub fn matrix() -> &'static Vec<Program> {
    MATRIX.get_or_init(build)
}

pub fn matrix_len() -> u64 {
    matrix().len() as u64
}

pub fn matrix_program(idx: u64) -> Program {
    matrix()[idx as usize].clone()
}
