// Check framework: case plans, worker processes with crash/hang attribution, aggregation,
// evidence files, known-findings handling, verdict lines.

use crate::util::*;
use serde_json::{json, Map, Value};
use std::collections::{BTreeMap, BTreeSet};
use std::io::{BufRead, BufReader, Write};
use std::process::{Child, ChildStdin, Command, Stdio};
use std::sync::mpsc;

pub const VERIF_DIR: &str = "/verif";

#[derive(Clone, Debug, PartialEq, Eq)]
pub enum Tier {
    Quick,
    Thorough,
}

impl Tier {
    pub fn name(&self) -> &'static str {
        match self {
            Tier::Quick => "quick",
            Tier::Thorough => "thorough",
        }
    }
}

#[derive(Clone, Debug)]
pub struct Chunk {
    pub kind: String,
    pub start: u64,
    pub count: u64,
}

#[derive(Clone, Debug, Default)]
pub struct CaseResult {
    /// class of outcome, for the histogram in the evidence (e.g. "accepted", "rejected: Code too complex")
    pub class: String,
    /// hash identifying the case content (source+options); used for distinct counting
    pub key: u64,
    /// did the monitored mechanism actually fire on this case
    pub nontrivial: bool,
    pub counters: BTreeMap<String, u64>,
    pub sets: BTreeMap<String, BTreeSet<String>>,
    pub sample: Option<Value>,
    pub violations: Vec<Violation>,
}

#[derive(Clone, Debug)]
pub struct Violation {
    /// stable signature (for known findings): e.g. "pin:postinc_in_condition" or "panic:src/compile.rs:...".
    pub signature: String,
    pub summary: String,
    pub replay: Value,
}

impl CaseResult {
    pub fn new(class: &str, key: u64) -> CaseResult {
        CaseResult { class: class.to_string(), key, ..Default::default() }
    }
    pub fn count(&mut self, k: &str, n: u64) {
        *self.counters.entry(k.to_string()).or_insert(0) += n;
    }
    pub fn set(&mut self, k: &str, v: &str) {
        self.sets.entry(k.to_string()).or_default().insert(v.to_string());
    }
    pub fn violate(&mut self, signature: &str, summary: &str, replay: Value) {
        self.violations.push(Violation {
            signature: signature.to_string(),
            summary: summary.to_string(),
            replay,
        });
    }
}

pub trait Monitor: Sync {
    fn id(&self) -> &'static str;
    fn level(&self) -> &'static str;
    fn rule(&self) -> String;
    fn assumptions(&self) -> Vec<String>;
    fn plan(&self, tier: &Tier, seed: u64) -> Vec<Chunk>;
    fn run_case(&self, kind: &str, idx: u64) -> CaseResult;
    /// a worker died (signal / abort / timeout) while running this case
    fn on_crash(&self, kind: &str, idx: u64, how: &str) -> CaseResult {
        let mut r = CaseResult::new(&format!("worker {} (not judged by this property; see C16)", how), idx);
        r.count("worker_crashes", 1);
        r.set("crashed cases", &format!("{}:{}", kind, idx));
        r
    }
    /// minimum numbers the run must have observed, else the verdict is inconclusive
    fn thresholds(&self, _tier: &Tier) -> Vec<(String, u64)> {
        vec![]
    }
    /// wall-clock seconds a single case may take before the worker is killed
    fn case_timeout_s(&self) -> u64 {
        120
    }
    fn extra_coverage(&self, _agg: &Aggregate) -> Map<String, Value> {
        Map::new()
    }
    fn exhaustive(&self, _tier: &Tier) -> bool {
        false
    }
}

#[derive(Default)]
pub struct Aggregate {
    pub evaluations: u64,
    pub classes: BTreeMap<String, u64>,
    pub counters: BTreeMap<String, u64>,
    pub sets: BTreeMap<String, BTreeSet<String>>,
    pub distinct: BTreeSet<u64>,
    pub distinct_nontrivial: BTreeSet<u64>,
    pub samples: Vec<Value>,
    pub violations: Vec<Violation>,
}

impl Aggregate {
    pub fn add(&mut self, r: CaseResult) {
        self.evaluations += 1;
        *self.classes.entry(r.class.clone()).or_insert(0) += 1;
        for (k, v) in r.counters {
            *self.counters.entry(k).or_insert(0) += v;
        }
        for (k, v) in r.sets {
            self.sets.entry(k).or_default().extend(v);
        }
        self.distinct.insert(r.key);
        if r.nontrivial {
            self.distinct_nontrivial.insert(r.key);
        }
        if let Some(s) = r.sample {
            if self.samples.len() < 400 {
                self.samples.push(s);
            }
        }
        self.violations.extend(r.violations);
    }
    pub fn counter(&self, k: &str) -> u64 {
        *self.counters.get(k).unwrap_or(&0)
    }
}

// ------------------------------------------------------------------ wire format worker->main

fn result_to_json(kind: &str, idx: u64, r: &CaseResult) -> Value {
    json!({
        "kind": kind, "idx": idx, "class": r.class, "key": r.key, "nt": r.nontrivial,
        "counters": r.counters,
        "sets": r.sets.iter().map(|(k,v)| (k.clone(), v.iter().cloned().collect::<Vec<_>>())).collect::<BTreeMap<_,_>>(),
        "sample": r.sample,
        "violations": r.violations.iter().map(|v| json!({"sig": v.signature, "summary": v.summary, "replay": v.replay})).collect::<Vec<_>>(),
    })
}

fn result_from_json(v: &Value) -> CaseResult {
    let mut r = CaseResult::new(v["class"].as_str().unwrap_or(""), v["key"].as_u64().unwrap_or(0));
    r.nontrivial = v["nt"].as_bool().unwrap_or(false);
    if let Some(m) = v["counters"].as_object() {
        for (k, x) in m {
            r.counters.insert(k.clone(), x.as_u64().unwrap_or(0));
        }
    }
    if let Some(m) = v["sets"].as_object() {
        for (k, x) in m {
            let s: BTreeSet<String> = x
                .as_array()
                .map(|a| a.iter().filter_map(|e| e.as_str().map(|s| s.to_string())).collect())
                .unwrap_or_default();
            r.sets.insert(k.clone(), s);
        }
    }
    if !v["sample"].is_null() {
        r.sample = Some(v["sample"].clone());
    }
    if let Some(a) = v["violations"].as_array() {
        for x in a {
            r.violations.push(Violation {
                signature: x["sig"].as_str().unwrap_or("").to_string(),
                summary: x["summary"].as_str().unwrap_or("").to_string(),
                replay: x["replay"].clone(),
            });
        }
    }
    r
}

// ------------------------------------------------------------------ worker side

/// `vmon worker <id>`: reads "kind start count" lines from stdin, runs the cases, reports.
/// Results are aggregated per chunk to keep the pipe quiet; a `@@B` line precedes every case
/// so that the parent can attribute an abort / stack overflow / hang to the in-flight case.
pub fn worker_main(mon: &dyn Monitor, out: &mut std::fs::File) {
    let stdin = std::io::stdin();
    let mut line = String::new();
    loop {
        line.clear();
        if stdin.lock().read_line(&mut line).unwrap_or(0) == 0 {
            break;
        }
        let parts: Vec<&str> = line.trim().split(' ').collect();
        if parts.len() != 3 {
            continue;
        }
        let kind = parts[0];
        let start: u64 = parts[1].parse().unwrap();
        let count: u64 = parts[2].parse().unwrap();
        for idx in start..start + count {
            let _ = writeln!(out, "@@B {} {}", kind, idx);
            let mut r = mon.run_case(kind, idx);
            // the case coordinates are what --replay needs
            for v in r.violations.iter_mut() {
                if let Some(o) = v.replay.as_object_mut() {
                    o.insert("case_kind".into(), json!(kind));
                    o.insert("case_idx".into(), json!(idx));
                }
            }
            let j = result_to_json(kind, idx, &r);
            let _ = writeln!(out, "@@R {}", j);
        }
        let _ = writeln!(out, "@@C {} {} {}", kind, start, count);
    }
    let _ = writeln!(out, "@@DONE");
}

// ------------------------------------------------------------------ parent side

enum Msg {
    Line(usize, String),
    Eof(usize),
}

struct Worker {
    child: Child,
    stdin: Option<ChildStdin>,
    /// chunk being processed and next expected idx
    chunk: Option<Chunk>,
    inflight: Option<(String, u64)>,
    inflight_since: f64,
    done_upto: u64, // cases of the current chunk fully reported: [chunk.start, done_upto)
    alive: bool,
    gen: u64,
}

fn spawn_worker(id: &str, slot: usize, gen: u64, tx: &mpsc::Sender<(u64, Msg)>) -> Worker {
    // /proc/self/exe names the running image itself: it stays valid when the file at the original
    // path is replaced by a rebuild while a check is running
    let mut tries = 0;
    let mut child = loop {
        match Command::new("/proc/self/exe").arg("worker").arg(id).stdin(Stdio::piped()).stdout(Stdio::piped()).stderr(Stdio::null()).spawn() {
            Ok(c) => break c,
            Err(e) => {
                tries += 1;
                if tries >= 5 {
                    // a harness failure is never a verdict on the property
                    println!("INCONCLUSIVE property={} reason=cannot start a worker process: {}", id, e);
                    std::process::exit(2);
                }
                std::thread::sleep(std::time::Duration::from_millis(200));
            }
        }
    };
    let stdout = child.stdout.take().unwrap();
    let stdin = child.stdin.take();
    let tx = tx.clone();
    std::thread::spawn(move || {
        let rd = BufReader::new(stdout);
        for l in rd.lines() {
            match l {
                Ok(l) => {
                    if l.starts_with("@@") {
                        if tx.send((gen, Msg::Line(slot, l))).is_err() {
                            return;
                        }
                    }
                }
                Err(_) => break,
            }
        }
        let _ = tx.send((gen, Msg::Eof(slot)));
    });
    Worker {
        child,
        stdin,
        chunk: None,
        inflight: None,
        inflight_since: now_s(),
        done_upto: 0,
        alive: true,
        gen,
    }
}

pub struct RunOutcome {
    pub agg: Aggregate,
    pub wall_s: f64,
    pub harness_errors: Vec<String>,
}

pub fn run_pool(mon: &dyn Monitor, chunks: Vec<Chunk>, nworkers: usize) -> RunOutcome {
    let t0 = now_s();
    let mut agg = Aggregate::default();
    let mut harness_errors = Vec::new();
    let (tx, rx) = mpsc::channel::<(u64, Msg)>();
    let mut queue: std::collections::VecDeque<Chunk> = chunks.into();
    let mut gen_counter: u64 = 0;
    let n = nworkers.max(1).min(queue.len().max(1));
    let mut workers: Vec<Worker> = Vec::new();
    for slot in 0..n {
        gen_counter += 1;
        workers.push(spawn_worker(mon.id(), slot, gen_counter, &tx));
    }
    // initial assignment
    for w in workers.iter_mut() {
        assign(w, &mut queue);
    }
    let timeout = mon.case_timeout_s() as f64;
    let mut respawns = 0u32;
    loop {
        let all_idle = workers.iter().all(|w| !w.alive || w.chunk.is_none());
        if all_idle && queue.is_empty() {
            break;
        }
        match rx.recv_timeout(std::time::Duration::from_millis(500)) {
            Ok((gen, msg)) => {
                let slot = match &msg {
                    Msg::Line(s, _) => *s,
                    Msg::Eof(s) => *s,
                };
                if workers[slot].gen != gen {
                    continue; // stale message of a replaced worker
                }
                match msg {
                    Msg::Line(_, l) => {
                        let w = &mut workers[slot];
                        if let Some(rest) = l.strip_prefix("@@B ") {
                            let mut p = rest.split(' ');
                            let k = p.next().unwrap_or("").to_string();
                            let i: u64 = p.next().unwrap_or("0").parse().unwrap_or(0);
                            w.inflight = Some((k, i));
                            w.inflight_since = now_s();
                        } else if let Some(rest) = l.strip_prefix("@@R ") {
                            match serde_json::from_str::<Value>(rest) {
                                Ok(v) => {
                                    let idx = v["idx"].as_u64().unwrap_or(0);
                                    agg.add(result_from_json(&v));
                                    w.done_upto = idx + 1;
                                    w.inflight = None;
                                    w.inflight_since = now_s();
                                }
                                Err(e) => harness_errors.push(format!("bad result line: {}", e)),
                            }
                        } else if l.starts_with("@@C ") {
                            w.chunk = None;
                            w.inflight = None;
                            assign(w, &mut queue);
                        }
                    }
                    Msg::Eof(_) => {
                        // worker died (or finished)
                        let status = workers[slot].child.wait().ok();
                        let how = match status {
                            Some(s) => {
                                use std::os::unix::process::ExitStatusExt;
                                if let Some(sig) = s.signal() {
                                    format!("killed by signal {}", sig)
                                } else {
                                    format!("exited with status {}", s.code().unwrap_or(-1))
                                }
                            }
                            None => "vanished".to_string(),
                        };
                        workers[slot].alive = false;
                        if let Some(ch) = workers[slot].chunk.take() {
                            handle_death(mon, &mut workers[slot], ch, &how, &mut agg, &mut queue);
                            respawns += 1;
                            if respawns > 2000 {
                                harness_errors.push("too many worker deaths".into());
                                break;
                            }
                            gen_counter += 1;
                            workers[slot] = spawn_worker(mon.id(), slot, gen_counter, &tx);
                            assign(&mut workers[slot], &mut queue);
                        }
                    }
                }
            }
            Err(mpsc::RecvTimeoutError::Timeout) => {}
            Err(mpsc::RecvTimeoutError::Disconnected) => break,
        }
        // watchdog
        let now = now_s();
        for slot in 0..workers.len() {
            let w = &mut workers[slot];
            if w.alive && w.chunk.is_some() && w.inflight.is_some() && now - w.inflight_since > timeout {
                let _ = w.child.kill();
                let _ = w.child.wait();
                w.alive = false;
                w.gen = 0; // ignore whatever it still sends
                let ch = w.chunk.take().unwrap();
                handle_death(mon, w, ch, &format!("timeout after {}s wall", timeout), &mut agg, &mut queue);
                gen_counter += 1;
                workers[slot] = spawn_worker(mon.id(), slot, gen_counter, &tx);
                assign(&mut workers[slot], &mut queue);
            }
        }
    }
    for w in workers.iter_mut() {
        w.stdin = None; // close -> worker exits
    }
    for w in workers.iter_mut() {
        if w.alive {
            let _ = w.child.wait();
        }
    }
    RunOutcome { agg, wall_s: now_s() - t0, harness_errors }
}

fn assign(w: &mut Worker, queue: &mut std::collections::VecDeque<Chunk>) {
    if let Some(ch) = queue.pop_front() {
        if let Some(si) = w.stdin.as_mut() {
            let _ = writeln!(si, "{} {} {}", ch.kind, ch.start, ch.count);
            let _ = si.flush();
        }
        w.done_upto = ch.start;
        w.inflight = None;
        w.inflight_since = now_s();
        w.chunk = Some(ch);
    }
}

fn handle_death(
    mon: &dyn Monitor,
    w: &mut Worker,
    ch: Chunk,
    how: &str,
    agg: &mut Aggregate,
    queue: &mut std::collections::VecDeque<Chunk>,
) {
    let end = ch.start + ch.count;
    let (crash_idx, have) = match &w.inflight {
        Some((_, i)) => (*i, true),
        None => (w.done_upto, false),
    };
    if have {
        agg.add(mon.on_crash(&ch.kind, crash_idx, how));
        if crash_idx + 1 < end {
            queue.push_front(Chunk { kind: ch.kind.clone(), start: crash_idx + 1, count: end - crash_idx - 1 });
        }
    } else if w.done_upto < end {
        // died between cases: just resubmit the rest
        queue.push_front(Chunk { kind: ch.kind.clone(), start: w.done_upto, count: end - w.done_upto });
    }
}

// ------------------------------------------------------------------ known findings

#[derive(Clone, Debug)]
pub struct KnownFinding {
    pub property: String,
    pub status: String, // known | fixed
    pub signature: String,
    pub what: String,
}

pub fn load_known() -> Vec<KnownFinding> {
    let p = format!("{}/known_findings.json", VERIF_DIR);
    let mut v = Vec::new();
    if let Ok(s) = std::fs::read_to_string(&p) {
        if let Ok(j) = serde_json::from_str::<Value>(&s) {
            if let Some(a) = j["findings"].as_array() {
                for f in a {
                    v.push(KnownFinding {
                        property: f["property"].as_str().unwrap_or("").to_string(),
                        status: f["status"].as_str().unwrap_or("").to_string(),
                        signature: f["signature"].as_str().unwrap_or("").to_string(),
                        what: f["what"].as_str().unwrap_or("").to_string(),
                    });
                }
            }
        }
    }
    v
}

// ------------------------------------------------------------------ top level

pub fn split_chunks(kind: &str, start: u64, count: u64, pool: u64, per: u64) -> Vec<Chunk> {
    // window [start, start+count) modulo pool, cut into chunks of `per`
    let mut v = Vec::new();
    if pool == 0 || count == 0 {
        return v;
    }
    let count = count.min(pool);
    let mut s = start % pool;
    let mut left = count;
    while left > 0 {
        let n = left.min(per).min(pool - s);
        v.push(Chunk { kind: kind.to_string(), start: s, count: n });
        s = (s + n) % pool;
        left -= n;
    }
    v
}

pub fn seed_offset(seed: u64, tag: &str, pool: u64) -> u64 {
    if pool == 0 {
        0
    } else {
        let mut r = Rng::for_case(tag, seed);
        r.below(pool)
    }
}

pub fn run_check(mon: &dyn Monitor, tier: Tier, seed: u64, out: &mut dyn Write) -> i32 {
    let id = mon.id();
    let chunks = mon.plan(&tier, seed);
    let planned: u64 = chunks.iter().map(|c| c.count).sum();
    let nw = std::env::var("VERIF_JOBS").ok().and_then(|s| s.parse().ok()).unwrap_or(16usize);
    let ro = run_pool(mon, chunks, nw);
    let agg = &ro.agg;
    let known = load_known();

    // verdicts
    let mut unknown_viol: Vec<&Violation> = Vec::new();
    let mut known_hits: BTreeMap<String, (String, u64)> = BTreeMap::new();
    for v in &agg.violations {
        if let Some(k) = known
            .iter()
            .find(|k| k.property == id && k.status == "known" && k.signature == v.signature)
        {
            let e = known_hits.entry(k.signature.clone()).or_insert((k.what.clone(), 0));
            e.1 += 1;
        } else {
            unknown_viol.push(v);
        }
    }
    let _ = std::fs::create_dir_all(format!("{}/replays/{}", VERIF_DIR, id));
    let mut exit = 0;
    for (sig, (what, n)) in &known_hits {
        let _ = writeln!(out, "KNOWN-FINDING: property={} {} [{}; seen {}x this run]", id, what, sig, n);
    }
    let mut seen_sig = BTreeSet::new();
    for (i, v) in unknown_viol.iter().enumerate() {
        if !seen_sig.insert(v.signature.clone()) && i >= 20 {
            continue;
        }
        let path = format!("{}/replays/{}/{}-{:016x}.json", VERIF_DIR, id, tier.name(), hash_str(&format!("{}{}", v.signature, v.summary)));
        let mut rp = v.replay.clone();
        if let Some(o) = rp.as_object_mut() {
            o.insert("property".into(), json!(id));
            o.insert("signature".into(), json!(v.signature));
            o.insert("summary".into(), json!(v.summary));
        }
        let _ = std::fs::write(&path, serde_json::to_string_pretty(&rp).unwrap());
        if i < 20 {
            let _ = writeln!(out, "VIOLATION property={} replay={}", id, path);
            let _ = writeln!(out, "  {}", trunc(&v.summary, 600));
        }
        exit = 1;
    }
    if unknown_viol.len() > 20 {
        let _ = writeln!(out, "  … {} violations in total", unknown_viol.len());
    }

    // inconclusive?
    let mut inconclusive: Vec<String> = ro.harness_errors.clone();
    if agg.evaluations < planned {
        inconclusive.push(format!("only {} of {} planned cases were evaluated", agg.evaluations, planned));
    }
    for (k, min) in mon.thresholds(&tier) {
        let have = if k == "distinct_nontrivial" {
            agg.distinct_nontrivial.len() as u64
        } else if let Some(s) = k.strip_prefix("set:") {
            agg.sets.get(s).map(|s| s.len() as u64).unwrap_or(0)
        } else if let Some(s) = k.strip_prefix("class:") {
            *agg.classes.get(s).unwrap_or(&0)
        } else {
            agg.counter(&k)
        };
        if have < min {
            inconclusive.push(format!("observed {}={} < required {}", k, have, min));
        }
    }
    if exit == 0 && !inconclusive.is_empty() {
        for r in &inconclusive {
            let _ = writeln!(out, "INCONCLUSIVE property={} reason={}", id, r);
        }
        exit = 2;
    }

    // evidence
    let mut cov = Map::new();
    cov.insert("evaluations".into(), json!(agg.evaluations));
    cov.insert("distinct".into(), json!(agg.distinct.len()));
    cov.insert("distinct_nontrivial".into(), json!(agg.distinct_nontrivial.len()));
    cov.insert("rule".into(), json!(mon.rule()));
    let mut samples = agg.samples.clone();
    // keep a spread of samples
    if samples.len() > 12 {
        let step = samples.len() / 12;
        samples = samples.into_iter().step_by(step.max(1)).take(12).collect();
    }
    cov.insert("samples".into(), json!(samples));
    cov.insert("outcome_classes".into(), json!(agg.classes));
    cov.insert("counters".into(), json!(agg.counters));
    let mut sets = Map::new();
    for (k, v) in &agg.sets {
        let list: Vec<&String> = v.iter().take(300).collect();
        sets.insert(k.clone(), json!({"n": v.len(), "values": list}));
    }
    cov.insert("observed_sets".into(), Value::Object(sets));
    cov.insert("exhaustive".into(), json!(mon.exhaustive(&tier)));
    cov.insert("known_findings_reproduced".into(), json!(known_hits.iter().map(|(k, v)| json!({"signature": k, "what": v.0, "times": v.1})).collect::<Vec<_>>()));
    cov.insert("inconclusive_reasons".into(), json!(inconclusive));
    cov.insert("explanation".into(), json!(mon.rule()));
    cov.insert("programs".into(), json!(agg.distinct.len()));
    cov.insert("disagreements_checked".into(), json!(agg.counter("comparisons")));
    for (k, v) in mon.extra_coverage(agg) {
        cov.insert(k, v);
    }
    let ev = json!({
        "property_id": id,
        "tier": tier.name(),
        "seed": seed,
        "level": mon.level(),
        "coverage": Value::Object(cov),
        "assumptions": mon.assumptions(),
        "wall_s": (ro.wall_s * 100.0).round() / 100.0,
        "violations": unknown_viol.len(),
        "verdict": match exit { 0 => "held on what was observed", 1 => "violated", _ => "inconclusive" },
    });
    let _ = std::fs::create_dir_all(format!("{}/evidence", VERIF_DIR));
    let _ = std::fs::write(
        format!("{}/evidence/{}.json", VERIF_DIR, id),
        serde_json::to_string_pretty(&ev).unwrap(),
    );
    let _ = writeln!(
        out,
        "{} {} seed={} : {} cases ({} distinct, {} non-trivial) in {:.1}s -> {}",
        id,
        tier.name(),
        seed,
        agg.evaluations,
        agg.distinct.len(),
        agg.distinct_nontrivial.len(),
        ro.wall_s,
        match exit {
            0 => "HELD",
            1 => "VIOLATED",
            _ => "INCONCLUSIVE",
        }
    );
    let mut classes: Vec<(&String, &u64)> = agg.classes.iter().collect();
    classes.sort_by(|a, b| b.1.cmp(a.1));
    for (c, n) in classes.iter().take(12) {
        let _ = writeln!(out, "    {:8} {}", n, trunc(c, 110));
    }
    exit
}
