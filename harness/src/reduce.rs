// Development aid: greedy reducer for violating programs (statement deletion, unwrapping,
// sub-expression replacement).  Not used by the registered checks.

use crate::cmodel::*;

fn stmt_variants(s: &Stmt) -> Vec<Stmt> {
    // one-step simplifications of a single statement (not including deletion)
    let mut v = Vec::new();
    match s {
        Stmt::If(c, t, e) => {
            v.push((**t).clone());
            if let Some(e) = e {
                v.push((**e).clone());
                v.push(Stmt::If(c.clone(), t.clone(), None));
            }
            for tv in stmt_variants(t) {
                v.push(Stmt::If(c.clone(), Box::new(tv), e.clone()));
            }
            if let Some(e2) = e {
                for ev in stmt_variants(e2) {
                    v.push(Stmt::If(c.clone(), t.clone(), Some(Box::new(ev))));
                }
            }
            for cv in expr_variants(c) {
                v.push(Stmt::If(cv, t.clone(), e.clone()));
            }
        }
        Stmt::While(c, b) => {
            v.push((**b).clone());
            for bv in stmt_variants(b) {
                v.push(Stmt::While(c.clone(), Box::new(bv)));
            }
        }
        Stmt::DoWhile(b, c) => {
            v.push((**b).clone());
            for bv in stmt_variants(b) {
                v.push(Stmt::DoWhile(Box::new(bv), c.clone()));
            }
        }
        Stmt::For(a, b, c, d) => {
            v.push((**d).clone());
            for dv in stmt_variants(d) {
                v.push(Stmt::For(a.clone(), b.clone(), c.clone(), Box::new(dv)));
            }
        }
        Stmt::Switch(e, cases, def) => {
            for (i, c) in cases.iter().enumerate() {
                let mut cs = cases.clone();
                cs.remove(i);
                if !cs.is_empty() {
                    v.push(Stmt::Switch(e.clone(), cs, def.clone()));
                }
                v.push(Stmt::Block(c.1.iter().filter(|s| !matches!(s, Stmt::Break)).cloned().collect()));
                for (j, _) in c.1.iter().enumerate() {
                    let mut cs = cases.clone();
                    cs[i].1.remove(j);
                    v.push(Stmt::Switch(e.clone(), cs, def.clone()));
                }
                for (j, st) in c.1.iter().enumerate() {
                    for sv in stmt_variants(st) {
                        let mut cs = cases.clone();
                        cs[i].1[j] = sv;
                        v.push(Stmt::Switch(e.clone(), cs, def.clone()));
                    }
                }
            }
            if def.is_some() {
                v.push(Stmt::Switch(e.clone(), cases.clone(), None));
            }
            for ev in expr_variants(e) {
                v.push(Stmt::Switch(ev, cases.clone(), def.clone()));
            }
        }
        Stmt::Block(b) => {
            if b.len() == 1 {
                v.push(b[0].clone());
            }
            for i in 0..b.len() {
                if matches!(b[i], Stmt::Decl(..)) {
                    continue;
                }
                let mut nb = b.clone();
                nb.remove(i);
                v.push(Stmt::Block(nb));
            }
            for i in 0..b.len() {
                for sv in stmt_variants(&b[i]) {
                    let mut nb = b.clone();
                    nb[i] = sv;
                    v.push(Stmt::Block(nb));
                }
            }
        }
        Stmt::Labeled(_, s) => v.push((**s).clone()),
        Stmt::Expr(e) => {
            for ev in expr_variants(e) {
                v.push(Stmt::Expr(ev));
            }
        }
        Stmt::Decl(d, Some(e)) => {
            for ev in expr_variants(e) {
                v.push(Stmt::Decl(*d, Some(ev)));
            }
        }
        Stmt::Return(Some(e)) => {
            for ev in expr_variants(e) {
                v.push(Stmt::Return(Some(ev)));
            }
        }
        _ => {}
    }
    v
}

fn expr_variants(e: &Expr) -> Vec<Expr> {
    let mut v = Vec::new();
    match e {
        Expr::Bin(op, a, b) => {
            v.push((**a).clone());
            v.push((**b).clone());
            for av in expr_variants(a) {
                v.push(Expr::Bin(*op, Box::new(av), b.clone()));
            }
            for bv in expr_variants(b) {
                v.push(Expr::Bin(*op, a.clone(), Box::new(bv)));
            }
        }
        Expr::Un(op, a) => {
            v.push((**a).clone());
            for av in expr_variants(a) {
                v.push(Expr::Un(*op, Box::new(av)));
            }
        }
        Expr::Paren(a) => {
            v.push((**a).clone());
            for av in expr_variants(a) {
                v.push(Expr::Paren(Box::new(av)));
            }
        }
        Expr::Cond(c, a, b) => {
            v.push((**a).clone());
            v.push((**b).clone());
            for cv in expr_variants(c) {
                v.push(Expr::Cond(Box::new(cv), a.clone(), b.clone()));
            }
            for av in expr_variants(a) {
                v.push(Expr::Cond(c.clone(), Box::new(av), b.clone()));
            }
            for bv in expr_variants(b) {
                v.push(Expr::Cond(c.clone(), a.clone(), Box::new(bv)));
            }
        }
        Expr::Assign(l, r) => {
            if let Expr::Assign(_, r2) = &**r {
                v.push(Expr::Assign(l.clone(), r2.clone()));
            }
            for rv in expr_variants(r) {
                v.push(Expr::Assign(l.clone(), Box::new(rv)));
            }
            for lv in lv_variants(l) {
                v.push(Expr::Assign(lv, r.clone()));
            }
        }
        Expr::OpAssign(op, l, r) => {
            for rv in expr_variants(r) {
                v.push(Expr::OpAssign(*op, l.clone(), Box::new(rv)));
            }
        }
        Expr::Comma(a, b) => {
            v.push((**a).clone());
            v.push((**b).clone());
        }
        Expr::Call(f, args) => {
            for (i, a) in args.iter().enumerate() {
                for av in expr_variants(a) {
                    let mut na = args.clone();
                    na[i] = av;
                    v.push(Expr::Call(*f, na));
                }
            }
        }
        Expr::Lv(l) => {
            for lv in lv_variants(l) {
                v.push(Expr::Lv(lv));
            }
            if !matches!(l, LV::Var(_) | LV::X | LV::Y) {
                v.push(Expr::Num(1));
            }
        }
        _ => {}
    }
    v
}

fn lv_variants(l: &LV) -> Vec<LV> {
    match l {
        LV::Idx(a, i) => {
            let mut v = vec![];
            if !matches!(**i, Expr::Num(_)) {
                v.push(LV::Idx(*a, Box::new(Expr::Num(0))));
            }
            v
        }
        _ => vec![],
    }
}

pub fn candidates(p: &Program) -> Vec<Program> {
    let mut out = Vec::new();
    // drop a whole function that nobody needs is not attempted (calls reference indices)
    for (fi, f) in p.funcs.iter().enumerate() {
        for i in 0..f.body.len() {
            if matches!(f.body[i], Stmt::Decl(..)) {
                continue;
            }
            if matches!(f.body[i], Stmt::Return(_)) && i + 1 == f.body.len() {
                continue;
            }
            let mut q = p.clone();
            q.funcs[fi].body.remove(i);
            out.push(q);
        }
        for i in 0..f.body.len() {
            for sv in stmt_variants(&f.body[i]) {
                let mut q = p.clone();
                q.funcs[fi].body[i] = sv;
                out.push(q);
            }
        }
        if f.inline {
            let mut q = p.clone();
            q.funcs[fi].inline = false;
            out.push(q);
        }
    }
    out
}

pub fn reduce(p: &Program, still_bad: &dyn Fn(&Program) -> bool, max_rounds: usize) -> Program {
    let mut cur = p.clone();
    let mut rounds = 0;
    'outer: loop {
        rounds += 1;
        if rounds > max_rounds {
            break;
        }
        let cur_len = print_program(&cur).len();
        for c in candidates(&cur) {
            if print_program(&c).len() >= cur_len {
                continue;
            }
            if still_bad(&c) {
                cur = c;
                continue 'outer;
            }
        }
        break;
    }
    cur
}
