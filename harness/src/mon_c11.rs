// C11: comments, layout and listing options never affect behaviour.
// Metamorphic monitor: a decorator inserts comments of every shape, blank lines, tabs, CR-LF
// and splices between tokens; the observation record of the decorated source (declarations and
// emitted instructions, comment lines and cycle annotations stripped) must equal the plain one.
// --insert-code and -W may only add comment lines / annotations.

use crate::cmodel::print_program;
use crate::corpus::*;
use crate::driver::*;
use crate::framework::*;
use crate::util::*;
use serde_json::json;

pub struct C11;

const DECOS: &[(&str, &str)] = &[
    ("block comment", " /* c */ "),
    ("block comment with quotes", " /* it's \"quoted\" */ "),
    ("block comment with //", " /* see // this */ "),
    ("block comment with URL", " /* http://a.b/c */ "),
    ("block comment with /*", " /* open /* again */ "),
    ("block comment with directive text", " /* #if 0 #define X */ "),
    ("block comment with * /", " /* a * / b */ "),
    ("block comment with stars", " /*** **/ "),
    ("empty block comment", " /**/ "),
    ("block comment starting with /", " /*/ toggled */ "),
    ("block comment starting with //", " /*// old */ "),
    ("block comment ending with /", " /* a /*/ "),
    ("two block comments back to back", " /* a *//* b */ "),
    ("block comment directly followed by a line comment", " /* a */// b\n"),
    ("block comment closed then reopened over the line end", " /* a *//* b\n c */ "),
    ("multi-line block comment", " /* first\n   second \"\n   #endif\n */ "),
    ("line comment", " // note\n"),
    ("line comment with /*", " // has /* inside\n"),
    ("line comment with quote", " // don't \"\n"),
    ("line comment with */", " // */ x\n"),
    ("blank lines", "\n\n\n"),
    ("tabs", "\t\t"),
    ("many blanks", "      "),
    ("splice", " \\\n"),
    ("splice twice", " \\\n \\\n"),
    ("splice right after a token", "\\\n "),
];

/// gaps between tokens where decoration may go: index into the token list, with a flag telling
/// whether the gap already contains white space (comments vanish without leaving a blank)
fn tokenize(src: &str) -> Vec<(String, bool, usize, bool)> {
    // returns (token text including its leading white space, token is inside a directive line)
    let b: Vec<char> = src.chars().collect();
    let mut v = Vec::new();
    let mut i = 0;
    let mut in_directive = false;
    let mut at_line_start = true;
    let mut dir_pos = 0usize;
    let mut is_define = false;
    while i < b.len() {
        let st = i;
        while i < b.len() && b[i].is_whitespace() {
            if b[i] == '\n' {
                in_directive = false;
                at_line_start = true;
            }
            i += 1;
        }
        if i >= b.len() {
            v.push((b[st..].iter().collect(), in_directive, dir_pos, is_define));
            break;
        }
        let c = b[i];
        if c == '#' && at_line_start {
            in_directive = true;
            dir_pos = 0;
            is_define = false;
        } else if in_directive {
            dir_pos += 1;
        } else {
            dir_pos = 0;
        }
        at_line_start = false;
        if c.is_ascii_alphanumeric() || c == '_' {
            while i < b.len() && (b[i].is_ascii_alphanumeric() || b[i] == '_') {
                i += 1;
            }
        } else if c == '"' || c == '\'' {
            i += 1;
            while i < b.len() && b[i] != c {
                if b[i] == '\\' {
                    i += 1;
                }
                i += 1;
            }
            i = (i + 1).min(b.len());
        } else {
            let three: String = b[i..(i + 3).min(b.len())].iter().collect();
            let two: String = b[i..(i + 2).min(b.len())].iter().collect();
            if ["<<=", ">>="].contains(&three.as_str()) {
                i += 3;
            } else if ["<=", ">=", "==", "!=", "<<", ">>", "&&", "||", "++", "--", "+=", "-=", "*=", "/=", "&=", "|=", "^="].contains(&two.as_str()) {
                i += 2;
            } else {
                i += 1;
            }
        }
        let text: String = b[st..i].iter().collect();
        if in_directive && dir_pos == 1 && text.trim() == "define" {
            is_define = true;
        }
        v.push((text, in_directive, dir_pos, is_define));
    }
    v
}

pub fn decorate(src: &str, rng: &mut Rng, used: &mut Vec<String>) -> String {
    let toks = tokenize(src);
    if toks.len() < 3 {
        return src.to_string();
    }
    // lines that contain a call of a function-like macro: a macro invocation spread over several
    // lines is never expanded (recorded finding macro_call_across_lines)
    let mut fn_macros: Vec<String> = Vec::new();
    for w in toks.windows(4) {
        if w[0].0.trim() == "#" && w[1].0.trim() == "define" && w[3].0 == "(" {
            fn_macros.push(w[2].0.trim().to_string());
        }
    }
    let mut line_of = Vec::new();
    let mut ln = 0usize;
    for t in &toks {
        ln += t.0.chars().take_while(|c| c.is_whitespace()).filter(|c| *c == '\n').count();
        line_of.push(ln);
    }
    let macro_lines: std::collections::BTreeSet<usize> =
        toks.iter().enumerate().filter(|(_, t)| !t.1 && fn_macros.iter().any(|m| m == t.0.trim())).map(|(i, _)| line_of[i]).collect();
    let n = rng.range(1, 6);
    let mut ins: Vec<(usize, &str)> = Vec::new();
    for _ in 0..n {
        let g = rng.range(1, toks.len() as i64 - 1) as usize;
        let (name, text) = *rng.pick(DECOS);
        let tok = &toks[g];
        let has_ws = tok.0.chars().next().map(|c| c.is_whitespace()).unwrap_or(false);
        let prev_directive = toks[g - 1].1;
        // a decoration with a newline cannot go inside a directive line
        if (tok.1 || prev_directive) && text.contains('\n') {
            continue;
        }
        if text.contains('\n') && macro_lines.contains(&line_of[g]) {
            continue;
        }
        if tok.1 {
            // inside a directive: not between '#' and its keyword (recorded finding
            // blank_after_hash), and not between a macro's name and its '(' in a #define,
            // where white space changes the meaning in C as well
            if tok.2 < 2 || (tok.3 && tok.2 == 3) {
                continue;
            }
        }
        // pure-comment decorations vanish: only where white space already separates the tokens
        // or where the neighbours are not both words
        let prev_word = toks[g - 1].0.chars().last().map(|c| c.is_ascii_alphanumeric() || c == '_').unwrap_or(false);
        let next_word = tok.0.trim_start().chars().next().map(|c| c.is_ascii_alphanumeric() || c == '_').unwrap_or(false);
        if !has_ws && prev_word && next_word {
            continue;
        }
        // `type name` pairs live in compound-atomic grammar rules: splitting "unsigned char" by a
        // newline-free comment is fine because the blank stays
        ins.push((g, text));
        used.push(name.to_string());
    }
    ins.sort_by_key(|x| x.0);
    let mut out = String::new();
    let mut k = 0;
    for (i, t) in toks.iter().enumerate() {
        while k < ins.len() && ins[k].0 == i {
            // keep the existing white space, then the decoration, then the token
            let ws: String = t.0.chars().take_while(|c| c.is_whitespace()).collect();
            out.push_str(&ws);
            out.push_str(ins[k].1);
            k += 1;
        }
        out.push_str(&t.0);
    }
    out
}

fn strip_listing(text: &str) -> String {
    // remove comment lines and cycle annotations
    let mut s = String::new();
    for l in text.lines() {
        if l.starts_with(';') {
            continue;
        }
        let l2 = match l.find("\t; ") {
            Some(i) if !l.contains(";@I") => &l[..i],
            _ => l,
        };
        s.push_str(l2.trim_end());
        s.push('\n');
    }
    s
}

fn record(o: &Outcome) -> String {
    match o {
        Outcome::Ok(obs) => {
            let mut s = String::new();
            for v in &obs.vars {
                s.push_str(&format!("{:?}\n", v));
            }
            for f in &obs.funcs {
                s.push_str(&format!("{} inline={} bank={} size={:?}\n{}", f.name, f.inline, f.bank, f.size_bytes, strip_listing(&f.text.clone().unwrap_or_default())));
            }
            s.push_str(&format!("{:?}{:?}", obs.call_tree, obs.in_use));
            for a in &obs.asm_includes {
                // assembler text: one instruction per line, blanks and comments are not content
                for l in a.lines() {
                    let l = l.split(';').next().unwrap_or("").trim();
                    if !l.is_empty() {
                        s.push_str(&format!("\nasm| {}", l.split_whitespace().collect::<Vec<_>>().join(" ")));
                    }
                }
            }
            s
        }
        Outcome::Err(e) => format!("Err {} {}", e.kind, e.msg),
        Outcome::Panic { site, msg } => format!("Panic {} {}", site, msg),
    }
}

const LIT_SEEDS: &[&str] = &[
    // deferred ++ / -- in conditions, Y-indexed through a pointer: statement-boundary bookkeeping that listing options must not disturb
    "unsigned char i, j, k, n;\nunsigned char arr[8];\nchar *p;\nvoid main() {\n  p = arr;\n  if (i++ == 0) j = i;\n  if (p[Y++]) k = Y;\n  while (n--) { j += n; }\n  for (i = 0; i != 3; i++) { if (arr[X]++ == 2) continue; k = arr[X]; }\n  do { k--; } while (k-- > 3);\n}\n",
    "const char s0[] = \"a // b /* c */ d\";\nconst char s1[] = \"x\\\"y\"; const char s2[] = \"#if 0\";\nchar *p;\nunsigned char a;\nvoid main() { p = \"lit /* in */ code\"; a = 'c'; asm(\"NOP ; // asm\", 1); }\n",
    "#define N 3\n#define SQ(x) ((x)*(x))\nunsigned char t[N];\nunsigned char i;\n#if N\nunsigned char on;\n#else\nunsigned char off;\n#endif\nvoid main() { for (i = 0; i != N; i++) t[i] = SQ(2) + N; }\n",
    "aligned(256) const char tab[4] = {1, 2, 3, 4};\nsuperchip unsigned char sc[4];\nunsigned short us;\nsigned char sg;\nshort int si;\nvoid interrupt nmi() { sg++; }\ninline void f() { us++; }\nvoid main() { f(); si = sg; sc[X] = tab[X]; }\n",
];

fn judge(kind: &str, idx: u64, src: &str, base_opts: &Opts, sig: Option<String>) -> CaseResult {
    let mut res = CaseResult::new("", hash_str(src) ^ idx);
    let plain = compile_src(src, base_opts);
    let rec0 = record(&plain);
    let mut rng = Rng::for_case("C11deco", idx);
    let accepted = matches!(plain, Outcome::Ok(_));
    let mut viol = |res: &mut CaseResult, why: String, variant: &str| {
        res.class = "decoration / option changed the result".into();
        res.violate(
            &sig.clone().unwrap_or(format!("C11:{}:{}", kind, idx)),
            &format!("C11: {}\n--- plain source\n{}\n--- variant\n{}", why, src, variant),
            json!({"kind": kind, "idx": idx, "source": src, "variant": variant, "why": why}),
        );
    };
    for vi in 0..6 {
        let mut used = Vec::new();
        let mut deco = decorate(src, &mut rng, &mut used);
        if vi == 5 {
            deco = deco.replace('\n', "\r\n");
            used.push("CR-LF line ends".into());
        }
        if deco == src {
            continue;
        }
        let o = compile_src(&deco, base_opts);
        res.count("comparisons", 1);
        res.count("decorated variants compared", 1);
        for u in &used {
            res.set("decoration kinds applied", u);
        }
        let rec1 = record(&o);
        if rec1 != rec0 {
            let d = rec0.lines().zip(rec1.lines()).find(|(a, b)| a != b).map(|(a, b)| format!("plain: {}\ndecorated: {}", trunc(a, 200), trunc(b, 200))).unwrap_or_else(|| format!("{} / {}", plain.short(), o.short()));
            viol(&mut res, format!("decorations {:?} changed the outcome ({} -> {})\n{}", used, plain.short(), o.short(), d), &deco);
            return res;
        }
        if accepted {
            res.nontrivial = true;
        }
    }
    // listing / warning options
    if accepted {
        for (name, f) in [
            ("--insert-code", Box::new(|o: &mut Opts| o.insert_code = true) as Box<dyn Fn(&mut Opts)>),
            ("-W all", Box::new(|o: &mut Opts| o.warnings = vec!["all".into()])),
            ("--insert-code -W perf", Box::new(|o: &mut Opts| {
                o.insert_code = true;
                o.warnings = vec!["perf".into()];
            })),
        ] {
            for lvl in [0u8, 1] {
                let mut o0 = base_opts.clone();
                o0.opt_level = lvl;
                let mut o1 = o0.clone();
                f(&mut o1);
                let oa = compile_src(src, &o0);
                let ob = compile_src(src, &o1);
                let a = record(&oa);
                let b = record(&ob);
                res.count("comparisons", 1);
                res.count("option variants compared", 1);
                res.set("option sets", &format!("{} at -O{}", name, lvl));
                if a != b {
                    // listing comments sit between instructions and may make the peephole pass miss
                    // a rewrite: that is allowed; declarations and behaviour must still be equal
                    let decl = |o: &Outcome| o.ok().map(|x| format!("{:?}", x.vars)).unwrap_or_default();
                    let mut co_why = String::new();
                    let same_behaviour = match (oa.ok(), ob.ok()) {
                        (Some(x), Some(y)) if lvl > 0 && decl(&oa) == decl(&ob) => match crate::common::coexec_equal(x, y, 6, idx) {
                            Ok(n) => {
                                res.count("listing x optimiser: differing text co-executed equal", n);
                                true
                            }
                            Err(e) => {
                                co_why = e;
                                false
                            }
                        },
                        _ => false,
                    };
                    if !same_behaviour {
                        let d = a.lines().zip(b.lines()).find(|(x, y)| x != y).map(|(x, y)| format!("without: {}\nwith: {}", trunc(x, 200), trunc(y, 200))).unwrap_or_default();
                        viol(&mut res, format!("option {} at -O{} changed declarations, instructions (-O0) or behaviour (-O1)\n{}\n{}", name, lvl, d, co_why), src);
                        return res;
                    }
                }
            }
        }
    }
    res.class = if accepted { "accepted; decorations and listing options change nothing".into() } else { format!("refused identically with and without decoration: {}", crate::common::outcome_class(&plain)) };
    if idx % 997 == 0 {
        let mut used = Vec::new();
        let mut r2 = Rng::for_case("C11sample", idx);
        res.sample = Some(json!({"kind": kind, "idx": idx, "decorated example": decorate(src, &mut r2, &mut used)}));
    }
    res
}


/// Function sequences: every function ends with a statement after which the generator's flag /
/// register bookkeeping describes some variable, and the next one starts with a test of a
/// variable or register.  What a listing option appends to the code buffer must not decide whether
/// that bookkeeping is carried across the function boundary.
pub fn fnseq_source(idx: u64) -> String {
    let mut rng = Rng::for_case("C11fnseq", idx);
    let vars = ["g0", "g1", "g2"];
    let mut s = String::from("unsigned char g0, g1, g2, r, q;\nsigned char sg;\nunsigned short w;\n");
    let nf = 2 + rng.below(3) as usize;
    let mut names = Vec::new();
    let mut last_var = vars[rng.below(3) as usize];
    for f in 0..nf {
        let v = if rng.chance(2, 3) { last_var } else { vars[rng.below(3) as usize] };
        let k = rng.below(4);
        let first = match rng.below(9) {
            0 => format!("if ({}) r = {};", v, k + 1),
            1 => format!("if (!{}) r = {};", v, k + 1),
            2 => format!("if ({} == 0) r = {}; else q = {};", v, k + 1, k),
            3 => format!("r = {} ? {} : {};", v, k + 1, k + 5),
            4 => format!("while ({}) {{ {}--; q++; if (q == 9) break; }}", v, v),
            5 => format!("if (X) r = {};", k + 1),
            6 => format!("if (Y == 0) r = {};", k + 1),
            7 => format!("if (sg < 0) r = {};", k + 1),
            _ => format!("if ({} != {}) r = {};", v, k, k + 1),
        };
        let mid = match rng.below(4) {
            0 => String::new(),
            1 => format!(" q = q + {};", k),
            2 => format!(" w = w + {};", 250 + k),
            _ => format!(" if (r > {}) q = 0;", k),
        };
        let lv = vars[rng.below(3) as usize];
        let last = match rng.below(10) {
            0 => format!("{} = {} - 1;", lv, lv),
            1 => format!("{}++;", lv),
            2 => format!("{}--;", lv),
            3 => format!("{} = {} & {};", lv, vars[rng.below(3) as usize], 0x0f << (k & 1)),
            4 => format!("X = {};", lv),
            5 => format!("Y = {}; Y--;", lv),
            6 => format!("{} |= {};", lv, k),
            7 => format!("sg = {} - {};", lv, k + 100),
            8 => format!("X++;"),
            _ => format!("{} = {};", lv, k),
        };
        last_var = lv;
        let inline = if f + 1 < nf && rng.chance(1, 5) { "inline " } else { "" };
        s.push_str(&format!("{}void f{}() {{ {}{} {} }}\n", inline, f, first, mid, last));
        names.push(format!("f{}", f));
    }
    // main starts with a test too (it follows the last function), and calls every function after
    // a load that leaves other flags than the ones the callee's first test needs
    s.push_str(&format!("void main() {{ if ({}) q = 1;", last_var));
    for n in &names {
        let k = rng.below(3);
        match rng.below(4) {
            0 => s.push_str(&format!(" r = 0; {}();", n)),
            1 => s.push_str(&format!(" q = {}; {}();", k + 1, n)),
            2 => s.push_str(&format!(" X = {}; {}();", k, n)),
            _ => s.push_str(&format!(" w = {}; {}();", k * 256, n)),
        }
    }
    s.push_str(" }\n");
    s
}


fn incl_dir() -> String {
    let d = format!("/verif/work/c11inc/p{}", std::process::id());
    let _ = std::fs::create_dir_all(&d);
    d
}

/// Sources made of several files: a comment (with //, quotes, URLs, directive text) after an
/// #include on the same line, and comments inside included headers and included assembler
/// files.  Plain and decorated versions must give the same record.
fn incl_case(idx: u64) -> CaseResult {
    let mut rng = Rng::for_case("C11incl", idx);
    let dir = incl_dir();
    const CMT: [&str; 8] = [
        "/* defs, see http://example.com/h.h */",
        "/* a // b */",
        "/* \"quoted\" // and 'c' */",
        "/* #define START 9 // not a directive */",
        "/**/",
        "/* one */ /* two // three */",
        "// line comment with /* inside",
        "/* ends here */ // tail */",
    ];
    let c = |rng: &mut Rng| CMT[rng.below(CMT.len() as u64) as usize];
    let hdr_plain = "unsigned char hv;\n#define HK 7\nunsigned char hw;\n";
    let hdr_deco = format!("unsigned char hv; {}\n#define HK 7\n{}\nunsigned char hw;\n", c(&mut rng), c(&mut rng));
    let asm_plain = "tabdata\n\t.byte 1, 2, 3\n\tLDA #5\n\tSTA hv\n\tRTS\n";
    let asm_deco = format!("tabdata {}\n\t.byte 1, 2, 3\n\tLDA #5 {}\n\tSTA hv\n{}\n\tRTS\n", c(&mut rng), c(&mut rng), c(&mut rng));
    let with_asm = rng.chance(1, 2);
    let k = rng.below(200);
    let body = format!(
        "#define START {}\n/* fall back when the configuration does not say otherwise */\n#ifndef START\n#define START 0\n#endif\nunsigned char after;\nvoid main() {{ hv = START; hw = HK; after = {}; }}\n",
        k, k % 7
    );
    let inc_asm = if with_asm { "#include \"t.inc\"" } else { "" };
    let plain = format!("#include \"hp.h\"\n{}\n{}", inc_asm.replace("t.inc", "tp.inc"), body);
    let lead = ["", "  ", "\t", "/* first */ ", " /* a // b */ "][rng.below(5) as usize];
    let deco = format!("{}#include \"hd.h\" {}\n{} {}\n{}", lead, c(&mut rng), inc_asm.replace("t.inc", "td.inc"), if with_asm { c(&mut rng) } else { "" }, body);
    // which files are decorated: the including line only, or the included files too
    let deco_files = rng.chance(2, 3);
    let _ = std::fs::write(format!("{}/hp.h", dir), hdr_plain);
    let _ = std::fs::write(format!("{}/hd.h", dir), if deco_files { hdr_deco.as_str() } else { hdr_plain });
    let _ = std::fs::write(format!("{}/tp.inc", dir), asm_plain);
    let _ = std::fs::write(format!("{}/td.inc", dir), if deco_files { asm_deco.as_str() } else { asm_plain });
    let mut o = Opts::default();
    o.include_dirs = vec![dir.clone()];
    o.opt_level = (idx % 2) as u8;
    let a = compile_src(&plain, &o);
    let b = compile_src(&deco, &o);
    let norm = |s: String| s.replace("tp.inc", "t.inc").replace("td.inc", "t.inc");
    let (ra, rb) = (norm(record(&a)), norm(record(&b)));
    let mut res = CaseResult::new("", hash_str(&deco) ^ hash_str(&hdr_deco) ^ hash_str(&asm_deco) ^ idx);
    res.count("comparisons", 1);
    res.count("multi-file variants compared", 1);
    if !matches!(a, Outcome::Ok(_)) {
        res.class = format!("plain multi-file source refused: {}", crate::common::outcome_class(&a));
        return res;
    }
    res.nontrivial = true;
    if with_asm {
        res.count("included assembler files compared", 1);
    }
    if ra != rb {
        let d = ra.lines().zip(rb.lines()).find(|(x, y)| x != y).map(|(x, y)| format!("plain: {}\ndecorated: {}", trunc(x, 200), trunc(y, 200))).unwrap_or_else(|| format!("{} / {}", a.short(), b.short()));
        res.class = "decoration / option changed the result".into();
        res.violate(
            &format!("C11:incl:{}", idx),
            &format!("C11: comments after #include / inside included files changed the outcome ({} -> {})\n{}\n--- decorated main file\n{}\n--- decorated header\n{}\n--- decorated assembler file\n{}", a.short(), b.short(), d, deco, if deco_files { hdr_deco.as_str() } else { hdr_plain }, if deco_files { asm_deco.as_str() } else { asm_plain }),
            json!({"kind": "incl", "idx": idx, "source": plain, "variant": deco, "why": d}),
        );
        return res;
    }
    res.class = "accepted; decorations and listing options change nothing".into();
    res
}

pub fn c11_pins() -> Vec<(&'static str, &'static str, &'static str)> {
    vec![
        ("url_in_block_comment", "unsigned char a;\nvoid main() { a = 1; }\n", "unsigned char a; /* see http://a.b/c */\nvoid main() { a = 1; }\n"),
        ("blank_inside_aligned", "aligned(256) const char t[2] = {1, 2};\nvoid main() {}\n", "aligned( 256 ) const char t[2] = {1, 2};\nvoid main() {}\n"),
        ("blank_before_macro_arguments", "#define SQ(x) ((x)+1)\nunsigned char a;\nvoid main() { a = SQ(2); }\n", "#define SQ(x ) ((x)+1)\nunsigned char a;\nvoid main() { a = SQ  (2); }\n"),
        ("macro_call_across_lines", "#define SQ(x) ((x)+1)\nunsigned char a;\nvoid main() { a = SQ(2); }\n", "#define SQ(x) ((x)+1)\nunsigned char a;\nvoid main() { a = SQ\n  (2); }\n"),
        ("ifdef_extra_blanks", "#define TURBO 1\n#ifdef TURBO\nunsigned char boost;\n#endif\n#ifndef TURBO\nunsigned char slow;\n#endif\nvoid main() { }\n", "#define TURBO 1\n#ifdef   TURBO\nunsigned char boost;\n#endif\n#ifndef  TURBO\nunsigned char slow;\n#endif\nvoid main() { }\n"),
        ("ifdef_comment_before_name", "#define TURBO 1\nunsigned char s;\n#ifdef TURBO\nunsigned char boost;\n#endif\nvoid main() { s = 1; }\n", "#define TURBO 1\nunsigned char s;\n#ifdef /* fast build */ TURBO\nunsigned char boost;\n#endif /* TURBO */\nvoid main() { s = 1; }\n"),
        ("comment_glues_tokens", "unsigned char a;\nvoid main() { a = 1; }\n", "unsigned/**/char a;\nvoid main() { a = 1; }\n"),
        ("do_without_a_blank", "unsigned char i;\nvoid main() { i = 0; do { i++; } while (i != 3); }\n", "unsigned char i;\nvoid main() { i = 0; do{ i++; } while(i != 3); }\n"),
        ("blank_after_hash", "#define N 3\nunsigned char t[N];\nvoid main() {}\n", "# define N 3\nunsigned char t[N];\nvoid main() {}\n"),
    ]
}

impl Monitor for C11 {
    fn id(&self) -> &'static str {
        "C11"
    }
    fn level(&self) -> &'static str {
        "exploration"
    }
    fn rule(&self) -> String {
        "base sources (random, hardware-register, label-stress corpus programs and hand-written seeds with string literals, directives, macros and \
         every declaration qualifier) are decorated 6 times each: 1-6 insertions, between tokens, of block comments (with quotes, //, /*, URLs, directive \
         text, '* /', stars, empty, multi-line), line comments (with /*, quotes, */), blank lines, tabs, blanks, single and double splices, and CR-LF \
         line ends; the record (declarations + emitted instructions with comment lines and cycle annotations stripped + call tree) must equal the \
         plain one. Then --insert-code, -W all, --insert-code -W perf at -O0 and -O1 are compared with the plain options the same way. \
         non-trivial = accepted and at least one decorated variant compared"
            .into()
    }
    fn assumptions(&self) -> Vec<String> {
        vec![
            "a comment is only inserted where the neighbouring tokens stay separated (C replaces a comment by one blank; the preprocessor removes it)".into(),
            "newline-bearing decorations are not inserted inside preprocessor directive lines".into(),
        ]
    }
    fn plan(&self, tier: &Tier, seed: u64) -> Vec<Chunk> {
        let np = c11_pins().len() as u64;
        let mut v = split_chunks("pin", 0, np, np, 1);
        let n = match tier {
            Tier::Quick => 4_000,
            Tier::Thorough => 30_000,
        };
        for k in ["rand", "hw", "stress", "wild"] {
            v.extend(split_chunks(k, seed_offset(seed, &format!("C11{}", k), pool_len(k)), n, pool_len(k), 50));
        }
        v.extend(split_chunks("seed", seed_offset(seed, "C11s", 30_000), n * 2, 30_000, 50));
        v.extend(split_chunks("fnseq", seed_offset(seed, "C11f", 100_000), n, 100_000, 50));
        v.extend(split_chunks("incl", seed_offset(seed, "C11i", 100_000), n / 2, 100_000, 50));
        v
    }
    fn run_case(&self, kind: &str, idx: u64) -> CaseResult {
        match kind {
            "pin" => {
                let (name, plain, deco) = c11_pins()[idx as usize];
                let mut res = CaseResult::new("", hash_str(deco));
                let a = record(&compile_src(plain, &Opts::default()));
                let b = record(&compile_src(deco, &Opts::default()));
                res.nontrivial = true;
                res.count("comparisons", 1);
                if a != b {
                    res.class = "pinned witness: violated".into();
                    res.violate(
                        &format!("pin:{}", name),
                        &format!("C11 pinned witness '{}': the decorated source compiles differently\n--- plain\n{}\n--- decorated\n{}", name, plain, deco),
                        json!({"kind": "pin", "name": name, "source": plain, "variant": deco}),
                    );
                } else {
                    res.class = "pinned witness: held".into();
                }
                res
            }
            "incl" => incl_case(idx),
            "fnseq" => judge(kind, idx, &fnseq_source(idx), &Opts::default(), None),
            "seed" => {
                let src = LIT_SEEDS[(idx % LIT_SEEDS.len() as u64) as usize];
                judge(kind, idx, src, &Opts::default(), None)
            }
            _ => {
                let (p, o) = corpus_program(kind, idx);
                judge(kind, idx, &print_program(&p), &o, None)
            }
        }
    }
    fn thresholds(&self, _tier: &Tier) -> Vec<(String, u64)> {
        vec![
            ("distinct_nontrivial".into(), 2000),
            ("set:decoration kinds applied".into(), 20),
            ("option variants compared".into(), 5000),
            ("multi-file variants compared".into(), 500),
            ("included assembler files compared".into(), 200),
        ]
    }
}
