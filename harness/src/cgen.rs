// Seeded generators of programs in the C subset.  Every generator is a pure function of
// (profile, index).  The programs are free of C undefined/unspecified behaviour by
// construction (no object modified and otherwise accessed between sequence points, locals
// initialised before use, bounded loops); indexes are in range by construction or masked, and
// the reference interpreter discards the rare input vector that still leaves the defined domain.

use crate::cmodel::*;
use crate::util::Rng;

#[derive(Clone, Debug)]
pub struct GenCfg {
    pub max_funcs: usize,
    pub stmts: (usize, usize),
    pub max_depth: usize,
    pub nest: usize,
    pub signed_vars: bool,
    pub shorts: bool,
    pub arrays: bool,
    pub ptrs: bool,
    pub calls: bool,
    pub inline: bool,
    pub gotos: bool,
    pub switches: bool,
    pub loops: bool,
    pub ternary: bool,
    pub comma: bool,
    pub embedded_side_effects: bool,
    /// explicit statements (load/store/strobe/asm/csleep) for C18
    pub hw: bool,
    /// memory classes for globals: probability (out of 8) that a RAM global is split-port
    pub split_mem: u8,
    pub scheme_3e: bool,
    /// refused/"too complex" shapes offered on purpose at this rate (out of 100)
    pub hard_shapes: u8,
    /// known-defect families that the generator must not wander into (see known_findings.json)
    pub excl_incdec_in_condition: bool,
    pub excl_two_calls: bool,
    pub excl_signed_relational: bool,
    pub excl_short_general_shift: bool,
    pub excl_eq_rel_chain: bool,
    /// C12 profile: calls also inside conditions, arguments, loop headers (semantics are not judged there)
    pub calls_everywhere: bool,
    pub interrupt_handler: bool,
    pub prototypes: bool,
    /// C18 profile: explicit hardware statements are frequent
    pub hw_dense: bool,
    /// structure-only profile (C03 source kind, C04, C13, C12 static, C05, C11): every rule that
    /// keeps the random pools out of the recorded C01 families is lifted, and shapes the safe
    /// domain never offers are added (nested subscripts, ++/-- in conditions, read-modify-write
    /// on short-array elements, general 16-bit right-hand sides).  Programs of this profile are
    /// never judged on what they compute.
    pub wild: bool,
}

impl Default for GenCfg {
    fn default() -> Self {
        GenCfg {
            max_funcs: 3,
            stmts: (2, 7),
            max_depth: 3,
            nest: 2,
            signed_vars: true,
            shorts: true,
            arrays: true,
            ptrs: true,
            calls: true,
            inline: true,
            gotos: true,
            switches: true,
            loops: true,
            ternary: true,
            comma: true,
            embedded_side_effects: true,
            hw: false,
            split_mem: 0,
            scheme_3e: false,
            hard_shapes: 5,
            excl_incdec_in_condition: true,
            excl_two_calls: false,
            excl_signed_relational: true,
            excl_short_general_shift: true,
            excl_eq_rel_chain: true,
            calls_everywhere: false,
            interrupt_handler: false,
            prototypes: false,
            hw_dense: false,
            wild: false,
        }
    }
}

#[derive(Clone, Copy, PartialEq, Eq, Debug)]
enum W {
    W8,
    W16,
}

struct FnCtx {
    idx: usize,
    locals: Vec<VarId>,  // visible, initialised local scalars
    protected: Vec<LV>,  // loop counters etc. that statements must not modify
    loop_depth: usize,
    in_switch: usize,
    label_n: usize,
    x_lt: usize, // X known < x_lt (0 = unknown)
    y_lt: usize,
    top_level: bool,
}

pub struct Gen<'a> {
    pub rng: Rng,
    pub cfg: &'a GenCfg,
    pub p: Program,
    g8: Vec<VarId>,
    gi8: Vec<VarId>,
    g16: Vec<VarId>,
    arrs: Vec<VarId>,  // RAM char arrays
    tabs: Vec<VarId>,  // const tables
    sarrs: Vec<VarId>, // short arrays
    scarrs: Vec<VarId>, // signed char arrays / tables (4 elements)
    ptrs: Vec<VarId>,
    hw: Vec<VarId>,
    sink: Option<VarId>,
    callable: Vec<usize>,
    calls_in_expr: usize,
    asm_n: usize,
    st_in_cond: bool,
    st_no_y: bool,
    st_used_y: bool,
    st_used_deref: bool,
    st_top: bool,
    st_scratch_ok: bool,
    st_no_calls: bool,
    fc: FnCtx,
}

pub const ARR_LEN: usize = 8;

impl<'a> Gen<'a> {
    pub fn new(rng: Rng, cfg: &'a GenCfg) -> Gen<'a> {
        Gen {
            rng,
            cfg,
            p: Program::default(),
            g8: vec![],
            gi8: vec![],
            g16: vec![],
            arrs: vec![],
            tabs: vec![],
            sarrs: vec![],
            scarrs: vec![],
            ptrs: vec![],
            hw: vec![],
            sink: None,
            callable: vec![],
            calls_in_expr: 0,
            asm_n: 0,
            st_in_cond: false,
            st_no_y: false,
            st_used_y: false,
            st_used_deref: false,
            st_top: true,
            st_scratch_ok: false,
            st_no_calls: false,
            fc: FnCtx {
                idx: 0,
                locals: vec![],
                protected: vec![],
                loop_depth: 0,
                in_switch: 0,
                label_n: 0,
                x_lt: 0,
                y_lt: 0,
                top_level: true,
            },
        }
    }

    fn add_var(&mut self, name: String, kind: VarKind, mem: MemClass, scope: Scope) -> VarId {
        self.p.vars.push(VarDecl { name, kind, mem, scope });
        self.p.vars.len() - 1
    }

    fn mem_class(&mut self) -> MemClass {
        if self.cfg.split_mem > 0 && self.rng.below(8) < self.cfg.split_mem as u64 {
            if self.cfg.scheme_3e {
                MemClass::Bank(1)
            } else {
                MemClass::Superchip
            }
        } else {
            MemClass::Zp
        }
    }

    pub fn globals(&mut self) {
        let n8 = self.rng.range(3, 5) as usize;
        for i in 0..n8 {
            let m = self.mem_class();
            let v = self.add_var(format!("g{}", i), VarKind::Scalar(Ty::U8), m, Scope::Global);
            self.g8.push(v);
        }
        if self.cfg.signed_vars {
            let n = self.rng.range(0, 2) as usize;
            for i in 0..n {
                let m = self.mem_class();
                let v = self.add_var(format!("sc{}", i), VarKind::Scalar(Ty::I8), m, Scope::Global);
                self.gi8.push(v);
            }
        }
        if self.cfg.shorts {
            let n = self.rng.range(1, 3) as usize;
            for i in 0..n {
                let t = if self.rng.chance(1, 2) { Ty::I16 } else { Ty::U16 };
                let m = self.mem_class();
                let v = self.add_var(format!("s{}", i), VarKind::Scalar(t), m, Scope::Global);
                self.g16.push(v);
            }
        }
        if self.cfg.arrays {
            let n = self.rng.range(1, 2) as usize;
            for i in 0..n {
                let m = self.mem_class();
                let v = self.add_var(format!("arr{}", i), VarKind::Array(Ty::U8, ARR_LEN), m, Scope::Global);
                self.arrs.push(v);
            }
            if self.rng.chance(2, 3) {
                let vals: Vec<i32> = (0..ARR_LEN).map(|_| self.rng.bbyte() as i32).collect();
                let v = self.add_var("tab0".into(), VarKind::ConstTab(Ty::U8, vals), MemClass::Zp, Scope::Global);
                self.tabs.push(v);
            }
            if self.cfg.shorts && self.rng.chance(1, 3) {
                let m = self.mem_class();
                let v = self.add_var("sa0".into(), VarKind::Array(Ty::I16, 4), m, Scope::Global);
                self.sarrs.push(v);
            }
            if self.cfg.shorts && self.cfg.signed_vars && self.rng.chance(1, 3) {
                // signed char elements, read only where they are widened to 16 bits
                if self.rng.chance(1, 2) {
                    let v = self.add_var("sca0".into(), VarKind::Array(Ty::I8, 4), MemClass::Zp, Scope::Global);
                    self.scarrs.push(v);
                } else {
                    let vals: Vec<i32> = (0..4).map(|_| self.rng.bbyte() as i8 as i32).collect();
                    let v = self.add_var("stab0".into(), VarKind::ConstTab(Ty::I8, vals), MemClass::Zp, Scope::Global);
                    self.scarrs.push(v);
                }
            }
        }
        if self.cfg.ptrs && !self.ptr_targets().is_empty() && self.rng.chance(1, 2) {
            let v = self.add_var("p0".into(), VarKind::Ptr, MemClass::Zp, Scope::Global);
            self.ptrs.push(v);
        }
        if self.rng.chance(1, 3) {
            let val = self.rng.bbyte() as i32;
            let v = self.add_var("K0".into(), VarKind::ConstVal(Ty::U8, val), MemClass::Zp, Scope::Global);
            self.g8.push(v); // readable like a char (never assigned: see is_assignable)
        }
        if self.cfg.hw {
            for (i, a) in [0x02u16, 0x10, 0x1b, 0x0280].iter().enumerate() {
                let v = self.add_var(format!("HW{}", i), VarKind::HwReg(*a), MemClass::Zp, Scope::Global);
                self.hw.push(v);
            }
            // a read-only register right at the zero-page / absolute boundary (instruction sizes)
            let a4 = *self.rng.pick(&[0xffu16, 0x100, 0x101, 0x7f]);
            let v = self.add_var("HW4".into(), VarKind::HwReg(a4), MemClass::Zp, Scope::Global);
            self.hw.push(v);
            // receives ordinary reads of the strobe / store targets; never read, never compared
            self.sink = Some(self.add_var("sink".into(), VarKind::Scalar(Ty::U8), MemClass::Zp, Scope::Global));
        }
    }

    /// arrays a pointer may be given: accesses through a pointer cannot choose between the read
    /// and the write port of cartridge RAM (known finding pointer_into_split_port_ram)
    fn ptr_targets(&self) -> Vec<VarId> {
        self.arrs.iter().cloned().filter(|a| self.p.vars[*a].mem == MemClass::Zp).collect()
    }

    fn is_const(&self, v: VarId) -> bool {
        matches!(self.p.vars[v].kind, VarKind::ConstVal(..) | VarKind::ConstTab(..))
    }

    // ---------------------------------------------------------------- leaves

    fn scalars8(&self, signed_too: bool) -> Vec<VarId> {
        let mut v: Vec<VarId> = self.g8.clone();
        for l in &self.fc.locals {
            if let VarKind::Scalar(t) = self.p.vars[*l].kind {
                if t == Ty::U8 || (signed_too && t == Ty::I8) {
                    v.push(*l);
                }
            }
        }
        if signed_too {
            v.extend(self.gi8.iter());
        }
        v
    }

    fn scalars16(&self) -> Vec<VarId> {
        let mut v = self.g16.clone();
        for l in &self.fc.locals {
            if let VarKind::Scalar(t) = self.p.vars[*l].kind {
                if t.bits() == 16 {
                    v.push(*l);
                }
            }
        }
        v
    }

    fn const8(&mut self) -> Expr {
        let n = self.rng.bbyte() as i32;
        if self.rng.chance(1, 6) {
            Expr::Hex(n)
        } else {
            Expr::Num(n)
        }
    }

    fn const16(&mut self) -> Expr {
        const B: [i32; 10] = [0, 1, 0xff, 0x100, 0x101, 0x7fff, 0x1234, 300, 1000, 0x00ff];
        let n = if self.rng.chance(1, 2) { *self.rng.pick(&B) } else { self.rng.below(0x8000) as i32 };
        if n > 255 && self.rng.chance(1, 3) {
            Expr::Hex(n)
        } else {
            Expr::Num(n)
        }
    }

    /// index expression guaranteed in [0, len)
    fn index(&mut self, len: usize, allow_var: bool) -> Expr {
        let r = self.rng.below(10);
        if r < 3 {
            return Expr::Num(self.rng.below(len as u64) as i32);
        }
        if r < 6 && self.fc.x_lt > 0 && self.fc.x_lt <= len {
            return Expr::Lv(LV::X);
        }
        if r < 8 && self.fc.y_lt > 0 && self.fc.y_lt <= len && !self.st_no_y {
            self.st_used_y = true;
            return Expr::Lv(LV::Y);
        }
        // R5: an index that is an expression goes through the Y-save path; inside a condition the
        // restore is skipped on the taken branch (known finding ysave_in_condition)
        if self.cfg.wild && r >= 8 && self.rng.chance(1, 3) && (!self.arrs.is_empty() || !self.tabs.is_empty()) {
            // nested subscript: arr[other[Y]] / arr[other[X]] / arr[other[2]]
            let mut all = self.arrs.clone();
            all.extend(self.tabs.iter());
            let a = *self.rng.pick(&all);
            let i = match self.rng.below(3) {
                0 => Expr::Lv(LV::X),
                1 => Expr::Lv(LV::Y),
                _ => Expr::Num(self.rng.below(4) as i32),
            };
            return Expr::Lv(LV::Idx(a, Box::new(i)));
        }
        if allow_var && r == 8 && (self.cfg.wild || (self.st_scratch_ok && !self.st_in_cond && !self.st_no_y && !self.st_used_deref && !self.st_used_y)) {
            let s = self.scalars8(false);
            if !s.is_empty() {
                let v = *self.rng.pick(&s);
                self.st_used_y = true;
                self.st_no_y = true;
                self.st_no_calls = true; // (and no call next to it: known finding y_scratch_with_call)
                self.st_scratch_ok = false; // one use of the Y scratch per statement
                if self.rng.chance(1, 2) && len == 256 {
                    return Expr::Lv(LV::Var(v));
                }
                return Expr::Bin(
                    BinOp::And,
                    Box::new(Expr::Lv(LV::Var(v))),
                    Box::new(Expr::Num(len as i32 - 1)),
                );
            }
        }
        Expr::Num(self.rng.below(len as u64) as i32)
    }

    fn arr_len(&self, v: VarId) -> usize {
        match &self.p.vars[v].kind {
            VarKind::Array(_, n) => *n,
            VarKind::ConstTab(_, vals) => vals.len(),
            _ => 1,
        }
    }

    fn leaf8(&mut self) -> Expr {
        let r = self.rng.below(100);
        if r < 40 {
            let st = self.cfg.signed_vars && self.rng.chance(1, 4);
            let s = self.scalars8(st);
            if !s.is_empty() {
                return Expr::Lv(LV::Var(*self.rng.pick(&s)));
            }
        }
        if r < 55 {
            return self.const8();
        }
        if r < 65 {
            if self.rng.chance(1, 2) {
                return Expr::Lv(LV::X);
            } else if self.cfg.wild || (!self.st_no_y && !self.st_used_deref) {
                self.st_used_y = true;
                return Expr::Lv(LV::Y);
            }
        }
        if r < 82 && (!self.arrs.is_empty() || !self.tabs.is_empty()) {
            let mut all = self.arrs.clone();
            all.extend(self.tabs.iter());
            let a = *self.rng.pick(&all);
            let len = self.arr_len(a);
            let i = self.index(len, true);
            return Expr::Lv(LV::Idx(a, Box::new(i)));
        }
        if r < 88 && !self.ptrs.is_empty() {
            let p = self.ptrs[0];
            if self.fc.y_lt > 0 && self.fc.y_lt <= ARR_LEN && self.rng.chance(2, 3) && !self.st_no_y && !self.st_used_deref {
                self.st_used_y = true;
                return Expr::Lv(LV::PtrIdx(p, Box::new(Expr::Lv(LV::Y))));
            }
            // R7: `*p` sets Y to 0 for the whole statement: never together with another use of Y
            // (known finding deref_with_y)
            if self.rng.chance(1, 3) && (self.cfg.wild || (self.st_scratch_ok && !self.st_used_y && !self.st_in_cond)) {
                self.st_used_deref = true;
                self.st_no_y = true;
                self.st_no_calls = true;
                self.st_scratch_ok = false;
                return Expr::Lv(LV::Deref(p));
            }
        }
        let s = self.scalars8(false);
        if s.is_empty() {
            self.const8()
        } else {
            Expr::Lv(LV::Var(*self.rng.pick(&s)))
        }
    }

    /// 16-bit leaf: short variable, constant, element of a short array
    fn leaf16(&mut self) -> Expr {
        let r = self.rng.below(100);
        let s = self.scalars16();
        if r < 60 && !s.is_empty() {
            return Expr::Lv(LV::Var(*self.rng.pick(&s)));
        }
        if r < 70 && !self.sarrs.is_empty() {
            let a = self.sarrs[0];
            let i = if self.cfg.wild && self.rng.chance(1, 2) {
                if self.rng.chance(1, 2) { Expr::Lv(LV::Y) } else { Expr::Lv(LV::X) }
            } else if self.fc.x_lt > 0 && self.fc.x_lt <= 4 {
                Expr::Lv(LV::X)
            } else {
                Expr::Num(self.rng.below(4) as i32)
            };
            return Expr::Lv(LV::Idx(a, Box::new(i)));
        }
        self.const16()
    }

    // ---------------------------------------------------------------- expressions (pure)

    fn is_signed8(&self, e: &Expr) -> bool {
        match e {
            Expr::Lv(LV::Var(v)) => matches!(self.p.vars[*v].kind, VarKind::Scalar(Ty::I8)),
            Expr::Paren(a) => self.is_signed8(a),
            Expr::Un(_, a) => self.is_signed8(a),
            Expr::Bin(op, a, b) => !op.is_cmp() && !op.is_logic() && (self.is_signed8(a) || self.is_signed8(b)),
            Expr::Cond(_, a, b) => self.is_signed8(a) || self.is_signed8(b),
            _ => false,
        }
    }
    fn is_signed16(&self, e: &Expr) -> bool {
        match e {
            Expr::Lv(LV::Var(v)) => matches!(self.p.vars[*v].kind, VarKind::Scalar(Ty::I16)),
            Expr::Lv(LV::Idx(v, _)) => matches!(self.p.vars[*v].kind, VarKind::Array(Ty::I16, _)),
            Expr::Paren(a) => self.is_signed16(a),
            Expr::Un(_, a) => self.is_signed16(a),
            Expr::Bin(op, a, b) => !op.is_cmp() && !op.is_logic() && (self.is_signed16(a) || self.is_signed16(b)),
            _ => false,
        }
    }
    fn has_signed(&self, e: &Expr) -> bool {
        self.is_signed8(e) || self.is_signed16(e)
    }

    /// R1: right-hand sides for a 16-bit destination.  The two-pass low/high lowering only
    /// handles operands whose high byte can be named directly (known finding
    /// wide_dest_narrow_expr covers everything else: calls, ?:, comparisons, unary ops and
    /// 8-bit arithmetic assigned to a short).
    fn expr16_safe(&mut self) -> Expr {
        if self.cfg.wild && self.rng.chance(1, 2) {
            return self.expr16_wild();
        }
        let r = self.rng.below(100);
        if r < 30 {
            return self.leaf16();
        }
        if r < 40 {
            // plain 8-bit variable: zero / sign extension
            let st = self.cfg.signed_vars && self.rng.chance(1, 3);
            let s = self.scalars8(st);
            if !s.is_empty() {
                return Expr::Lv(LV::Var(*self.rng.pick(&s)));
            }
        }
        if r < 46 {
            if !self.scarrs.is_empty() && self.rng.chance(1, 2) {
                // sign extension of an array element
                let a = self.scarrs[0];
                let i = match self.rng.below(3) {
                    0 if self.fc.x_lt > 0 && self.fc.x_lt <= 4 => Expr::Lv(LV::X),
                    1 if self.fc.y_lt > 0 && self.fc.y_lt <= 4 && !self.st_no_y => {
                        self.st_used_y = true;
                        Expr::Lv(LV::Y)
                    }
                    _ => Expr::Num(self.rng.below(4) as i32),
                };
                return Expr::Lv(LV::Idx(a, Box::new(i)));
            }
            return Expr::Lv(LV::X);
        }
        if r < 52 {
            // c << 8
            let s = self.scalars8(false);
            if !s.is_empty() {
                let v = *self.rng.pick(&s);
                if self.cfg.embedded_side_effects && self.rng.chance(1, 4) && !self.is_const(v) && !self.is_protected(&LV::Var(v)) {
                    // c++ << 8 : the operand of the shift is visited once per byte of the destination
                    self.note_write(&LV::Var(v), None);
                    let e = Expr::IncDec { lv: LV::Var(v), post: true, inc: self.rng.chance(1, 2) };
                    return Expr::Bin(BinOp::Shl, Box::new(e), Box::new(Expr::Num(8)));
                }
                return Expr::Bin(BinOp::Shl, Box::new(Expr::Lv(LV::Var(v))), Box::new(Expr::Num(8)));
            }
        }
        let op = *self.rng.pick(&[BinOp::Add, BinOp::Add, BinOp::Sub, BinOp::Sub, BinOp::And, BinOp::Or, BinOp::Xor]);
        let a = self.leaf16();
        let b = if self.rng.chance(1, 4) {
            let s = self.scalars8(false);
            if s.is_empty() { self.leaf16() } else { Expr::Lv(LV::Var(*self.rng.pick(&s))) }
        } else {
            self.leaf16()
        };
        Expr::Bin(op, Box::new(a), Box::new(b))
    }

    /// wild profile: any right-hand side for a 16-bit destination
    fn expr16_wild(&mut self) -> Expr {
        let a = self.leaf16();
        match self.rng.below(8) {
            0 => Expr::Un(if self.rng.chance(1, 2) { UnOp::BNot } else { UnOp::Neg }, Box::new(a)),
            1 => Expr::Bin(if self.rng.chance(1, 2) { BinOp::Shl } else { BinOp::Shr }, Box::new(a), Box::new(Expr::Num(self.rng.range(1, 9) as i32))),
            2 => {
                let c = self.cond(1);
                Expr::Bin(BinOp::Add, Box::new(c), Box::new(a))
            }
            3 => {
                let c = self.cond(1);
                let b = self.leaf16();
                Expr::Cond(Box::new(c), Box::new(a), Box::new(b))
            }
            4 => {
                self.st_top = false;
                let e = self.expr(W::W8, 2);
                Expr::Bin(*self.rng.pick(&[BinOp::Add, BinOp::Sub, BinOp::Or]), Box::new(a), Box::new(e))
            }
            5 => {
                self.st_top = false;
                self.expr(W::W8, 2)
            }
            6 => match self.call_expr(true) {
                Some(c) => c,
                None => a,
            },
            _ => {
                let b = self.leaf16();
                let c = self.leaf16();
                Expr::Bin(BinOp::Sub, Box::new(Expr::Bin(BinOp::Add, Box::new(a), Box::new(b))), Box::new(c))
            }
        }
    }

    pub fn expr(&mut self, w: W, depth: usize) -> Expr {
        if w == W::W16 {
            return self.expr16_safe();
        }
        let top = self.st_top;
        self.st_top = false;
        if depth == 0 || self.rng.chance(1, 4) {
            return self.leaf8();
        }
        let r = self.rng.below(100);
        if r < 55 {
            let op = *self.rng.pick(&[BinOp::Add, BinOp::Add, BinOp::Sub, BinOp::Sub, BinOp::And, BinOp::Or, BinOp::Xor]);
            // left-deep trees are what an accumulator machine digests; right-deep ones are offered
            // at a lower rate (they exercise the PHA / cctmp spill paths or get refused)
            let (dl, dr) = if self.rng.below(100) < 80 {
                (depth - 1, if self.rng.chance(1, 4) { depth - 1 } else { 0 })
            } else {
                (depth - 1, depth - 1)
            };
            let a = self.expr(w, dl);
            let mut b = self.expr(w, dr);
            if self.rng.chance(1, 12) && !self.st_in_cond {
                // a comparison computed without the accumulator (a register against a variable or
                // a constant) as right operand: the one part of family cond_value_in_arith that
                // is not broken
                let reg = if self.rng.chance(1, 2) { LV::X } else { LV::Y };
                if !(reg == LV::Y && (self.st_no_y || self.st_used_deref)) {
                    if reg == LV::Y {
                        self.st_used_y = true;
                    }
                    let rhs = if self.rng.chance(1, 2) { Expr::Num(self.rng.range(1, 255) as i32) } else { self.var_leaf8() };
                    let cop = *self.rng.pick(&[BinOp::Eq, BinOp::Ne, BinOp::Lt, BinOp::Ge]);
                    if !self.has_signed(&rhs) {
                        b = Expr::Paren(Box::new(Expr::Bin(cop, Box::new(Expr::Lv(reg)), Box::new(rhs))));
                    }
                }
            }
            // constant-only subtrees are C10's subject (folding); here at least one operand is a variable
            if self.const_val(&a).is_some() && self.const_val(&b).is_some() {
                b = self.var_leaf8();
            }
            // a call is indeterminately sequenced with the other operand: if that operand reads
            // anything a callee could write (globals, arrays, X, Y), both orders are legal C with
            // different results.  The other operand is then a local or a constant.
            let (mut a, mut b) = (a, b);
            if !self.cfg.calls_everywhere {
                if Self::has_call(&a) && self.reads_shared(&b) {
                    b = self.local_or_const();
                } else if Self::has_call(&b) && self.reads_shared(&a) {
                    a = self.local_or_const();
                }
            }
            let e = Expr::Bin(op, Box::new(a), Box::new(b));
            return if self.rng.chance(1, 10) { Expr::Paren(Box::new(e)) } else { e };
        }
        if r < 67 {
            let op = if self.rng.chance(1, 2) { BinOp::Shl } else { BinOp::Shr };
            let mut a = self.expr(W::W8, depth - 1);
            if self.const_val(&a).is_some() {
                a = self.var_leaf8();
            }
            // the signedness the code generator gives to mixed 8-bit arithmetic follows the left
            // operand (known finding mixed_signedness_follows_left): `>>` only on unsigned operands
            if op == BinOp::Shr && self.has_signed(&a) && !self.cfg.wild {
                a = self.var_leaf8();
            }
            let k = self.rng.range(1, 7) as i32;
            return Expr::Bin(op, Box::new(a), Box::new(Expr::Num(k)));
        }
        if r < 74 {
            let op = if self.rng.chance(1, 2) { UnOp::Neg } else { UnOp::BNot };
            let mut a = self.expr(w, depth - 1);
            if self.const_val(&a).is_some() {
                a = self.var_leaf8();
            }
            return Expr::Un(op, Box::new(a));
        }
        if r < 82 {
            // R4: a comparison / logical value (0 or 1) only as the whole right-hand side
            // (inside arithmetic the accumulator is pushed twice: known finding cond_value_in_arith)
            if (top && !self.st_in_cond) || self.cfg.wild {
                let save = self.st_in_cond;
                self.st_in_cond = true;
                let c = self.cond(depth - 1);
                self.st_in_cond = save;
                return c;
            }
            return self.leaf8();
        }
        if r < 88 && self.cfg.ternary && top && !self.st_in_cond {
            let save = self.st_in_cond;
            self.st_in_cond = true;
            let c = self.cond(depth - 1);
            self.st_in_cond = save;
            let sk = self.st_scratch_ok;
            self.st_scratch_ok = false;
            let a = self.expr(W::W8, depth - 1);
            let b = self.expr(W::W8, depth - 1);
            self.st_scratch_ok = sk;
            return Expr::Cond(Box::new(c), Box::new(a), Box::new(b));
        }
        if r < 96 && self.cfg.calls && !self.callable.is_empty() && ((!self.st_in_cond && !self.st_no_calls) || self.cfg.calls_everywhere) {
            // one call per full expression: two calls are indeterminately sequenced in C and the
            // callees may touch the same globals
            if self.calls_in_expr == 0 || self.cfg.calls_everywhere {
                if let Some(c) = self.call_expr(true) {
                    return c;
                }
            }
        }
        self.leaf8()
    }

    /// does `e` read anything a called function could modify (a global, an array, X, Y, memory
    /// through a pointer)?  Call arguments are evaluated before the call and do not count.
    fn reads_shared(&self, e: &Expr) -> bool {
        match e {
            Expr::Lv(LV::Var(v)) => matches!(self.p.vars[*v].scope, Scope::Global) && !self.is_const(*v),
            Expr::Lv(_) => true,
            Expr::Un(_, a) | Expr::Paren(a) => self.reads_shared(a),
            Expr::Bin(_, a, b) | Expr::Comma(a, b) => self.reads_shared(a) || self.reads_shared(b),
            Expr::Cond(a, b, c) => self.reads_shared(a) || self.reads_shared(b) || self.reads_shared(c),
            Expr::Call(..) => false,
            Expr::Assign(..) | Expr::OpAssign(..) | Expr::IncDec { .. } => true,
            _ => false,
        }
    }

    fn local_or_const(&mut self) -> Expr {
        let l: Vec<VarId> = self
            .fc
            .locals
            .iter()
            .cloned()
            .filter(|v| matches!(self.p.vars[*v].kind, VarKind::Scalar(Ty::U8)))
            .collect();
        if l.is_empty() || self.rng.chance(1, 3) {
            self.const8()
        } else {
            Expr::Lv(LV::Var(*self.rng.pick(&l)))
        }
    }

    fn call_expr(&mut self, need_value: bool) -> Option<Expr> {
        let cands: Vec<usize> = self
            .callable
            .iter()
            .cloned()
            .filter(|f| !need_value || self.p.funcs[*f].ret.is_some())
            .collect();
        if cands.is_empty() {
            return None;
        }
        let f = *self.rng.pick(&cands);
        self.calls_in_expr += 1;
        self.st_scratch_ok = false;
        let params = self.p.funcs[f].params.clone();
        let mut args = Vec::new();
        for pv in params {
            match self.p.vars[pv].kind {
                VarKind::Ptr => {
                    let t = self.ptr_targets();
                    if t.is_empty() {
                        return None;
                    }
                    let a = *self.rng.pick(&t);
                    args.push(Expr::AddrOf(a));
                }
                VarKind::Scalar(t) if t.bits() == 16 => {
                    let e = self.leaf16();
                    args.push(e)
                }
                _ => {
                    // arguments: simple expressions without calls (a nested call of the same
                    // function overwrites its static parameter cells: known finding
                    // nested_call_clobbers_static_params)
                    let save = self.st_no_calls;
                    self.st_no_calls = true;
                    self.st_top = false;
                    let e = self.expr(W::W8, 1);
                    self.st_no_calls = save;
                    args.push(e)
                }
            }
        }
        Some(Expr::Call(f, args))
    }

    /// value of a constant expression (None if it reads any variable)
    fn const_val(&self, e: &Expr) -> Option<i64> {
        match e {
            Expr::Num(n) | Expr::Hex(n) => Some(*n as i64),
            Expr::Paren(a) => self.const_val(a),
            Expr::Lv(LV::Var(v)) => match self.p.vars[*v].kind {
                VarKind::ConstVal(_, k) => Some(k as i64),
                _ => None,
            },
            Expr::Un(op, a) => {
                let x = self.const_val(a)?;
                Some(match op {
                    UnOp::Neg => -x,
                    UnOp::BNot => !x,
                    UnOp::Not => (x == 0) as i64,
                })
            }
            Expr::Bin(op, a, b) => {
                let x = self.const_val(a)?;
                let y = self.const_val(b)?;
                Some(match op {
                    BinOp::Add => x + y,
                    BinOp::Sub => x - y,
                    BinOp::And => x & y,
                    BinOp::Or => x | y,
                    BinOp::Xor => x ^ y,
                    BinOp::Shl => x << (y & 15),
                    BinOp::Shr => x >> (y & 15),
                    _ => return Some(1),
                })
            }
            _ => None,
        }
    }

    fn var_leaf8(&mut self) -> Expr {
        let s: Vec<VarId> = self.scalars8(false).into_iter().filter(|v| !self.is_const(*v)).collect();
        if s.is_empty() {
            Expr::Lv(LV::X)
        } else {
            Expr::Lv(LV::Var(*self.rng.pick(&s)))
        }
    }

    fn is_xy(e: &Expr) -> bool {
        matches!(e, Expr::Lv(LV::X) | Expr::Lv(LV::Y))
    }
    fn is_plain(e: &Expr) -> bool {
        matches!(e, Expr::Lv(LV::Var(_)) | Expr::Num(_) | Expr::Hex(_) | Expr::Lv(LV::X) | Expr::Lv(LV::Y))
    }
    fn is_zero(e: &Expr) -> bool {
        matches!(e, Expr::Num(0) | Expr::Hex(0))
    }

    pub fn cond(&mut self, depth: usize) -> Expr {
        let save = self.st_in_cond;
        self.st_in_cond = true;
        let e = self.cond_inner(depth);
        self.st_in_cond = save;
        e
    }

    fn cond_inner(&mut self, depth: usize) -> Expr {
        let r = self.rng.below(100);
        if depth > 0 && r < 22 {
            let op = if self.rng.chance(1, 2) { BinOp::LAnd } else { BinOp::LOr };
            let a = self.cond_inner(depth - 1);
            let b = self.cond_inner(depth - 1);
            return Expr::Bin(op, Box::new(a), Box::new(b));
        }
        if depth > 0 && r < 30 {
            let a = self.cond_inner(depth - 1);
            return Expr::Un(UnOp::Not, Box::new(a));
        }
        if r < 40 {
            // bare value as condition (8-bit; R8: a 16-bit bare condition only as a plain variable)
            if self.cfg.shorts && self.rng.chance(1, 6) {
                let s = self.scalars16();
                if !s.is_empty() {
                    return Expr::Lv(LV::Var(*self.rng.pick(&s)));
                }
            }
            self.st_top = false;
            return self.expr(W::W8, depth.min(1));
        }
        let op = *self.rng.pick(&[BinOp::Eq, BinOp::Ne, BinOp::Lt, BinOp::Le, BinOp::Gt, BinOp::Ge]);
        let rel = !matches!(op, BinOp::Eq | BinOp::Ne);
        if self.cfg.shorts && !self.scalars16().is_empty() && self.rng.chance(1, 5) {
            // R8: 16-bit comparison: variable against variable or constant
            let s = self.scalars16();
            let a = *self.rng.pick(&s);
            let b = if self.rng.chance(1, 2) { self.const16() } else { Expr::Lv(LV::Var(*self.rng.pick(&s))) };
            if self.cfg.wild {
                let l = if self.rng.chance(1, 3) { self.expr16_wild() } else { Expr::Lv(LV::Var(a)) };
                return Expr::Bin(op, Box::new(l), Box::new(b));
            }
            let sa = matches!(self.p.vars[a].kind, VarKind::Scalar(Ty::I16));
            let sb = self.is_signed16(&b);
            if rel && (sa || sb) && self.cfg.excl_signed_relational {
                // signed relational compare: known finding signed_relational_no_overflow_flag
                return Expr::Bin(if self.rng.chance(1, 2) { BinOp::Eq } else { BinOp::Ne }, Box::new(Expr::Lv(LV::Var(a))), Box::new(b));
            }
            if rel && Self::is_zero(&b) {
                return Expr::Bin(BinOp::Ne, Box::new(Expr::Lv(LV::Var(a))), Box::new(b));
            }
            // 16-bit `<=` and `>` test the difference for zero byte-wise (known finding
            // wide_compare_le_gt): only `<` and `>=` are offered
            let op = match op {
                BinOp::Le => BinOp::Lt,
                BinOp::Gt => BinOp::Ge,
                o => o,
            };
            return Expr::Bin(op, Box::new(Expr::Lv(LV::Var(a))), Box::new(b));
        }
        self.st_top = false;
        let mut a = self.expr(W::W8, depth.min(2).saturating_sub(1));
        self.st_top = false;
        let mut b = if self.rng.chance(1, 2) {
            self.const8()
        } else {
            let d = if self.rng.chance(1, 5) { 1 } else { 0 };
            self.expr(W::W8, d)
        };
        if self.cfg.wild && self.rng.chance(1, 6) {
            // ++ / -- inside a condition
            let l = self.dest8();
            let lhs = Expr::IncDec { lv: l, post: self.rng.chance(2, 3), inc: self.rng.chance(1, 2) };
            return Expr::Bin(op, Box::new(lhs), Box::new(b));
        }
        if rel && self.cfg.excl_signed_relational && !self.cfg.wild {
            // signed relational compares are a known-finding family (no V flag): keep operands unsigned
            let mut guard = 0;
            while self.has_signed(&a) && guard < 8 {
                a = self.leaf_unsigned(W::W8);
                guard += 1;
            }
            guard = 0;
            while self.has_signed(&b) && guard < 8 {
                b = self.leaf_unsigned(W::W8);
                guard += 1;
            }
        }
        // (R6, a bare register right of an indexed operand, was lifted after fix 914b4a3)
        // R3: unsigned relational comparison against literal 0 takes the signed shortcut
        // (known finding unsigned_relational_zero)
        if rel && !self.cfg.wild {
            if self.const_val(&b) == Some(0) || self.const_val(&b).map(|v| v & 0xff == 0).unwrap_or(false) {
                b = Expr::Num(self.rng.range(1, 255) as i32);
            }
            if self.const_val(&a) == Some(0) || self.const_val(&a).map(|v| v & 0xff == 0).unwrap_or(false) {
                a = Expr::Num(self.rng.range(1, 255) as i32);
            }
        }
        // constant-vs-constant comparisons are refused by the compiler ("partially implemented"):
        // offered rarely
        if self.const_val(&a).is_some() && self.const_val(&b).is_some() && !self.rng.chance(1, 20) {
            a = self.var_leaf8();
        }
        Expr::Bin(op, Box::new(a), Box::new(b))
    }

    fn leaf_unsigned(&mut self, w: W) -> Expr {
        match w {
            W::W8 => {
                let s = self.scalars8(false);
                if s.is_empty() || self.rng.chance(1, 4) {
                    self.const8()
                } else {
                    Expr::Lv(LV::Var(*self.rng.pick(&s)))
                }
            }
            W::W16 => {
                let s: Vec<VarId> = self
                    .scalars16()
                    .into_iter()
                    .filter(|v| matches!(self.p.vars[*v].kind, VarKind::Scalar(Ty::U16)))
                    .collect();
                if s.is_empty() || self.rng.chance(1, 4) {
                    self.const16()
                } else {
                    Expr::Lv(LV::Var(*self.rng.pick(&s)))
                }
            }
        }
    }

    // ---------------------------------------------------------------- statements

    fn reads(e: &Expr, out: &mut Vec<LV>) {
        match e {
            Expr::Lv(l) => {
                out.push(l.clone());
                match l {
                    LV::Idx(_, i) | LV::PtrIdx(_, i) => Self::reads(i, out),
                    _ => {}
                }
            }
            Expr::Un(_, a) | Expr::Paren(a) => Self::reads(a, out),
            Expr::Bin(_, a, b) | Expr::Comma(a, b) => {
                Self::reads(a, out);
                Self::reads(b, out);
            }
            Expr::Cond(a, b, c) => {
                Self::reads(a, out);
                Self::reads(b, out);
                Self::reads(c, out);
            }
            Expr::Call(_, args) => {
                for a in args {
                    Self::reads(a, out)
                }
            }
            Expr::Assign(l, r) | Expr::OpAssign(_, l, r) => {
                out.push(l.clone());
                Self::reads(r, out);
            }
            Expr::IncDec { lv, .. } => out.push(lv.clone()),
            _ => {}
        }
    }

    fn mentions(e: &Expr, l: &LV) -> bool {
        let mut r = Vec::new();
        Self::reads(e, &mut r);
        r.iter().any(|x| Self::lv_overlap(x, l))
    }

    fn lv_overlap(a: &LV, b: &LV) -> bool {
        // conservative: same scalar, or same array (any index), or pointer vs any array
        match (a, b) {
            (LV::X, LV::X) | (LV::Y, LV::Y) => true,
            (LV::Var(x), LV::Var(y)) => x == y,
            (LV::Idx(x, _), LV::Idx(y, _)) => x == y,
            (LV::PtrIdx(..), LV::Idx(..))
            | (LV::Idx(..), LV::PtrIdx(..))
            | (LV::Deref(_), LV::Idx(..))
            | (LV::Idx(..), LV::Deref(_))
            | (LV::PtrIdx(..), LV::PtrIdx(..))
            | (LV::Deref(_), LV::Deref(_))
            | (LV::PtrIdx(..), LV::Deref(_))
            | (LV::Deref(_), LV::PtrIdx(..)) => true,
            _ => false,
        }
    }

    fn has_call(e: &Expr) -> bool {
        match e {
            Expr::Call(..) => true,
            Expr::Un(_, a) | Expr::Paren(a) => Self::has_call(a),
            Expr::Bin(_, a, b) | Expr::Comma(a, b) => Self::has_call(a) || Self::has_call(b),
            Expr::Cond(a, b, c) => Self::has_call(a) || Self::has_call(b) || Self::has_call(c),
            Expr::Assign(_, r) | Expr::OpAssign(_, _, r) => Self::has_call(r),
            Expr::Lv(LV::Idx(_, i)) | Expr::Lv(LV::PtrIdx(_, i)) => Self::has_call(i),
            _ => false,
        }
    }

    fn st_reset(&mut self) {
        self.st_in_cond = false;
        self.st_no_y = false;
        self.st_used_y = false;
        self.st_used_deref = false;
        self.st_top = true;
        self.st_scratch_ok = false;
        self.st_no_calls = false;
        self.calls_in_expr = 0;
    }

    fn is_protected(&self, l: &LV) -> bool {
        self.fc.protected.iter().any(|p| Self::lv_overlap(p, l))
    }

    /// an assignable 8-bit destination
    fn dest8(&mut self) -> LV {
        for _ in 0..12 {
            let r = self.rng.below(100);
            let l = if r < 50 {
                let s: Vec<VarId> = self.scalars8(self.cfg.signed_vars).into_iter().filter(|v| !self.is_const(*v)).collect();
                if s.is_empty() {
                    continue;
                }
                LV::Var(*self.rng.pick(&s))
            } else if r < 62 {
                if self.rng.chance(1, 2) {
                    LV::X
                } else {
                    LV::Y
                }
            } else if r < 90 && !self.arrs.is_empty() {
                let a = *self.rng.pick(&self.arrs.clone());
                // a computed index on the destination leaves little room for the right-hand side
                // ("too complex"): offered at a third of the rate of computed indexes in operands
                let av = self.rng.chance(1, 3);
                let i = self.index(ARR_LEN, av);
                LV::Idx(a, Box::new(i))
            } else if !self.ptrs.is_empty() && self.fc.y_lt > 0 && self.fc.y_lt <= ARR_LEN {
                LV::PtrIdx(self.ptrs[0], Box::new(Expr::Lv(LV::Y)))
            } else {
                continue;
            };
            if !self.is_protected(&l) {
                match &l {
                    LV::Y | LV::PtrIdx(..) => self.st_used_y = true,
                    LV::Idx(_, i) if !matches!(**i, Expr::Num(_) | Expr::Lv(LV::X)) => self.st_used_y = true,
                    _ => {}
                }
                return l;
            }
        }
        // fall back to some unprotected global
        for v in self.g8.clone() {
            if !self.is_const(v) && !self.is_protected(&LV::Var(v)) {
                return LV::Var(v);
            }
        }
        LV::Var(self.g8[0])
    }

    fn dest16(&mut self) -> Option<LV> {
        let s: Vec<VarId> = self.scalars16().into_iter().filter(|v| !self.is_protected(&LV::Var(*v))).collect();
        if s.is_empty() {
            return None;
        }
        if !self.sarrs.is_empty() && self.rng.chance(1, 5) {
            let i = if self.cfg.wild && self.rng.chance(1, 2) {
                if self.rng.chance(1, 2) { Expr::Lv(LV::Y) } else { Expr::Lv(LV::X) }
            } else if self.fc.x_lt > 0 && self.fc.x_lt <= 4 {
                Expr::Lv(LV::X)
            } else {
                Expr::Num(self.rng.below(4) as i32)
            };
            return Some(LV::Idx(self.sarrs[0], Box::new(i)));
        }
        Some(LV::Var(*self.rng.pick(&s)))
    }

    fn note_write(&mut self, l: &LV, rhs: Option<&Expr>) {
        match l {
            LV::X => {
                self.fc.x_lt = match rhs {
                    Some(Expr::Num(n)) if *n >= 0 => (*n as usize) + 1,
                    Some(Expr::Bin(BinOp::And, _, m)) => match **m {
                        Expr::Num(k) if k >= 0 => k as usize + 1,
                        _ => 0,
                    },
                    _ => 0,
                }
            }
            LV::Y => {
                self.fc.y_lt = match rhs {
                    Some(Expr::Num(n)) if *n >= 0 => (*n as usize) + 1,
                    Some(Expr::Bin(BinOp::And, _, m)) => match **m {
                        Expr::Num(k) if k >= 0 => k as usize + 1,
                        _ => 0,
                    },
                    _ => 0,
                }
            }
            _ => {}
        }
    }

    fn forget_xy(&mut self) {
        self.fc.x_lt = 0;
        self.fc.y_lt = 0;
    }

    /// rhs expression for assigning to `l` that does not touch `l` in a way that is unspecified
    fn rhs_for(&mut self, l: &LV, w: W, depth: usize) -> Expr {
        self.calls_in_expr = 0;
        for _ in 0..6 {
            self.st_top = true;
            let e = self.expr(w, depth);
            // `x = x + 1` is fine; what must not happen is another *modification* of l inside e,
            // and expr() generates pure expressions (calls may modify globals: keep calls away
            // from assignments whose destination the callee could touch -> dest must be local/X/Y
            // or the call-free variant is used)
            if Self::has_call(&e) {
                match l {
                    LV::Var(v) if matches!(self.p.vars[*v].scope, Scope::Local(_) | Scope::Param(_)) => return e,
                    _ => {
                        // a callee may read or write any global, and X/Y: unsequenced w.r.t. the
                        // rest of the expression only if the rest also touches globals.  Keep it
                        // simple and well-defined: the call is the whole right-hand side, or
                        // combined with constants/locals only.
                        if let Expr::Call(..) = e {
                            if Self::index_free(l) {
                                return e;
                            }
                        }
                        continue;
                    }
                }
            }
            return e;
        }
        match w {
            W::W8 => self.leaf8(),
            W::W16 => self.leaf16(),
        }
    }

    fn index_free(l: &LV) -> bool {
        match l {
            LV::Idx(_, i) | LV::PtrIdx(_, i) => matches!(**i, Expr::Num(_)),
            _ => true,
        }
    }

    fn assign_stmt(&mut self) -> Stmt {
        self.st_reset();
        self.st_scratch_ok = true;
        let use16 = self.cfg.shorts && self.rng.chance(1, 4);
        if use16 {
            if let Some(l) = self.dest16() {
                if let (LV::Idx(..), true) = (&l, self.rng.chance(1, 2)) {
                    // (R10, lifted: read-modify-write forms on elements of short arrays were the
                    // family short_array_rmw, repaired; half of the stores stay plain)
                    let s = self.scalars16();
                    let e = if s.is_empty() || self.rng.chance(1, 3) { self.const16() } else { Expr::Lv(LV::Var(*self.rng.pick(&s))) };
                    return Stmt::Expr(Expr::Assign(l, Box::new(e)));
                }
                let r = self.rng.below(100);
                if r < 55 {
                    let e = self.rhs_for(&l, W::W16, self.cfg.max_depth.min(2));
                    return Stmt::Expr(Expr::Assign(l, Box::new(e)));
                } else if r < 80 {
                    let op = *self.rng.pick(&[BinOp::Add, BinOp::Sub, BinOp::And, BinOp::Or, BinOp::Xor]);
                    if self.cfg.embedded_side_effects && self.rng.chance(1, 8) {
                        // s += c++ : the right operand is evaluated once, although the 16-bit
                        // lowering walks the statement twice (low and high byte)
                        let c: Vec<VarId> = self.scalars8(false).into_iter().filter(|v| !self.is_const(*v) && !self.is_protected(&LV::Var(*v))).collect();
                        if !c.is_empty() {
                            let v = *self.rng.pick(&c);
                            self.note_write(&LV::Var(v), None);
                            let e = Expr::IncDec { lv: LV::Var(v), post: self.rng.chance(2, 3), inc: self.rng.chance(1, 2) };
                            return Stmt::Expr(Expr::OpAssign(op, l, Box::new(e)));
                        }
                    }
                    let e = if self.rng.chance(1, 2) {
                        self.leaf16()
                    } else {
                        let s8 = self.scalars8(false);
                        if s8.is_empty() { self.const16() } else { Expr::Lv(LV::Var(*self.rng.pick(&s8))) }
                    };
                    return Stmt::Expr(Expr::OpAssign(op, l, Box::new(e)));
                } else if r < 90 {
                    let op = if self.rng.chance(1, 2) { BinOp::Shl } else { BinOp::Shr };
                    let k = self.rng.range(1, 7) as i32;
                    return Stmt::Expr(Expr::OpAssign(op, l, Box::new(Expr::Num(k))));
                } else {
                    return Stmt::Expr(Expr::IncDec { lv: l, post: self.rng.chance(1, 2), inc: self.rng.chance(1, 2) });
                }
            }
        }
        let l = self.dest8();
        let r = self.rng.below(100);
        if r < 55 {
            let d = self.rng.range(0, self.cfg.max_depth as i64) as usize;
            let e = self.rhs_for(&l, W::W8, d);
            self.note_write(&l, Some(&e));
            if Self::has_call(&e) {
                self.forget_xy();
            }
            // embedded side effects: a = b = e ; a = b++
            if self.cfg.embedded_side_effects && self.rng.chance(1, 12) && !Self::has_call(&e) {
                let l2 = self.dest8();
                if !Self::lv_overlap(&l, &l2) && !Self::mentions(&e, &l2) && Self::index_free(&l2) && Self::index_free(&l) && !matches!(l2, LV::X | LV::Y) && !matches!(l, LV::X | LV::Y) {
                    return Stmt::Expr(Expr::Assign(l2, Box::new(Expr::Assign(l, Box::new(e)))));
                }
            }
            return Stmt::Expr(Expr::Assign(l, Box::new(e)));
        }
        if r < 75 {
            let op = *self.rng.pick(&[BinOp::Add, BinOp::Sub, BinOp::And, BinOp::Or, BinOp::Xor]);
            self.st_no_calls = true; // `x op= f()` reads x unsequenced with f's side effects
            self.st_top = false;
            let e = self.expr(W::W8, 1);
            self.note_write(&l, None);
            return Stmt::Expr(Expr::OpAssign(op, l, Box::new(e)));
        }
        if r < 82 {
            let op = if self.rng.chance(1, 2) { BinOp::Shl } else { BinOp::Shr };
            let k = self.rng.range(1, 7) as i32;
            self.note_write(&l, None);
            return Stmt::Expr(Expr::OpAssign(op, l, Box::new(Expr::Num(k))));
        }
        if r < 94 {
            self.note_write(&l, None);
            return Stmt::Expr(Expr::IncDec { lv: l, post: self.rng.chance(1, 2), inc: self.rng.chance(1, 2) });
        }
        // v = w++ style
        if self.cfg.embedded_side_effects {
            let l2 = self.dest8();
            if !Self::lv_overlap(&l, &l2) && Self::index_free(&l2) && Self::index_free(&l) {
                self.note_write(&l, None);
                self.note_write(&l2, None);
                return Stmt::Expr(Expr::Assign(
                    l,
                    Box::new(Expr::IncDec { lv: l2, post: self.rng.chance(1, 2), inc: self.rng.chance(1, 2) }),
                ));
            }
        }
        let e = self.leaf8();
        self.note_write(&l, Some(&e));
        Stmt::Expr(Expr::Assign(l, Box::new(e)))
    }

    fn new_local(&mut self, t: Ty, prefix: &str) -> VarId {
        let f = self.fc.idx;
        let n = self.p.vars.iter().filter(|v| v.scope == Scope::Local(f)).count();
        self.add_var(format!("{}{}", prefix, n), VarKind::Scalar(t), MemClass::Zp, Scope::Local(f))
    }

    fn body(&mut self, nest: usize, n: usize) -> Stmt {
        let saved_locals = self.fc.locals.len();
        let was_top = self.fc.top_level;
        self.fc.top_level = false;
        let mut v = Vec::new();
        for _ in 0..n {
            let s = self.stmt(nest);
            v.push(s);
        }
        self.fc.top_level = was_top;
        self.fc.locals.truncate(saved_locals);
        if v.len() == 1 && self.rng.chance(1, 2) && !matches!(v[0], Stmt::Decl(..) | Stmt::If(..) | Stmt::Block(..)) {
            v.pop().unwrap()
        } else {
            Stmt::Block(v)
        }
    }

    fn loop_counter(&mut self) -> (LV, Option<Stmt>) {
        // a dedicated counter: X, Y, a fresh local, or an unprotected global
        let r = self.rng.below(10);
        if r < 2 && !self.is_protected(&LV::X) {
            return (LV::X, None);
        }
        if r < 4 && !self.is_protected(&LV::Y) {
            return (LV::Y, None);
        }
        if r < 8 {
            let v = self.new_local(Ty::U8, "i");
            self.fc.locals.push(v);
            return (LV::Var(v), Some(Stmt::Decl(v, Some(Expr::Num(0)))));
        }
        let s: Vec<VarId> = self.g8.iter().cloned().filter(|v| !self.is_const(*v) && !self.is_protected(&LV::Var(*v))).collect();
        if s.is_empty() {
            let v = self.new_local(Ty::U8, "i");
            self.fc.locals.push(v);
            return (LV::Var(v), Some(Stmt::Decl(v, Some(Expr::Num(0)))));
        }
        (LV::Var(*self.rng.pick(&s)), None)
    }

    /// a test of the variable a statement has just written, right behind it: what the generator
    /// believes the flags describe after the statement is exactly what such a test relies on
    fn flag_probe(&mut self, s: Stmt) -> Stmt {
        let l = match &s {
            Stmt::Expr(Expr::Assign(l, _)) | Stmt::Expr(Expr::OpAssign(_, l, _)) | Stmt::Expr(Expr::IncDec { lv: l, .. }) => l.clone(),
            _ => return s,
        };
        let wide = match &l {
            LV::Var(v) if Some(*v) == self.sink => return s, // `sink` is never read
            LV::Var(v) => match self.p.vars[*v].kind {
                VarKind::Scalar(t) => {
                    if t.signed() {
                        return s;
                    }
                    t.bits() == 16
                }
                _ => return s,
            },
            LV::X | LV::Y => false,
            _ => return s,
        };
        if let Stmt::Expr(e) = &s {
            if Self::has_call(e) {
                return s;
            }
        }
        let k = if wide { self.const16() } else { self.const8() };
        let c = match self.rng.below(4) {
            0 => Expr::Lv(l.clone()),
            1 => Expr::Un(UnOp::Not, Box::new(Expr::Lv(l.clone()))),
            2 => Expr::Bin(BinOp::Eq, Box::new(Expr::Lv(l.clone())), Box::new(k)),
            _ => Expr::Bin(BinOp::Ne, Box::new(Expr::Lv(l.clone())), Box::new(k)),
        };
        let g: Vec<VarId> = self.g8.iter().cloned().filter(|v| !self.is_const(*v) && !self.is_protected(&LV::Var(*v))).collect();
        if g.is_empty() {
            return s;
        }
        let t = *self.rng.pick(&g);
        let val = self.rng.below(200) as i32;
        let then = Stmt::Expr(Expr::Assign(LV::Var(t), Box::new(Expr::Num(val))));
        let els = if self.rng.chance(1, 2) { Some(Box::new(Stmt::Expr(Expr::Assign(LV::Var(t), Box::new(Expr::Num(val + 1)))))) } else { None };
        Stmt::Block(vec![s, Stmt::If(c, Box::new(then), els)])
    }

    pub fn stmt(&mut self, nest: usize) -> Stmt {
        let r = self.rng.below(100);
        if nest == 0 || r < 46 {
            let s = self.simple_stmt();
            if self.rng.chance(1, 6) {
                return self.flag_probe(s);
            }
            return s;
        }
        if r < 62 {
            // if / if-else
            self.st_reset();
            let c = self.cond(self.cfg.max_depth.min(2));
            let (x0, y0) = (self.fc.x_lt, self.fc.y_lt);
            let n = self.rng.range(1, 3) as usize;
            let t = self.body(nest - 1, n);
            let (x1, y1) = (self.fc.x_lt, self.fc.y_lt);
            self.fc.x_lt = x0;
            self.fc.y_lt = y0;
            let e = if self.rng.chance(1, 2) {
                let n = self.rng.range(1, 3) as usize;
                Some(Box::new(self.body(nest - 1, n)))
            } else {
                None
            };
            // join: keep the weaker knowledge
            self.fc.x_lt = if x1 == 0 || self.fc.x_lt == 0 { 0 } else { x1.max(self.fc.x_lt) };
            self.fc.y_lt = if y1 == 0 || self.fc.y_lt == 0 { 0 } else { y1.max(self.fc.y_lt) };
            return Stmt::If(c, Box::new(t), e);
        }
        if r < 80 && self.cfg.loops && self.fc.loop_depth < 2 {
            return self.loop_stmt(nest);
        }
        if r < 88 && self.cfg.switches {
            return self.switch_stmt(nest);
        }
        if r < 92 {
            let n = self.rng.range(1, 3) as usize;
            let saved = self.fc.locals.len();
            let mut v = Vec::new();
            if self.rng.chance(1, 2) {
                let l = self.new_local(Ty::U8, "t");
                self.st_reset();
                let e = self.leaf8();
                v.push(Stmt::Decl(l, Some(e)));
                self.fc.locals.push(l);
            }
            for _ in 0..n {
                let s = self.stmt(nest - 1);
                v.push(s);
            }
            self.fc.locals.truncate(saved);
            return Stmt::Block(v);
        }
        self.simple_stmt()
    }

    fn loop_stmt(&mut self, nest: usize) -> Stmt {
        let saved_locals = self.fc.locals.len();
        let s = self.loop_stmt_inner(nest);
        self.fc.locals.truncate(saved_locals);
        s
    }

    fn loop_stmt_inner(&mut self, nest: usize) -> Stmt {
        let (cnt, decl) = self.loop_counter();
        let trip = self.rng.range(1, 5) as i32;
        self.fc.protected.push(cnt.clone());
        self.fc.loop_depth += 1;
        let kind = self.rng.below(9);
        let cl = Expr::Lv(cnt.clone());
        self.forget_xy();
        // inside the body the counter is < trip
        match cnt {
            LV::X => self.fc.x_lt = trip as usize,
            LV::Y => self.fc.y_lt = trip as usize,
            _ => {}
        }
        let n = self.rng.range(1, 3) as usize;
        let mut body = self.body(nest - 1, n);
        // optional break/continue under a condition
        if self.rng.chance(1, 3) {
            self.st_reset();
            let c = self.cond(1);
            let bc = if self.rng.chance(1, 2) { Stmt::Break } else { Stmt::Continue };
            let guard = Stmt::If(c, Box::new(bc), None);
            body = match body {
                Stmt::Block(mut v) => {
                    let at = self.rng.below(v.len() as u64 + 1) as usize;
                    v.insert(at, guard);
                    Stmt::Block(v)
                }
                s => Stmt::Block(vec![guard, s]),
            };
        }
        self.fc.loop_depth -= 1;
        self.fc.protected.pop();
        self.forget_xy();
        let up = Expr::IncDec { lv: cnt.clone(), post: self.rng.chance(1, 2), inc: true };
        let cmp_op = if self.rng.chance(1, 2) { BinOp::Lt } else { BinOp::Ne };
        let cond = Expr::Bin(cmp_op, Box::new(cl.clone()), Box::new(Expr::Num(trip)));
        let init = Expr::Assign(cnt.clone(), Box::new(Expr::Num(0)));
        let s = match kind {
            0 | 1 | 2 => Stmt::For(Some(init), Some(cond), Some(up), Box::new(body)),
            3 => {
                // while with the increment at the end of the body ("continue" would skip it: use for-style body only when no continue)
                if Self::contains_continue(&body) {
                    Stmt::For(Some(init), Some(cond), Some(up), Box::new(body))
                } else {
                    let mut v = match body {
                        Stmt::Block(v) => v,
                        s => vec![s],
                    };
                    v.push(Stmt::Expr(up));
                    Stmt::Block(vec![Stmt::Expr(init), Stmt::While(cond, Box::new(Stmt::Block(v)))])
                }
            }
            4 => {
                // count down: for (c = trip; c != 0; c--)
                let init = Expr::Assign(cnt.clone(), Box::new(Expr::Num(trip)));
                let cond = Expr::Bin(BinOp::Ne, Box::new(cl.clone()), Box::new(Expr::Num(0)));
                let down = Expr::IncDec { lv: cnt.clone(), post: self.rng.chance(1, 2), inc: false };
                // body index knowledge was "< trip" which is wrong for a count-down (c == trip at first): only used when the body does not index with the counter
                if Self::mentions_index(&body, &cnt) {
                    Stmt::For(Some(Expr::Assign(cnt.clone(), Box::new(Expr::Num(0)))), Some(Expr::Bin(BinOp::Lt, Box::new(cl), Box::new(Expr::Num(trip)))), Some(up), Box::new(body))
                } else {
                    Stmt::For(Some(init), Some(cond), Some(down), Box::new(body))
                }
            }
            8 if self.cfg.embedded_side_effects && !Self::mentions_index(&body, &cnt) => {
                // a post-decrement inside the init clause: for (c = h--; c != 0; c--)
                let h = self.new_local(Ty::U8, "h");
                let init = Expr::Assign(cnt.clone(), Box::new(Expr::IncDec { lv: LV::Var(h), post: true, inc: self.rng.chance(1, 2) }));
                let cond = Expr::Bin(BinOp::Ne, Box::new(cl.clone()), Box::new(Expr::Num(0)));
                let down = Expr::IncDec { lv: cnt.clone(), post: self.rng.chance(1, 2), inc: false };
                Stmt::Block(vec![Stmt::Decl(h, Some(Expr::Num(trip))), Stmt::For(Some(init), Some(cond), Some(down), Box::new(body))])
            }
            6 | 7 => {
                // while / do-while with the increment FIRST in the body: `continue` is safe there
                // (it reaches the loop test with the counter already advanced).  Inside the body
                // the counter is 1..trip, so bodies that index with it keep the for form.
                if Self::mentions_index(&body, &cnt) {
                    Stmt::For(Some(init), Some(cond), Some(up), Box::new(body))
                } else {
                    let mut v = match body {
                        Stmt::Block(v) => v,
                        s => vec![s],
                    };
                    v.insert(0, Stmt::Expr(up));
                    if kind == 6 {
                        Stmt::Block(vec![Stmt::Expr(init), Stmt::DoWhile(Box::new(Stmt::Block(v)), cond)])
                    } else {
                        Stmt::Block(vec![Stmt::Expr(init), Stmt::While(cond, Box::new(Stmt::Block(v)))])
                    }
                }
            }
            _ => {
                if Self::contains_continue(&body) {
                    Stmt::For(Some(init), Some(cond), Some(up), Box::new(body))
                } else {
                    let mut v = match body {
                        Stmt::Block(v) => v,
                        s => vec![s],
                    };
                    v.push(Stmt::Expr(up));
                    Stmt::Block(vec![Stmt::Expr(init), Stmt::DoWhile(Box::new(Stmt::Block(v)), cond)])
                }
            }
        };
        match decl {
            Some(d) => Stmt::Block(vec![d, s]),
            None => s,
        }
    }

    fn contains_continue(s: &Stmt) -> bool {
        match s {
            Stmt::Continue => true,
            Stmt::If(_, t, e) => Self::contains_continue(t) || e.as_ref().map(|e| Self::contains_continue(e)).unwrap_or(false),
            Stmt::Block(v) => v.iter().any(Self::contains_continue),
            Stmt::Switch(_, cases, d) => {
                cases.iter().any(|c| c.1.iter().any(Self::contains_continue))
                    || d.as_ref().map(|d| d.iter().any(Self::contains_continue)).unwrap_or(false)
            }
            Stmt::Labeled(_, s) => Self::contains_continue(s),
            _ => false, // nested loops own their continue
        }
    }

    fn mentions_index(s: &Stmt, cnt: &LV) -> bool {
        // does any array index in s use the counter?
        fn ex(e: &Expr, cnt: &LV) -> bool {
            match e {
                Expr::Lv(LV::Idx(_, i)) | Expr::Lv(LV::PtrIdx(_, i)) => Gen::mentions(i, cnt) || ex(i, cnt),
                Expr::Un(_, a) | Expr::Paren(a) => ex(a, cnt),
                Expr::Bin(_, a, b) | Expr::Comma(a, b) => ex(a, cnt) || ex(b, cnt),
                Expr::Cond(a, b, c) => ex(a, cnt) || ex(b, cnt) || ex(c, cnt),
                Expr::Call(_, args) => args.iter().any(|a| ex(a, cnt)),
                Expr::Assign(l, r) | Expr::OpAssign(_, l, r) => ex(&Expr::Lv(l.clone()), cnt) || ex(r, cnt),
                Expr::IncDec { lv, .. } => ex(&Expr::Lv(lv.clone()), cnt),
                _ => false,
            }
        }
        match s {
            Stmt::Expr(e) | Stmt::Load(e) => ex(e, cnt),
            Stmt::If(c, t, e) => ex(c, cnt) || Self::mentions_index(t, cnt) || e.as_ref().map(|e| Self::mentions_index(e, cnt)).unwrap_or(false),
            Stmt::While(c, b) | Stmt::DoWhile(b, c) => ex(c, cnt) || Self::mentions_index(b, cnt),
            Stmt::For(a, b, c, d) => {
                a.as_ref().map(|e| ex(e, cnt)).unwrap_or(false)
                    || b.as_ref().map(|e| ex(e, cnt)).unwrap_or(false)
                    || c.as_ref().map(|e| ex(e, cnt)).unwrap_or(false)
                    || Self::mentions_index(d, cnt)
            }
            Stmt::Switch(e, cases, d) => {
                ex(e, cnt)
                    || cases.iter().any(|c| c.1.iter().any(|s| Self::mentions_index(s, cnt)))
                    || d.as_ref().map(|d| d.iter().any(|s| Self::mentions_index(s, cnt))).unwrap_or(false)
            }
            Stmt::Block(v) => v.iter().any(|s| Self::mentions_index(s, cnt)),
            Stmt::Decl(_, Some(e)) => ex(e, cnt),
            Stmt::Return(Some(e)) => ex(e, cnt),
            Stmt::Labeled(_, s) => Self::mentions_index(s, cnt),
            Stmt::Store(l) => ex(&Expr::Lv(l.clone()), cnt),
            _ => false,
        }
    }

    fn switch_stmt(&mut self, nest: usize) -> Stmt {
        self.st_reset();
        self.st_no_calls = true;
        self.st_in_cond = true;
        // R9: the controlling expression is something whose value stays addressable (a computed
        // value in A is compared against `case 0` with stale flags: known finding switch_computed_case0)
        let e = loop {
            if self.cfg.wild {
                self.st_top = false;
                break self.expr(W::W8, 1);
            }
            // (R9, selectors limited to addressable values, was lifted after fix 50c7af4)
            let c = if self.rng.chance(1, 3) {
                self.st_top = false;
                self.expr(W::W8, 1)
            } else {
                self.leaf8()
            };
            if self.has_signed(&c) {
                continue;
            }
            // a constant controlling expression is refused ("partially implemented"): offered rarely
            if self.const_val(&c).is_some() && !self.rng.chance(1, 16) {
                continue;
            }
            match &c {
                Expr::Lv(LV::Deref(_)) => continue,
                _ => break c,
            }
        };
        self.st_in_cond = false;
        let ncase = self.rng.range(1, 4) as usize;
        let mut used = Vec::new();
        let mut cases = Vec::new();
        self.fc.in_switch += 1;
        let (x0, y0) = (self.fc.x_lt, self.fc.y_lt);
        for _ in 0..ncase {
            let nv = if self.rng.chance(1, 4) { 2 } else { 1 };
            let mut vals = Vec::new();
            for _ in 0..nv {
                let mut c = self.rng.below(6) as i32;
                if self.rng.chance(1, 5) {
                    c = self.rng.bbyte() as i32;
                }
                if !used.contains(&c) {
                    used.push(c);
                    vals.push(c);
                }
            }
            if vals.is_empty() {
                continue;
            }
            let n = self.rng.range(1, 2) as usize;
            let mut body = Vec::new();
            for _ in 0..n {
                self.fc.x_lt = 0;
                self.fc.y_lt = 0;
                let s = self.stmt(nest - 1);
                body.push(s);
            }
            if self.fc.loop_depth > 0 && self.rng.chance(1, 6) {
                body.push(Stmt::Continue); // belongs to the enclosing loop
            } else if self.rng.chance(3, 4) {
                body.push(Stmt::Break); // otherwise falls through
            }
            cases.push((vals, body));
        }
        let def = if self.rng.chance(1, 2) {
            self.fc.x_lt = 0;
            self.fc.y_lt = 0;
            let s = self.stmt(nest - 1);
            Some(vec![s])
        } else {
            None
        };
        let _ = (x0, y0);
        self.forget_xy();
        self.fc.in_switch -= 1;
        if cases.is_empty() {
            return self.simple_stmt();
        }
        Stmt::Switch(e, cases, def)
    }

    fn simple_stmt(&mut self) -> Stmt {
        if self.cfg.hw_dense && !self.hw.is_empty() && self.rng.chance(2, 5) {
            return self.hw_stmt();
        }
        if self.cfg.calls_everywhere && !self.callable.is_empty() && self.rng.chance(1, 6) {
            if let Some(s) = self.call_position_stmt() {
                return s;
            }
        }
        let r = self.rng.below(100);
        if r < 70 {
            return self.assign_stmt();
        }
        if r < 78 && self.cfg.calls && !self.callable.is_empty() {
            self.st_reset();
            if let Some(c) = self.call_expr(false) {
                self.forget_xy();
                if self.rng.chance(1, 4) {
                    // a register known to hold a constant when the (possibly inlined) body starts
                    let reg = if self.rng.chance(1, 2) { LV::X } else { LV::Y };
                    if !self.is_protected(&reg) && !Self::mentions(&c, &reg) {
                        let k = Expr::Num(self.rng.below(6) as i32);
                        return Stmt::Block(vec![Stmt::Expr(Expr::Assign(reg, Box::new(k))), Stmt::Expr(c)]);
                    }
                }
                return Stmt::Expr(c);
            }
        }
        if r < 84 {
            // X = k / Y = k : makes indexed accesses available afterwards
            let l = if self.rng.chance(1, 2) { LV::X } else { LV::Y };
            if !self.is_protected(&l) {
                let e = Expr::Num(self.rng.below(ARR_LEN as u64) as i32);
                self.note_write(&l, Some(&e));
                return Stmt::Expr(Expr::Assign(l, Box::new(e)));
            }
        }
        if r < 88 && self.cfg.comma {
            let a = self.assign_stmt();
            let b = self.assign_stmt();
            if let (Stmt::Expr(ea), Stmt::Expr(eb)) = (a.clone(), b) {
                if !Self::has_call(&ea) && !Self::has_call(&eb) {
                    return Stmt::Expr(Expr::Comma(Box::new(ea), Box::new(eb)));
                }
            }
            return a;
        }
        if r < 92 && self.cfg.hw && !self.hw.is_empty() {
            return self.hw_stmt();
        }
        if r < 95 && !self.ptrs.is_empty() && !self.ptr_targets().is_empty() {
            let p = self.ptrs[0];
            let a = *self.rng.pick(&self.ptr_targets());
            return Stmt::Expr(Expr::Assign(LV::Var(p), Box::new(Expr::AddrOf(a))));
        }
        if r < 97 {
            return Stmt::Empty;
        }
        self.assign_stmt()
    }

    /// call-graph profile (C12): a call in one of the positions ordinary statements do not offer -
    /// switch selector, initialiser, subscript, for header, loop condition
    fn call_position_stmt(&mut self) -> Option<Stmt> {
        self.st_reset();
        let c = self.call_expr(true)?;
        self.forget_xy();
        let g = LV::Var(self.g8.iter().cloned().find(|v| !self.is_const(*v) && !self.is_protected(&LV::Var(*v)))?);
        let set = |k: i32| Stmt::Expr(Expr::Assign(g.clone(), Box::new(Expr::Num(k))));
        Some(match self.rng.below(5) {
            0 => Stmt::Switch(c, vec![(vec![1], vec![set(1), Stmt::Break]), (vec![0, 7], vec![set(2), Stmt::Break])], Some(vec![set(3)])),
            1 => {
                let l = self.new_local(Ty::U8, "t");
                Stmt::Block(vec![Stmt::Decl(l, Some(c)), Stmt::Expr(Expr::Assign(g.clone(), Box::new(Expr::Lv(LV::Var(l)))))])
            }
            2 => {
                if self.arrs.is_empty() {
                    return None;
                }
                let a = self.arrs[0];
                let i = Expr::Bin(BinOp::And, Box::new(c), Box::new(Expr::Num(ARR_LEN as i32 - 1)));
                Stmt::Expr(Expr::Assign(g.clone(), Box::new(Expr::Lv(LV::Idx(a, Box::new(i))))))
            }
            3 => {
                let l = self.new_local(Ty::U8, "i");
                let init = Expr::Assign(LV::Var(l), Box::new(Expr::Bin(BinOp::And, Box::new(c), Box::new(Expr::Num(3)))));
                let cond = Expr::Bin(BinOp::Ne, Box::new(Expr::Lv(LV::Var(l))), Box::new(Expr::Num(0)));
                let up = Expr::IncDec { lv: LV::Var(l), post: true, inc: false };
                Stmt::Block(vec![Stmt::Decl(l, Some(Expr::Num(0))), Stmt::For(Some(init), Some(cond), Some(up), Box::new(Stmt::Block(vec![set(4)])))])
            }
            _ => {
                let l = self.new_local(Ty::U8, "i");
                let cond = Expr::Bin(
                    BinOp::LAnd,
                    Box::new(Expr::Bin(BinOp::Lt, Box::new(Expr::Lv(LV::Var(l))), Box::new(Expr::Num(3)))),
                    Box::new(c),
                );
                let up = Stmt::Expr(Expr::IncDec { lv: LV::Var(l), post: true, inc: true });
                Stmt::Block(vec![Stmt::Decl(l, Some(Expr::Num(0))), Stmt::While(cond, Box::new(Stmt::Block(vec![up])))])
            }
        })
    }

    pub fn hw_stmt(&mut self) -> Stmt {
        // One access kind per register belongs to the explicit statements alone, so that their
        // executions can be counted exactly among ordinary accesses to the same operands:
        //   hw[0]: reads are load() only; ordinary assignments write it
        //   hw[1]: ordinary reads and writes only
        //   hw[2..]: writes are strobe() / store() only; ordinary assignments read them into
        //            `sink` (what they read is the accumulator of an earlier store: not modelled)
        self.st_reset();
        let wo = *self.rng.pick(&self.hw[2..4].to_vec());
        match self.rng.below(14) {
            13 => {
                // an explicit load of what the accumulator already holds (it has just been compared),
                // followed by a store and another load: redundant as data flow, still prescribed
                let g = self.g8.iter().cloned().find(|v| !self.is_const(*v) && !self.is_protected(&LV::Var(*v))).unwrap_or(self.g8[0]);
                if self.is_const(g) || self.is_protected(&LV::X) {
                    return Stmt::Strobe(wo);
                }
                let k = self.rng.below(4) as i32;
                let op = if self.rng.chance(1, 2) { BinOp::Eq } else { BinOp::Ne };
                let body = vec![
                    Stmt::Load(Expr::Lv(LV::Var(g))),
                    Stmt::Store(LV::Deref(wo)),
                    Stmt::Expr(Expr::Assign(LV::X, Box::new(Expr::Num(2)))),
                ];
                self.forget_xy();
                Stmt::If(Expr::Bin(op, Box::new(Expr::Lv(LV::Var(g))), Box::new(Expr::Num(k))), Box::new(Stmt::Block(body)), None)
            }
            12 => {
                // an explicit load whose operand has work postponed to the end of the statement
                // (a post-increment, the restore of a saved Y), as the unbraced body of an if: the
                // postponed work belongs to the statement, not to what follows the if
                if self.is_protected(&LV::X) || self.is_protected(&LV::Y) || self.arrs.is_empty() {
                    return Stmt::Strobe(wo);
                }
                let a = self.arrs[0];
                let k = self.rng.below(6) as i32;
                let (pre, operand) = match self.rng.below(3) {
                    0 => (Stmt::Expr(Expr::Assign(LV::X, Box::new(Expr::Num(k)))), Expr::Lv(LV::Idx(a, Box::new(Expr::IncDec { lv: LV::X, post: true, inc: true })))),
                    1 => (Stmt::Expr(Expr::Assign(LV::Y, Box::new(Expr::Num(k)))), Expr::Lv(LV::Idx(a, Box::new(Expr::IncDec { lv: LV::Y, post: true, inc: true })))),
                    _ => {
                        let g = self.g8.iter().cloned().find(|v| !self.is_const(*v)).unwrap_or(self.g8[0]);
                        (Stmt::Expr(Expr::Assign(LV::Var(g), Box::new(Expr::Num(k)))), Expr::Lv(LV::Idx(a, Box::new(Expr::Lv(LV::Var(g))))))
                    }
                };
                let c = self.cond(0);
                self.forget_xy();
                Stmt::Block(vec![pre, Stmt::If(c, Box::new(Stmt::Load(operand)), None)])
            }
            11 => {
                // register transfers between two markers: load(X) = TXA, store(Y) = TAY, ...
                // (each pair copies one register into the other; X and Y must not be loop counters)
                if self.is_protected(&LV::X) || self.is_protected(&LV::Y) {
                    return Stmt::Strobe(wo);
                }
                self.asm_n += 2;
                let mut v = vec![Stmt::Asm(format!("NOP ;@I{}", self.asm_n - 1), Some(1))];
                let n = self.rng.range(1, 3);
                for _ in 0..n {
                    let (a, b) = if self.rng.chance(1, 2) { (LV::X, LV::Y) } else { (LV::Y, LV::X) };
                    v.push(Stmt::Load(Expr::Lv(a.clone())));
                    if self.rng.chance(1, 3) {
                        // a delay between the load and the store: the accumulator must survive it
                        v.push(Stmt::CSleep(*self.rng.pick(&[2, 3, 4, 5, 6, 7, 8, 9, 10])));
                    }
                    // store into the other register, or back into the same one (TAX after TXA)
                    v.push(Stmt::Store(if self.rng.chance(1, 2) { b } else { a }));
                }
                v.push(Stmt::Asm(format!("NOP ;@I{}", self.asm_n), Some(1)));
                self.forget_xy();
                Stmt::Block(v)
            }
            0 => Stmt::Strobe(wo),
            1 => Stmt::Load(Expr::Lv(LV::Deref(self.hw[0]))),
            2 => Stmt::Store(LV::Deref(wo)),
            3 => {
                if self.rng.chance(1, 4) {
                    // an asm statement that emits nothing, declared as such
                    return Stmt::Asm("; nothing to see here".into(), Some(0));
                }
                self.asm_n += 1;
                Stmt::Asm(format!("NOP ;@I{}", self.asm_n), Some(1))
            }
            4 => {
                // csleep bracketed by two markers so that its cycles can be measured in context
                let n = *self.rng.pick(&[2, 3, 4, 5, 6, 7, 8, 9, 10]);
                self.asm_n += 2;
                let mut v = vec![Stmt::Asm(format!("NOP ;@I{}", self.asm_n - 1), Some(1)), Stmt::CSleep(n)];
                // now and then several delays in a row (adjacent PHA/PLA, NOP runs, DEC pairs)
                while self.rng.chance(1, 3) && v.len() < 4 {
                    let m = if self.rng.chance(1, 2) { n } else { *self.rng.pick(&[2, 3, 5, 7, 9]) };
                    v.push(Stmt::CSleep(m));
                }
                v.push(Stmt::Asm(format!("NOP ;@I{}", self.asm_n), Some(1)));
                Stmt::Block(v)
            }
            5 | 6 => {
                // ordinary write of hw[0] / hw[1]
                let t = if self.rng.chance(1, 2) { self.hw[0] } else { self.hw[1] };
                self.st_top = false;
                let e = self.leaf8();
                Stmt::Expr(Expr::Assign(LV::Deref(t), Box::new(e)))
            }
            7 => {
                // load of an ordinary variable
                let s = self.scalars8(false);
                let v = *self.rng.pick(&s);
                Stmt::Load(Expr::Lv(LV::Var(v)))
            }
            8 => {
                // ordinary read of a strobe / store target just before or after it is strobed
                Stmt::Expr(Expr::Assign(LV::Var(self.sink.unwrap()), Box::new(Expr::Lv(LV::Deref(wo)))))
            }
            _ => {
                let l = self.dest8();
                self.note_write(&l, None);
                let r = if self.rng.chance(1, 3) { self.hw[4] } else { self.hw[1] };
                Stmt::Expr(Expr::Assign(l, Box::new(Expr::Lv(LV::Deref(r)))))
            }
        }
    }

    // ---------------------------------------------------------------- functions

    pub fn function(&mut self, idx: usize, name: &str, is_main: bool) -> Func {
        self.fc = FnCtx {
            idx,
            locals: vec![],
            protected: vec![],
            loop_depth: 0,
            in_switch: 0,
            label_n: 0,
            x_lt: 0,
            y_lt: 0,
            top_level: true,
        };
        let mut params = Vec::new();
        let mut ret = None;
        let mut inline = false;
        if !is_main {
            let np = self.rng.range(0, 2) as usize;
            for i in 0..np {
                let kind = if self.cfg.ptrs && !self.ptr_targets().is_empty() && self.rng.chance(1, 8) {
                    VarKind::Ptr
                } else if self.cfg.shorts && self.rng.chance(1, 8) {
                    VarKind::Scalar(Ty::I16)
                } else {
                    VarKind::Scalar(Ty::U8)
                };
                let v = self.add_var(format!("a{}", i), kind.clone(), MemClass::Zp, Scope::Param(idx));
                params.push(v);
                if let VarKind::Scalar(_) = kind {
                    self.fc.locals.push(v);
                }
            }
            if self.rng.chance(2, 3) {
                ret = Some(Ty::U8);
            }
            inline = self.cfg.inline && self.rng.chance(1, 3);
        }
        let mut body = Vec::new();
        if is_main {
            // pointers are given a target first
            for p in self.ptrs.clone() {
                let a = *self.rng.pick(&self.ptr_targets());
                body.push(Stmt::Expr(Expr::Assign(LV::Var(p), Box::new(Expr::AddrOf(a)))));
            }
        }
        // a couple of initialised locals
        // the first statement of every function is a declaration with an initialiser: the
        // generator's knowledge of the flags leaks from the previous function (known finding
        // flags_leak_across_functions)
        // (a function may start with any statement since the flag knowledge no longer leaks
        // from the previous function: fix 5ccfe0d)
        let nl = self.rng.range(0, 2) as usize;
        for _ in 0..nl {
            let t = if self.cfg.shorts && self.rng.chance(1, 5) {
                Ty::I16
            } else if self.cfg.signed_vars && self.rng.chance(1, 6) {
                Ty::I8
            } else {
                Ty::U8
            };
            let v = self.new_local(t, "l");
            self.st_reset();
            let e = if t.bits() == 16 {
                self.leaf16()
            } else if self.rng.chance(1, 2) {
                // initialisers are parsed by their own operator table: whole expressions too
                self.st_top = false;
                self.st_no_calls = true;
                self.st_scratch_ok = true;
                self.expr(W::W8, 2)
            } else {
                self.leaf8()
            };
            body.push(Stmt::Decl(v, Some(e)));
            self.fc.locals.push(v);
        }
        let n = self.rng.range(self.cfg.stmts.0 as i64, self.cfg.stmts.1 as i64) as usize;
        let n = if is_main { n } else { (n / 2).max(1) };
        let mut goto_pending: Option<String> = None;
        for k in 0..n {
            // forward goto over one statement, backward goto guarded by a counter
            if self.cfg.gotos && self.rng.chance(1, 25) && goto_pending.is_none() && k + 1 < n {
                self.fc.label_n += 1;
                let l = format!("L{}_{}", idx, self.fc.label_n);
                self.st_reset();
                let c = self.cond(1);
                body.push(Stmt::If(c, Box::new(Stmt::Goto(l.clone())), None));
                goto_pending = Some(l);
                let s = self.stmt(self.cfg.nest.min(1));
                body.push(s);
                continue;
            }
            let s = self.stmt(self.cfg.nest);
            if let Some(l) = goto_pending.take() {
                self.forget_xy();
                body.push(Stmt::Labeled(l, Box::new(s)));
            } else {
                body.push(s);
            }
            // early return inside a condition
            if !is_main && self.rng.chance(1, 12) {
                self.st_reset();
                let c = self.cond(1);
                self.st_reset();
                let r = if ret.is_some() { Stmt::Return(Some(self.leaf8())) } else { Stmt::Return(None) };
                body.push(Stmt::If(c, Box::new(r), None));
            }
        }
        if let Some(l) = goto_pending.take() {
            body.push(Stmt::Labeled(l, Box::new(Stmt::Empty)));
        }
        if ret.is_some() {
            self.st_reset();
            self.st_top = false;
            let e = self.expr(W::W8, 1);
            body.push(Stmt::Return(Some(e)));
        }
        Func {
            name: name.to_string(),
            ret,
            params,
            body,
            inline,
            interrupt: false,
            proto_first: false,
        }
    }

    pub fn program(mut self) -> Program {
        self.globals();
        let nf = self.rng.range(0, self.cfg.max_funcs as i64 - 1) as usize;
        let nf = if self.cfg.calls { nf } else { 0 };
        for i in 0..nf {
            let mut f = self.function(i, &format!("f{}", i), false);
            if self.cfg.prototypes && self.rng.chance(1, 3) {
                f.proto_first = true;
            }
            self.p.funcs.push(f);
            // a function that is only reachable through others, or not at all, stays possible:
            // not every function becomes callable from everywhere
            if !(self.cfg.calls_everywhere && self.rng.chance(1, 6)) {
                self.callable.push(i);
            }
        }
        let mut nfun = nf;
        if self.cfg.interrupt_handler && self.rng.chance(1, 2) {
            // a small handler: touches a global and possibly calls a (non-inline) function
            let mut body = vec![Stmt::Expr(Expr::IncDec { lv: LV::Var(self.g8[0]), post: true, inc: true })];
            let cands: Vec<usize> = self.callable.iter().cloned().filter(|f| self.p.funcs[*f].params.is_empty()).collect();
            if !cands.is_empty() && self.rng.chance(1, 2) {
                let f = *self.rng.pick(&cands);
                body.push(Stmt::Expr(Expr::Call(f, vec![])));
            }
            self.p.funcs.push(Func { name: "nmi".into(), ret: None, params: vec![], body, inline: false, interrupt: true, proto_first: false });
            nfun += 1;
        }
        let m = self.function(nfun, "main", true);
        self.p.funcs.push(m);
        self.p
    }

    fn has_return(s: &Stmt) -> bool {
        match s {
            Stmt::Return(_) => true,
            Stmt::If(_, t, e) => Self::has_return(t) || e.as_ref().map(|e| Self::has_return(e)).unwrap_or(false),
            Stmt::Block(v) => v.iter().any(Self::has_return),
            Stmt::While(_, b) | Stmt::DoWhile(b, _) | Stmt::For(_, _, _, b) | Stmt::Labeled(_, b) => Self::has_return(b),
            Stmt::Switch(_, c, d) => c.iter().any(|c| c.1.iter().any(Self::has_return)) || d.as_ref().map(|d| d.iter().any(Self::has_return)).unwrap_or(false),
            _ => false,
        }
    }
}

pub fn gen_program(tag: &str, index: u64, cfg: &GenCfg) -> Program {
    let rng = Rng::for_case(tag, index);
    Gen::new(rng, cfg).program()
}

/// Input vector: initial values of all RAM globals, X, Y.
pub fn gen_input(p: &Program, tag: &str, index: u64, k: u64) -> State {
    let mut rng = Rng::for_case(&format!("{}-in", tag), index.wrapping_mul(31).wrapping_add(k));
    let mut st = zero_state(p);
    let boundary = k % 2 == 0;
    for (i, v) in p.vars.iter().enumerate() {
        match &v.kind {
            VarKind::Scalar(t) | VarKind::Array(t, _) => {
                for c in st.vals[i].iter_mut() {
                    let raw: i64 = if t.bits() == 8 {
                        if boundary { rng.bbyte() as i64 } else { rng.byte() as i64 }
                    } else {
                        const B: [i64; 9] = [0, 1, 0xff, 0x100, 0x7fff, 0x8000, 0xffff, 0x00fe, 0x0101];
                        if boundary && rng.chance(1, 2) { *rng.pick(&B) } else { rng.below(0x10000) as i64 }
                    };
                    *c = t.wrap(raw);
                }
            }
            _ => {}
        }
    }
    st.x = rng.bbyte() as i64;
    st.y = rng.bbyte() as i64;
    // what the hardware registers read as until something writes them (drawn last, from a
    // generator of their own, so that every other value stays what it was)
    let mut hrng = Rng::for_case(&format!("{}-hw", tag), index.wrapping_mul(31).wrapping_add(k));
    for (i, v) in p.vars.iter().enumerate() {
        if let VarKind::HwReg(_) = v.kind {
            for c in st.vals[i].iter_mut() {
                *c = hrng.byte() as i64;
            }
        }
    }
    st
}

// ------------------------------------------------------------------------------------------
// Label-stress profile (C13, also C12/C14): the same function inlined 1-5 times, inline inside
// inline, loops / switch / goto / early return inside inlined bodies, long bodies inside
// inlined code (long-branch repair + label renaming).

impl<'a> Gen<'a> {
    fn forced_calls(&mut self, f: usize, n: usize) -> Vec<Stmt> {
        let mut v = Vec::new();
        for _ in 0..n {
            self.st_reset();
            let save = self.callable.clone();
            self.callable = vec![f];
            if let Some(c) = self.call_expr(false) {
                // use the value when there is one, in a larger expression sometimes
                if self.p.funcs[f].ret.is_some() && self.rng.chance(1, 2) {
                    let d = self.g8[0];
                    if self.rng.chance(1, 2) {
                        v.push(Stmt::Expr(Expr::Assign(LV::Var(d), Box::new(c))));
                    } else {
                        let k = self.const8();
                        v.push(Stmt::Expr(Expr::Assign(
                            LV::Var(d),
                            Box::new(Expr::Bin(BinOp::Add, Box::new(c), Box::new(k))),
                        )));
                    }
                } else {
                    v.push(Stmt::Expr(c));
                }
            }
            self.callable = save;
        }
        v
    }

    fn long_if(&mut self) -> Stmt {
        let g = self.g8[0];
        let n = self.rng.range(26, 40) as usize;
        let mut b = Vec::new();
        for i in 0..n {
            b.push(Stmt::Expr(Expr::Assign(LV::Var(self.g8[1 % self.g8.len()]), Box::new(Expr::Num((i as i32 * 7 + 1) & 0xff)))));
        }
        self.st_reset();
        let c = self.cond(0);
        let _ = g;
        Stmt::If(c, Box::new(Stmt::Block(b)), None)
    }

    pub fn stress(mut self) -> Program {
        self.globals();
        // make sure the unprotected globals used by forced statements are plain variables
        let mut f0 = self.function(0, "f0", false);
        f0.inline = true;
        // register context: the caller loads an index register with a constant right before the
        // call, the body starts by stepping and testing it.  Inlined, load + step + test are one
        // basic block for the peephole pass; out of line a JSR separates them
        let regctx: Option<(LV, i32)> = if self.rng.chance(1, 3) {
            let reg = if self.rng.chance(2, 3) { LV::X } else { LV::Y };
            let c = self.rng.range(0, 6) as i32;
            let inc = self.rng.chance(1, 2);
            let d = self.g8.iter().rev().cloned().find(|v| !self.is_const(*v)).unwrap_or(self.g8[0]);
            let k = self.const8();
            let op = if self.rng.chance(1, 2) { BinOp::Ne } else { BinOp::Eq };
            let test = Stmt::If(
                Expr::Bin(op, Box::new(Expr::Lv(reg.clone())), Box::new(Expr::Num(c))),
                Box::new(Stmt::Expr(Expr::Assign(LV::Var(d), Box::new(k)))),
                None,
            );
            let lead = f0.body.iter().take_while(|s| matches!(s, Stmt::Decl(..))).count();
            f0.body.insert(lead, test);
            f0.body.insert(lead, Stmt::Expr(Expr::IncDec { lv: reg.clone(), post: true, inc }));
            Some((reg, c))
        } else {
            None
        };
        // accumulator context: the caller compares a variable with a constant and calls in the
        // fall-through, the body starts by copying that variable and testing the copy.  Inlined,
        // the peephole pass knows A still holds the variable when the body starts
        let accctx: Option<(VarId, i32)> = if regctx.is_none() && self.rng.chance(1, 3) {
            let cands: Vec<VarId> = self.g8.iter().cloned().filter(|v| !self.is_const(*v)).collect();
            if cands.len() >= 3 {
                let g = cands[0];
                let d = cands[1];
                let t = cands[2];
                let c = self.rng.range(1, 5) as i32;
                let k = self.const8();
                let lead = f0.body.iter().take_while(|s| matches!(s, Stmt::Decl(..))).count();
                f0.body.insert(lead, Stmt::If(Expr::Lv(LV::Var(d)), Box::new(Stmt::Expr(Expr::Assign(LV::Var(t), Box::new(k)))), None));
                f0.body.insert(lead, Stmt::Expr(Expr::Assign(LV::Var(d), Box::new(Expr::Lv(LV::Var(g))))));
                Some((g, c))
            } else {
                None
            }
        } else {
            None
        };
        if self.rng.chance(1, 3) {
            let s = self.long_if();
            let at = f0.body.len().saturating_sub(1);
            f0.body.insert(at, s);
        }
        self.p.funcs.push(f0);
        self.callable.push(0);
        let mut f1 = self.function(1, "f1", false);
        f1.inline = self.rng.chance(2, 3);
        let n = self.rng.range(1, 2) as usize;
        let calls = self.forced_calls(0, n);
        let at = f1.body.len().saturating_sub(1);
        for c in calls {
            f1.body.insert(at, c);
        }
        self.p.funcs.push(f1);
        self.callable.push(1);
        let mut f2 = self.function(2, "f2", false);
        f2.inline = false;
        let calls = self.forced_calls(1, 1);
        let at = f2.body.len().saturating_sub(1);
        for c in calls {
            f2.body.insert(at, c);
        }
        self.p.funcs.push(f2);
        self.callable.push(2);
        let mut m = self.function(3, "main", true);
        let k = self.rng.range(1, 5) as usize;
        let mut extra = self.forced_calls(0, k);
        if let Some((reg, c)) = &regctx {
            // constant loads in front of the direct calls: the tested constant, its neighbours
            let mut with = Vec::new();
            for st in extra {
                let v = (*c + self.rng.range(0, 2) as i32 - 1) & 0xff;
                with.push(Stmt::Block(vec![Stmt::Expr(Expr::Assign(reg.clone(), Box::new(Expr::Num(v)))), st]));
            }
            extra = with;
        }
        if let Some((g, c)) = &accctx {
            let mut with = Vec::new();
            for st in extra {
                let op = if self.rng.chance(3, 4) { BinOp::Eq } else { BinOp::Ne };
                with.push(Stmt::If(Expr::Bin(op, Box::new(Expr::Lv(LV::Var(*g))), Box::new(Expr::Num(*c))), Box::new(Stmt::Block(vec![st])), None));
            }
            extra = with;
        }
        extra.extend(self.forced_calls(1, 2));
        extra.extend(self.forced_calls(2, 1));
        // spread them through main
        for c in extra {
            let at = self.rng.below(m.body.len() as u64 + 1) as usize;
            // never before the leading declarations / pointer set-up
            let lead = m.body.iter().take_while(|s| matches!(s, Stmt::Decl(..)) || matches!(s, Stmt::Expr(Expr::Assign(_, e)) if matches!(**e, Expr::AddrOf(_)))).count();
            m.body.insert(at.max(lead), c);
        }
        self.p.funcs.push(m);
        self.p
    }
}

pub fn stress_program(index: u64, cfg: &GenCfg) -> Program {
    let rng = Rng::for_case("stress", index);
    Gen::new(rng, cfg).stress()
}
