// C01: emitted 6502 code computes what the C source says.
// Reference-model monitor: compile (real compiler) -> independent assembler -> emulator;
// oracle = reference interpreter (ISO evaluation, judged only when the 8-bit-context
// evaluation agrees).

use crate::cgen::*;
use crate::cmodel::*;
use crate::common::*;
use crate::driver::*;
use crate::emu6502::Stop;
use crate::exec::*;
use crate::framework::*;
use crate::pins;
use serde_json::json;

pub struct C01;

/// the optimiser-bait profile was written for C02 (its oracle is the -O0 run): a bait program can
/// be judged against the reference interpreter unless it loads registers in inline assembly
/// (not modelled) or sits in the recorded family of relational comparisons with 0
pub fn bait_not_judgeable(p: &Program) -> Option<&'static str> {
    fn has_reg_asm(s: &Stmt) -> bool {
        match s {
            Stmt::Asm(t, _) => !t.starts_with("NOP"),
            Stmt::If(_, a, b) => has_reg_asm(a) || b.as_ref().map(|b| has_reg_asm(b)).unwrap_or(false),
            Stmt::While(_, b) | Stmt::DoWhile(b, _) | Stmt::For(_, _, _, b) | Stmt::Labeled(_, b) => has_reg_asm(b),
            Stmt::Block(v) => v.iter().any(has_reg_asm),
            Stmt::Switch(_, c, d) => c.iter().any(|c| c.1.iter().any(has_reg_asm)) || d.as_ref().map(|d| d.iter().any(has_reg_asm)).unwrap_or(false),
            _ => false,
        }
    }
    fn rel_zero(e: &Expr) -> bool {
        match e {
            Expr::Bin(op, a, b) => {
                (matches!(op, BinOp::Lt | BinOp::Le | BinOp::Gt | BinOp::Ge)
                    && (matches!(**a, Expr::Num(0) | Expr::Hex(0)) || matches!(**b, Expr::Num(0) | Expr::Hex(0))))
                    || rel_zero(a)
                    || rel_zero(b)
            }
            Expr::Un(_, a) | Expr::Paren(a) => rel_zero(a),
            Expr::Assign(_, r) | Expr::OpAssign(_, _, r) => rel_zero(r),
            Expr::Cond(a, b, c) => rel_zero(a) || rel_zero(b) || rel_zero(c),
            Expr::Comma(a, b) => rel_zero(a) || rel_zero(b),
            _ => false,
        }
    }
    fn stmt_rel_zero(s: &Stmt) -> bool {
        match s {
            Stmt::Expr(e) => rel_zero(e),
            Stmt::If(c, a, b) => rel_zero(c) || stmt_rel_zero(a) || b.as_ref().map(|b| stmt_rel_zero(b)).unwrap_or(false),
            Stmt::While(c, b) | Stmt::DoWhile(b, c) => rel_zero(c) || stmt_rel_zero(b),
            Stmt::For(a, b, c, d) => [a, b, c].iter().any(|e| e.as_ref().map(rel_zero).unwrap_or(false)) || stmt_rel_zero(d),
            Stmt::Labeled(_, b) => stmt_rel_zero(b),
            Stmt::Block(v) => v.iter().any(stmt_rel_zero),
            Stmt::Switch(e, c, d) => rel_zero(e) || c.iter().any(|c| c.1.iter().any(stmt_rel_zero)) || d.as_ref().map(|d| d.iter().any(stmt_rel_zero)).unwrap_or(false),
            _ => false,
        }
    }
    if p.funcs.iter().any(|f| f.body.iter().any(has_reg_asm)) {
        return Some("bait program with register-loading asm (judged by C02 only)");
    }
    if p.funcs.iter().any(|f| f.body.iter().any(stmt_rel_zero)) {
        return Some("bait program inside a recorded family (relational comparison with 0)");
    }
    None
}


pub const RAND_POOL: u64 = 1_200_000;
pub const NVEC: u64 = 6;

pub fn cfg_c01() -> GenCfg {
    GenCfg::default()
}

/// Shared by C01 (both levels against the reference) – returns a CaseResult.
pub fn judge_program(
    prop: &str,
    kind: &str,
    idx: u64,
    p: &Program,
    tag: &str,
    levels: &[u8],
    pin_sig: Option<&str>,
) -> CaseResult {
    judge_program_src(prop, kind, idx, p, tag, levels, pin_sig, None)
}

/// Text that conditional compilation must drop, written into the body of main: groups that are
/// never selected (nested, with #else / #elif parts, with directives and statements inside).
/// The program means what it meant without them.
pub fn with_dead_text(src: &str, p: &Program, idx: u64) -> String {
    let mut rng = crate::util::Rng::for_case("C01dead", idx);
    let g: Vec<&str> = p
        .vars
        .iter()
        .filter(|v| v.scope == Scope::Global && v.mem == MemClass::Zp && matches!(v.kind, VarKind::Scalar(Ty::U8)))
        .map(|v| v.name.as_str())
        .collect();
    if g.is_empty() {
        return src.to_string();
    }
    let mut junk = |rng: &mut crate::util::Rng| {
        let a = g[rng.below(g.len() as u64) as usize];
        match rng.below(3) {
            0 => format!("  {} = {};", a, rng.below(250)),
            1 => format!("  {}++;", a),
            _ => format!("  {} = {} + {};", a, g[rng.below(g.len() as u64) as usize], 1 + rng.below(9)),
        }
    };
    let block = |rng: &mut crate::util::Rng, junk: &mut dyn FnMut(&mut crate::util::Rng) -> String| -> Vec<String> {
        let outer = ["#ifdef NEVER_DEFINED_A", "#if 0", "#ifndef ALWAYS_1", "#if ALWAYS_0"][rng.below(4) as usize];
        let inner = ["#ifndef NEVER_DEFINED_B", "#ifdef ALWAYS_1", "#if 1", "#ifdef NEVER_DEFINED_B", "#if ALWAYS_0"][rng.below(5) as usize];
        let mut v = vec![outer.to_string(), junk(rng)];
        if rng.chance(2, 3) {
            v.push(inner.to_string());
            v.push(junk(rng));
            match rng.below(3) {
                0 => {
                    v.push("#else".into());
                    v.push(junk(rng));
                }
                1 => {
                    v.push("#elif 1".into());
                    v.push(junk(rng));
                    v.push("#else".into());
                    v.push(junk(rng));
                }
                _ => {}
            }
            if rng.chance(1, 3) {
                v.push("#define ALWAYS_0 1".into());
                v.push("#undef ALWAYS_1".into());
            }
            v.push("#endif".into());
        }
        v.push(junk(rng));
        v.push("#endif".into());
        v
    };
    let mut out: Vec<String> = vec!["#define ALWAYS_1 1".into(), "#define ALWAYS_0 0".into()];
    let lines: Vec<&str> = src.lines().collect();
    let main_at = lines.iter().position(|l| l.starts_with("void main()"));
    let last_brace = lines.iter().rposition(|l| *l == "}");
    for (i, l) in lines.iter().enumerate() {
        if Some(i) == last_brace && main_at.is_some() {
            out.extend(block(&mut rng, &mut junk));
        }
        out.push(l.to_string());
        if Some(i) == main_at {
            out.extend(block(&mut rng, &mut junk));
        }
    }
    out.join("\n") + "\n"
}

pub fn judge_program_src(
    prop: &str,
    kind: &str,
    idx: u64,
    p: &Program,
    tag: &str,
    levels: &[u8],
    pin_sig: Option<&str>,
    src_override: Option<String>,
) -> CaseResult {
    let src = src_override.unwrap_or_else(|| print_program(p));
    let key = crate::util::hash_str(&src);
    let mut res = CaseResult::new("accepted", key);
    let mut kinds = std::collections::BTreeSet::new();
    ast_kinds(p, &mut kinds);
    let mut judged = 0u64;
    let mut any_ready = false;
    for lvl in levels {
        let opts = Opts::o(*lvl);
        let (obs, built) = match prepare(&src, &opts) {
            Prep::Ready(o, b) => (o, b),
            Prep::Skip(c) => {
                res.class = c;
                continue;
            }
        };
        any_ready = true;
        for k in 0..NVEC {
            let input = gen_input(p, tag, idx, k);
            let (exp, _trace, steps) = match reference(p, &input, 20_000) {
                Ok(x) => x,
                Err(e) => {
                    res.count(&format!("vectors discarded: {}", norm_msg(&e)), 1);
                    continue;
                }
            };
            let rr = run_compiled(p, &built, &input, cycle_budget(steps), &|_m| {});
            judged += 1;
            res.count("vectors judged", 1);
            res.count("comparisons", 1);
            if *lvl == levels[0] && k == 0 {
                record_exec_coverage(&mut res, &rr.machine);
            }
            let bad = match &rr.stop {
                Stop::Halt => diff_states(p, &exp, &rr.state, true).map(|d| format!("final state differs: expected vs got {}", d)),
                s => Some(format!("emitted code did not finish like the reference: {}", stop_str(s))),
            };
            if let Some(why) = bad {
                let sig = match pin_sig {
                    Some(s) => s.to_string(),
                    None => format!("{}:{}:{}", prop, kind, idx),
                };
                res.violate(
                    &sig,
                    &format!("{} at -O{} on input #{}: {}\n--- source\n{}", prop, lvl, k, why, src),
                    json!({"kind": kind, "idx": idx, "opt": lvl, "vector": k, "why": why,
                           "source": src, "input": state_brief(p, &input), "expected": state_brief(p, &exp),
                           "observed": state_brief(p, &rr.state), "listing": listing(&obs)}),
                );
                break;
            }
        }
    }
    if any_ready && judged > 0 {
        res.class = "accepted, executed and judged".into();
        res.nontrivial = true;
        for k in kinds {
            res.set("source constructs in judged programs", &k);
        }
    } else if any_ready {
        res.class = "accepted but no input vector in the unambiguous domain".into();
    }
    if idx % 997 == 0 {
        res.sample = Some(json!({"kind": kind, "idx": idx, "source": src, "class": res.class}));
    }
    res
}

impl Monitor for C01 {
    fn id(&self) -> &'static str {
        "C01"
    }
    fn level(&self) -> &'static str {
        "exploration"
    }
    fn rule(&self) -> String {
        "cases = pinned witnesses + enumerated operator/operand/context matrix + seeded random programs \
         (fixed pool, VERIF_SEED selects the window); each compiled at -O0 and -O1 by the real compiler, \
         assembled by an independent assembler and executed on an independent 6502 emulator from 6 input \
         vectors; oracle = reference C interpreter (ISO promotions), a vector is judged only when the \
         8-bit-context evaluation gives the same result. distinct = by hash of the source text; \
         Also judged: the optimiser-bait programs, and the random programs with never-selected conditional groups written into main (kind deadtext). A vector is judged only when the two evaluation modes agree in every decision and stored value. \
         non-trivial = accepted by the compiler AND executed AND at least one vector judged against the reference"
            .into()
    }
    fn assumptions(&self) -> Vec<String> {
        vec![
            "trusted base: asm6502 (opcode matrix, DASM mode rule), emu6502, cmodel interpreter".into(),
            "int is 16 bits; arithmetic right shift of negative values; signed overflow wraps".into(),
            "generator exclusions for the known-finding families listed in known_findings.json".into(),
        ]
    }
    fn plan(&self, tier: &Tier, seed: u64) -> Vec<Chunk> {
        let mut v = Vec::new();
        v.extend(split_chunks("pin", 0, pins::c01_pins().len() as u64, pins::c01_pins().len() as u64, 4));
        let nm = crate::matrix::matrix_len();
        v.extend(split_chunks("matrix", 0, nm, nm, 200));
        let n = match tier {
            Tier::Quick => 60_000,
            Tier::Thorough => RAND_POOL,
        };
        v.extend(split_chunks("rand", seed_offset(seed, "C01", RAND_POOL), n, RAND_POOL, 150));
        // the optimiser-bait and hardware profiles are valid C too: judged against the reference
        let nb = n / 4;
        v.extend(split_chunks("bait", seed_offset(seed, "C01b", 400_000), nb, 400_000, 150));
        // the random programs again, with never-selected conditional groups written into main
        v.extend(split_chunks("deadtext", seed_offset(seed, "C01d", RAND_POOL), n / 6, RAND_POOL, 150));
        v
    }
    fn run_case(&self, kind: &str, idx: u64) -> CaseResult {
        match kind {
            "pin" => pins::run_c01_pin(idx),
            "matrix" => {
                let p = crate::matrix::matrix_program(idx);
                judge_program("C01", kind, idx, &p, "C01m", &[0, 1], None)
            }
            "bait" => {
                let p = crate::bait::bait_program(idx);
                if let Some(why) = bait_not_judgeable(&p) {
                    return CaseResult::new(why, idx);
                }
                judge_program("C01", kind, idx, &p, "C01b", &[0, 1], None)
            }
            "deadtext" => {
                let p = gen_program("C01", idx, &cfg_c01());
                let src = with_dead_text(&print_program(&p), &p, idx);
                let mut r = judge_program_src("C01", kind, idx, &p, "C01", &[(idx % 2) as u8], None, Some(src));
                if r.nontrivial {
                    r.count("programs judged with never-selected conditional groups inside main", 1);
                }
                r
            }
            _ => {
                let p = gen_program("C01", idx, &cfg_c01());
                judge_program("C01", kind, idx, &p, "C01", &[0, 1], None)
            }
        }
    }
    fn thresholds(&self, tier: &Tier) -> Vec<(String, u64)> {
        vec![
            ("distinct_nontrivial".into(), if *tier == Tier::Quick { 2500 } else { 30000 }),
            ("set:executed mnemonic/mode".into(), 60),
            ("set:source constructs in judged programs".into(), 60),
        ]
    }
}
