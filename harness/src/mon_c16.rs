// C16: compilation is total - a result or a located error, never a crash.
// Crash / hang / stack watchdog around the real compile(): cases run in worker processes under
// catch_unwind (panic site recorded); an abort, stack overflow or hang kills the worker and is
// attributed to the in-flight case by the parent.

use crate::cmodel::print_program;
use crate::corpus::*;
use crate::driver::*;
use crate::framework::*;
use crate::util::Rng;
use serde_json::json;

pub struct C16;

const KEYWORDS: &[&str] = &[
    "char", "short", "int", "unsigned", "signed", "void", "const", "inline", "interrupt", "if", "else", "for", "while", "do",
    "switch", "case", "default", "break", "continue", "return", "goto", "asm", "load", "store", "strobe", "csleep", "sizeof",
    "superchip", "bank1", "bank2", "aligned", "reversed", "scattered", "display", "frequency", "ramchip", "holeydma", "screencode",
    "nopagecross", "X", "Y", "main", "undeclared_name", "proto_only",
];
const PUNCT: &[&str] = &[
    "(", ")", "{", "}", "[", "]", ";", ",", ":", "?", "=", "+", "-", "*", "/", "&", "|", "^", "~", "!", "<", ">", "<=", ">=", "==",
    "!=", "<<", ">>", "&&", "||", "++", "--", "+=", "-=", "*=", "/=", "&=", "|=", "^=", "<<=", ">>=", "#", "\"", "'", "\\", "@", "@1@", "/*",
    "*/", "//", "#define", "#if", "#endif", "#else", "#include", "#undef", "#ifdef", "#error", "=== ASSEMBLER BEGIN ===",
];
const LITERALS: &[&str] = &[
    "0", "1", "255", "256", "-1", "-128", "32767", "32768", "65535", "65536", "2147483647", "2147483648", "4294967296", "99999999999",
    "0x0", "0xff", "0xffff", "0xffffffff", "0x100000000", "0xFFFFFFFFFFFFFFFF", "0777", "077777777777777", "08", "'a'", "'\\n'", "'\\''", "''",
    "\"str\"", "\"\"", "\"unterminated", "1/0", "(1/0)", "1<<40", "1<<-1", "-2147483648", "--5", "0x", "1e5", "1.5", "0b101",
    "(-2147483647 - 1)", "~0x7fffffff", "-2147483647", "0x80000000",
];

fn tokenize(src: &str) -> Vec<String> {
    // tokens keep their leading whitespace so that the text can be re-joined verbatim
    let b: Vec<char> = src.chars().collect();
    let mut v = Vec::new();
    let mut i = 0;
    while i < b.len() {
        let st = i;
        while i < b.len() && b[i].is_whitespace() {
            i += 1;
        }
        if i >= b.len() {
            v.push(b[st..].iter().collect());
            break;
        }
        let c = b[i];
        if c.is_ascii_alphanumeric() || c == '_' {
            while i < b.len() && (b[i].is_ascii_alphanumeric() || b[i] == '_') {
                i += 1;
            }
        } else if c == '"' {
            i += 1;
            while i < b.len() && b[i] != '"' && b[i] != '\n' {
                if b[i] == '\\' {
                    i += 1;
                }
                i += 1;
            }
            i = (i + 1).min(b.len());
        } else {
            // greedy multi-char operators
            let three: String = b[i..(i + 3).min(b.len())].iter().collect();
            let two: String = b[i..(i + 2).min(b.len())].iter().collect();
            if ["<<=", ">>="].contains(&three.as_str()) {
                i += 3;
            } else if ["<=", ">=", "==", "!=", "<<", ">>", "&&", "||", "++", "--", "+=", "-=", "*=", "/=", "&=", "|=", "^="].contains(&two.as_str()) {
                i += 2;
            } else {
                i += 1;
            }
        }
        v.push(b[st..i].iter().collect());
    }
    v
}

fn random_token(rng: &mut Rng) -> String {
    match rng.below(3) {
        0 => rng.pick(KEYWORDS).to_string(),
        1 => rng.pick(PUNCT).to_string(),
        _ => rng.pick(LITERALS).to_string(),
    }
}

fn mutate(src: &str, rng: &mut Rng, ops: &mut Vec<String>) -> String {
    let mut toks = tokenize(src);
    if toks.is_empty() {
        return src.to_string();
    }
    let n = rng.range(1, 3);
    for _ in 0..n {
        if toks.is_empty() {
            break;
        }
        let i = rng.below(toks.len() as u64) as usize;
        match rng.below(7) {
            0 => {
                toks.remove(i);
                ops.push("delete".into());
            }
            1 => {
                let t = toks[i].clone();
                toks.insert(i, t);
                ops.push("duplicate".into());
            }
            2 => {
                let j = rng.below(toks.len() as u64) as usize;
                toks.swap(i, j);
                ops.push("swap".into());
            }
            3 => {
                let ws: String = toks[i].chars().take_while(|c| c.is_whitespace()).collect();
                toks[i] = format!("{}{}", ws, random_token(rng));
                ops.push("replace".into());
            }
            4 => {
                toks.insert(i, format!(" {}", random_token(rng)));
                ops.push("insert".into());
            }
            5 => {
                // retype: change a type keyword / identifier class
                let t = toks[i].trim().to_string();
                let ws: String = toks[i].chars().take_while(|c| c.is_whitespace()).collect();
                let r = match t.as_str() {
                    "char" => "short",
                    "short" => "char",
                    "unsigned" => "signed",
                    "signed" => "unsigned",
                    "void" => "char",
                    "const" => "inline",
                    "X" => "Y",
                    _ => "void",
                };
                toks[i] = format!("{}{}", ws, r);
                ops.push("retype".into());
            }
            _ => {
                // literal stress: replace a number by an out-of-range one
                let t = toks[i].trim().to_string();
                if t.chars().next().map(|c| c.is_ascii_digit()).unwrap_or(false) {
                    let ws: String = toks[i].chars().take_while(|c| c.is_whitespace()).collect();
                    toks[i] = format!("{}{}", ws, rng.pick(LITERALS));
                    ops.push("literal".into());
                } else {
                    let cut = rng.below(toks.len() as u64) as usize;
                    toks.truncate(cut.max(1));
                    ops.push("truncate".into());
                }
            }
        }
    }
    toks.concat()
}

const HOSTILE_DEFINES: &[&str] = &[
    "N", "N=5", "N=", "=5", "", "A(", "A)", "A[", "A*", "A+B", "1X", "A B", "A=B=C", "A=A", "A=A+1", "FOO=BAR", "BAR=FOO", "main", "char", "X", "i=i", "ADD=3", "N=(", "N=\"", "N=/*", "A.B", "A|B", "\\b", "$", "^", "A{2}",
];

const SEEDS: &[&str] = &[
    "#define N 4\n#define ADD(a,b) ((a)+(b))\nunsigned char t[N];\nunsigned char i;\nvoid main() {\n  for (i = 0; i < N; i++) t[i] = ADD(i, 1);\n#if N\n  i = 2;\n#else\n  i = 3;\n#endif\n}\n",
    "const char msg[] = \"hello\\n\";\nchar *p;\nunsigned char c;\nchar get(char k) { return msg[k]; }\nvoid main() { p = msg; Y = 1; c = p[Y]; c = get(2); }\n",
    "unsigned char * const REG = 0x2c;\nunsigned char a;\nvoid main() {\n  strobe(REG); load(a); store(*REG); csleep(5); asm(\"NOP\", 1);\n  switch (a) { case 1: a = 2; break; case 0x10: a = 3; default: a = 4; }\n}\n",
    "short s; signed char sc; unsigned short us;\ninline void f() { s++; }\nvoid g();\nvoid main() { f(); s = sc; us = s << 8; if (s < us) goto end; do { s--; } while (s);\nend: return; }\n",
    "#ifdef FOO\nchar a;\n#elif BAR\nchar b;\n#else\nchar c;\n#endif\n#ifndef BAZ\n#define BAZ 1\n#endif\n#undef BAZ\nvoid main() { c = sizeof(c) + sizeof(short); }\n",
    "superchip unsigned char sc[16];\nbank1 unsigned char br;\naligned(256) const char tab[4] = {1, 2, 3, 4};\nconst char *tp[2] = {tab, tab + 1};\nvoid interrupt nmi() { }\nvoid main() { sc[X] = tab[X]; br = sc[2]; }\n",
];

const TEMPLATES: &[&str] = &[
    "unsigned char a, r;\nvoid main() { switch (a) { } r = @; }\n",
    "unsigned char a, r;\nvoid main() { switch (a) { case 1: case 2: } r = 1; }\n",
    "unsigned char a, r;\nvoid main() { switch (@) { default: } }\n",
    "unsigned char r;\nvoid main() { r = (@ - 1) / -1; r = @ / -1; r = (-2147483647 - 1) / @; }\n",
    "unsigned char r;\nvoid main() { r = (@ * -1) / (@ - @); r = ~@ / -1; r = (@ << 1) / -1; }\n",
    "unsigned char a = @;\nvoid main() {}\n",
    "const char k = @;\nvoid main() {}\n",
    "unsigned char t[@];\nvoid main() {}\n",
    "const char t[2] = {@, @};\nvoid main() {}\n",
    "unsigned char a;\nvoid main() { a = @; }\n",
    "short s;\nvoid main() { s = @; s += @; }\n",
    "unsigned char a;\nvoid main() { switch (a) { case @: a = 1; } }\n",
    "void main() { csleep(@); }\n",
    "unsigned char a;\nvoid main() { a = a << @; a >>= @; }\n",
    "unsigned char a;\nvoid main() { a = @ / 0; }\n",
    "unsigned char a;\nvoid main() { a = 1 / (@ - @); }\n",
    "unsigned char a;\nvoid main() { a /= @; a *= @; }\n",
    "aligned(@) const char t[2] = {1, 2};\nvoid main() {}\n",
    "unsigned char a;\nvoid main() { asm(\"NOP\", @); }\n",
    "unsigned char t[4];\nconst char *p = t + @;\nvoid main() {}\n",
    "unsigned char t[4];\nvoid main() { X = t[@]; t[@] = 1; }\n",
    "void f() {}\nunsigned char a;\nvoid main() { a = f(); }\n",
    "void f();\nunsigned char a;\nvoid main() { f(); a = undeclared; }\n",
    "char f(char x) { return x; }\nunsigned char a;\nvoid main() { a = f(); a = f(1, 2); f = 3; }\n",
    "unsigned char a;\nvoid main() { a = X[1]; a = a[1]; break; continue; }\n",
    "short *p;\nvoid main() {}\n",
    "#define A A+1\nunsigned char a;\nvoid main() { a = A; }\n",
    "#define A B\n#define B A\nunsigned char a;\nvoid main() { a = A; }\n",
    "#define F(x) F(x)+1\nunsigned char a;\nvoid main() { a = F(2); }\n",
    "#define F(x,y) x\nunsigned char a;\nvoid main() { a = F(1); a = F(1,2,3); a = F((1,2); }\n",
    "#if\nchar a;\n#endif\nvoid main() {}\n",
    "#if 1\nchar a;\nvoid main() {}\n",
    "#endif\nvoid main() {}\n",
    "#else\n#elif 1\nvoid main() {}\n",
    "#if UNDEFINED_MACRO == 1\n#endif\nvoid main() {}\n",
    "#include \"no_such_file.h\"\nvoid main() {}\n",
    "#include <\nvoid main() {}\n",
    "#define\n#undef\n#ifdef\nvoid main() {}\n",
    "#frobnicate\nvoid main() {}\n",
    "char s[] = \"unterminated;\nvoid main() {}\n",
    "/* unterminated comment\nvoid main() {}\n",
    "void main() { char c = '; }\n",
    "void main() { goto nowhere; }\n",
    "void main() { main(); }\n",
    "unsigned char a;\nvoid main() { a = a ? 1; a = 1 : 2; }\n",
    "bank@ void f() {}\nvoid main() { f(); }\n",
    "unsigned char a;\nvoid main() { a = sizeof(@); a = sizeof(nothing); }\n",
    "void main() { X = Y = X++ + ++Y; X[0]; }\n",
    "unsigned char a; unsigned char a;\nvoid main() {}\nvoid main() {}\n",
    "void main() { { { char a; } char a; { char a; } } }\n",
    "",
    "\n",
    ";",
    "void main()",
    "void main() {",
    // constant calculator (global initialisers, array sizes, aligned(), asm sizes): divisions whose
    // quotient or operands leave 32 bits
    "const char k = (-2147483647 - 1) / @;\nvoid main() {}\n",
    "const char k = (0 - @ - 1) / (0 - 1);\nvoid main() {}\n",
    "unsigned char t[(@ - 1) / -1];\nunsigned char u[@ / -1];\nvoid main() {}\n",
    "const char t[2] = {1, ~@ / -1};\nconst char u[2] = {(@ * -1) / -1, (@ << 1) / -1};\nvoid main() {}\n",
    "aligned(@ / -1) const char t[2] = {1, 2};\nvoid main() { asm(\"NOP\", (@ - 1) / -1); }\n",
    "unsigned char t[4];\nconst char *p = t + @ / -1;\nconst char k = -@ - 1 / -1;\nvoid main() {}\n",
];

fn nesting(kind: u64, depth: usize) -> String {
    match kind % 8 {
        0 => format!("unsigned char a;\nvoid main() {{ a = {}a{}; }}\n", "(".repeat(depth), ")".repeat(depth)),
        1 => format!("unsigned char a;\nvoid main() {} a = 1; {}\n", "{".repeat(depth), "}".repeat(depth)),
        2 => format!("unsigned char a;\nvoid main() {{ {} a = 1; }}\n", "if (a) ".repeat(depth)),
        3 => format!("unsigned char a;\nvoid main() {{ a = {}a; }}\n", "- ".repeat(depth)),
        4 => format!("unsigned char a;\nvoid main() {{ a = {}a; }}\n", "!".repeat(depth)),
        5 => format!("const char k = {}1{};\nvoid main() {{}}\n", "(".repeat(depth), ")".repeat(depth)),
        6 => format!("{}char a;\n{}void main() {{}}\n", "#if 1\n".repeat(depth), "#endif\n".repeat(depth)),
        _ => format!("unsigned char a;\nvoid main() {{ a = {}1{}; }}\n", "a ? 1 : (".repeat(depth), ")".repeat(depth)),
    }
}

fn opts_for(idx: u64) -> Opts {
    let mut o = Opts::default();
    o.opt_level = (idx % 4) as u8;
    o.insert_code = (idx / 4) % 3 == 0;
    if (idx / 12) % 3 == 0 {
        o.warnings = vec!["all".into()];
    }
    if (idx / 36) % 4 == 0 {
        o.defines = vec!["FOO".into(), "BAR=0".into()];
    }
    o
}

fn norm_panic(msg: &str) -> String {
    let mut s = String::new();
    let mut last_hash = false;
    for c in msg.chars().take(90) {
        if c.is_ascii_digit() {
            if !last_hash {
                s.push('#');
            }
            last_hash = true;
        } else {
            s.push(c);
            last_hash = false;
        }
    }
    s
}

fn site_file(site: &str) -> String {
    // "src/compile.rs:2243" or an absolute registry path -> file name only
    let f = site.rsplit('/').next().unwrap_or(site);
    f.split(':').next().unwrap_or(f).to_string()
}

pub fn judge_total(kind: &str, idx: u64, class: &str, src: &[u8], opts: &Opts, sig_override: Option<String>) -> CaseResult {
    let (out, _) = compile_raw(src, opts);
    let text = String::from_utf8_lossy(src).to_string();
    let nlines = src.iter().filter(|b| **b == b'\n').count() as u32 + 1;
    let mut res = CaseResult::new("", crate::util::fnv(src) ^ crate::util::hash_str(&format!("{:?}", opts.argv())));
    res.nontrivial = true;
    res.set("input classes", class);
    match &out {
        Outcome::Ok(_) => res.class = "Ok".into(),
        Outcome::Err(e) => {
            res.class = format!("Err[{}]", e.kind);
            res.set("distinct error messages", &crate::common::norm_msg(&e.msg));
            match e.kind.as_str() {
                "Syntax" | "Compiler" => {
                    let in_file = e.filename == opts.input_name;
                    // a location in an included file: the file must be one of the include
                    // directories' and have that line
                    let mut in_include = false;
                    if !in_file {
                        for d in &opts.include_dirs {
                            if let Ok(t) = std::fs::read_to_string(format!("{}/{}", d, e.filename)) {
                                let n = t.bytes().filter(|b| *b == b'\n').count() as u32 + 1;
                                in_include = e.line >= 1 && e.line <= n;
                                break;
                            }
                        }
                    }
                    // errors raised before any position is known used to carry line 0
                    if !(in_file && e.line >= 1 && e.line <= nlines) && !in_include {
                        res.class = "Err with a location outside the input".into();
                        res.violate(
                            &sig_override.clone().unwrap_or(format!("location:{}", crate::common::norm_msg(&e.msg))),
                            &format!(
                                "C16: error '{}' is located at {}:{} but the input '{}' has {} lines\n--- input\n{}",
                                e.msg, e.filename, e.line, opts.input_name, nlines, crate::util::trunc(&text, 1500)
                            ),
                            json!({"kind": kind, "idx": idx, "class": class, "source": text, "argv": opts.argv(), "error": format!("{:?}", e)}),
                        );
                    }
                }
                _ => {
                    res.class = format!("Err[{}] (structured, no location field)", e.kind);
                }
            }
        }
        Outcome::Panic { site, msg } => {
            let sig = format!("panic:{}:{}", site_file(site), norm_panic(msg));
            res.class = format!("PANIC {}", sig);
            res.violate(
                &sig_override.unwrap_or(sig),
                &format!("C16: compile() panicked at {}: {}\n--- input ({})\n{}", site, msg, class, crate::util::trunc(&text, 1500)),
                json!({"kind": kind, "idx": idx, "class": class, "source": text, "argv": opts.argv(), "panic_site": site, "panic_msg": msg}),
            );
        }
    }
    if idx % 2503 == 0 {
        res.sample = Some(json!({"kind": kind, "idx": idx, "class": class, "argv": opts.argv(), "outcome": res.class, "input": crate::util::trunc(&text, 400)}));
    }
    res
}

pub struct C16Pin {
    pub name: &'static str,
    pub src: fn() -> String,
    pub argv_extra: &'static [&'static str],
}

/// the token-mutated program of case `idx` of the mutation pool (also used by C13: what is
/// accepted must assemble)
pub fn mutant_source(idx: u64, ops: &mut Vec<String>) -> String {
    let mut rng = Rng::for_case("C16mut", idx);
    let base = if idx % 5 == 0 {
        SEEDS[(idx / 5) as usize % SEEDS.len()].to_string()
    } else {
        let k = ["rand", "stress", "hw", "bait", "superchip", "matrix"][(idx % 6) as usize];
        let (p, _) = corpus_program(k, idx / 6 % pool_len(k));
        print_program(&p)
    };
    mutate(&base, &mut rng, ops)
}

pub fn c16_pins() -> Vec<C16Pin> {
    vec![
        // fixed on this tree: must stay silent
        C16Pin { name: "div_by_zero_fold", src: || "unsigned char a;\nvoid main() { a = 1 / 0; }\n".into(), argv_extra: &[] },
        C16Pin { name: "mulass", src: || "unsigned char a;\nvoid main() { a *= 2; }\n".into(), argv_extra: &[] },
        C16Pin { name: "short_pointer", src: || "short *p;\nvoid main() {}\n".into(), argv_extra: &[] },
        C16Pin { name: "insert_code_one_line", src: || "unsigned char a; void main() { a = 1; }".into(), argv_extra: &["--insert-code"] },
        C16Pin { name: "recursive_macro", src: || "#define A A+1\nunsigned char a;\nvoid main() { a = A; }\n".into(), argv_extra: &[] },
        C16Pin { name: "mutually_recursive_macros", src: || "#define A B\n#define B A\nunsigned char a;\nvoid main() { a = A; }\n".into(), argv_extra: &[] },
        C16Pin { name: "mutually_recursive_macros_reversed", src: || "#define B A\n#define A B\nunsigned char a;\nvoid main() { a = A; }\n".into(), argv_extra: &[] },
        C16Pin { name: "macro_cycle_of_three", src: || "#define LIMIT BASE\n#define BASE TOP + 1\n#define TOP LIMIT\nunsigned char a;\nvoid main() { a = TOP; }\n".into(), argv_extra: &[] },
        C16Pin { name: "function_like_macro_cycle", src: || "#define G(x) F(x)\n#define F(x) G(x)\nunsigned char a;\nvoid main() { a = F(1); }\n".into(), argv_extra: &[] },
        C16Pin { name: "recursive_function", src: || "unsigned char n;\nvoid down() { if (n) { n--; down(); } }\nvoid ping();\nvoid pong() { if (n) { n--; ping(); } }\nvoid ping() { pong(); }\nvoid main() { down(); ping(); }\n".into(), argv_extra: &[] },
        C16Pin { name: "missing_closing_brace_at_eof", src: || "unsigned char a;\nvoid main() {\n  a = 1;\n".into(), argv_extra: &[] },
        C16Pin { name: "if_continue_in_switch_in_dowhile", src: || "unsigned char a, c;\nvoid main() { do { switch (a) { case 1: if (c) continue; c++; break; } a++; } while (a < 3); }\n".into(), argv_extra: &[] },
        C16Pin { name: "if_continue_in_switch_in_while_and_for", src: || "unsigned char a, c;\nvoid main() { while (a < 3) { a++; switch (a) { case 1: if (c) continue; } } for (a = 0; a != 2; a++) { switch (c) { default: if (a) continue; c++; } } }\n".into(), argv_extra: &[] },
        C16Pin { name: "undef_of_unknown_name", src: || "#define WIDTH 4\n#undef HEIGHT\n#undef WIDTH\n#undef WIDTH\nunsigned char a;\nvoid main() { a = 1; }\n".into(), argv_extra: &[] },
        C16Pin { name: "literal_in_call_in_local_initialiser", src: || "char *p;\nchar first(char *s) { p = s; return s[0]; }\nvoid main() { unsigned char c = first(\"AB\"); char *q = \"CD\"; unsigned char d = first(q) + first(\"EF\"); p = q; }\n".into(), argv_extra: &[] },
        C16Pin { name: "more_than_100_macros", src: || { let mut s = String::new(); for i in 0..105 { s.push_str(&format!("#define K{} {}\n", i, i)); } for i in 0..3 { s.push_str(&format!("#define F{}(a) ((a)+{})\n", i, i)); } s.push_str("#undef K104\n#undef K3\nunsigned char a;\nvoid main() { a = K103 + K100 + K99 + K5 + F2(K101); }\n"); s }, argv_extra: &[] },
        C16Pin { name: "huge_array_size", src: || "short sa0[2147483647];\nunsigned char c[-3];\nvoid main() { sa0[1] = 2; }\n".into(), argv_extra: &[] },
        C16Pin { name: "huge_literal", src: || "unsigned char a;\nvoid main() { a = 99999999999; }\n".into(), argv_extra: &[] },
        C16Pin { name: "double_minus_literal", src: || "void main() { csleep(--5); }\n".into(), argv_extra: &[] },
        C16Pin { name: "only_a_comment", src: || "/* unterminated comment\nvoid main() {}\n".into(), argv_extra: &[] },
        C16Pin { name: "empty_input", src: || "".into(), argv_extra: &[] },
        C16Pin { name: "calc_shift_overflow", src: || "unsigned char t[1<<40];\nvoid main() {}\n".into(), argv_extra: &[] },
        C16Pin { name: "calc_nested_error", src: || "const char tab[2] = {1, 2};\nconst char *tp[] = {tab, 1/0 + 1};\nvoid main() {}\n".into(), argv_extra: &[] },
        C16Pin { name: "fold_shift_overflow", src: || "unsigned char r, c;\nvoid main() { r = (c & 1<<-1) + 200; }\n".into(), argv_extra: &[] },
        C16Pin { name: "fold_add_overflow", src: || "unsigned char a;\nvoid main() { a = 2147483647 + 1; }\n".into(), argv_extra: &[] },
        C16Pin { name: "void_assigned_to_memory", src: || "void f() {}\nunsigned char a;\nvoid main() { a = f(); Y = f(); }\n".into(), argv_extra: &[] },
        C16Pin { name: "define_without_name", src: || "#define 4\nvoid main() {}\n".into(), argv_extra: &[] },
        C16Pin { name: "define_empty_parameter", src: || "#define ADD(a,) a\nvoid main() {}\n".into(), argv_extra: &[] },
        C16Pin { name: "define_duplicate_parameter", src: || "#define ADD(a,a) a\nvoid main() {}\n".into(), argv_extra: &[] },
        C16Pin { name: "calc_infix_not", src: || "const char tab[2] = {1~ 127, 3};\nvoid main() {}\n".into(), argv_extra: &[] },
        C16Pin { name: "stray_literal_reference", src: || "unsigned char a;\nvoid main() { @1@ = 3; }\n".into(), argv_extra: &[] },
        C16Pin { name: "sizeof_register", src: || "unsigned char a;\nvoid main() { a = sizeof X; }\n".into(), argv_extra: &[] },
        C16Pin { name: "address_of_register", src: || "unsigned char a;\nvoid main() { a = &X; }\n".into(), argv_extra: &[] },
        C16Pin { name: "prototype_only_name_as_value", src: || "void us();\nunsigned char a;\nvoid main() { a = us; strobe(us); }\n".into(), argv_extra: &[] },
        C16Pin { name: "string_in_subscript", src: || "unsigned char t[4];\nvoid main() { X = t[\"str\"]; }\n".into(), argv_extra: &[] },
        C16Pin { name: "bank_number_overflow", src: || "bank4294967296 void f() {}\nvoid main() { f(); }\n".into(), argv_extra: &[] },
        C16Pin { name: "negative_asm_size", src: || "void main() { asm(\"NOP\", 1 -128); }\n".into(), argv_extra: &[] },
        C16Pin { name: "absurd_subscript", src: || "superchip unsigned char sc[16];\nunsigned char b;\nvoid main() { b = sc[2147483647]; }\n".into(), argv_extra: &[] },
        C16Pin { name: "if_continue_in_switch", src: || "unsigned char a;\nvoid main() { switch (a) { case 1: if (a) continue; } }\n".into(), argv_extra: &[] },
        C16Pin { name: "banked_call_without_rom_select", src: || "unsigned char a;\nbank1 void f() { a = 1; }\nvoid main() { f(); }\n".into(), argv_extra: &["-D__3E__"] },
        C16Pin { name: "macro_applied_to_its_own_name", src: || "#define G(f) f(f)\n#define H(f) f(f) + 1\nunsigned char a;\nvoid main() { a = G(G); a = H(H); }\n".into(), argv_extra: &[] },
        C16Pin { name: "address_offset_overflow", src: || "const char arr[4] = {1, 2, 3, 4};\nchar *p; unsigned char r;\nvoid main() { r = (arr >> 8) + 16777216; p = arr + 2147483647 + 1; }\n".into(), argv_extra: &[] },
        C16Pin { name: "pointer_initialiser_offset_overflow", src: || "const char arr[4] = {1, 2, 3, 4};\nconst char *p = arr - -2147483648;\nconst char *t[2] = {arr - -2147483648, arr};\nvoid main() { }\n".into(), argv_extra: &[] },
        C16Pin { name: "insert_code_multibyte_character", src: || "unsigned char r;\nvoid main() {\n r='\u{20ac}'+'\u{20ac}';\n r = 2;\n}\n".into(), argv_extra: &["--insert-code"] },
        C16Pin { name: "insert_code_truncation_inside_character", src: || { let mut l = "r = 1; ".repeat(36); l.truncate(251); format!("unsigned char r;\nvoid main() {{\n{} r='\u{20ac}'; r = 3;\n r = 2;\n}}\n", l) }, argv_extra: &["--insert-code"] },
        C16Pin { name: "inline_function_calling_itself", src: || "unsigned char a, n;\ninline void f() { for (n = 0; n != 3; n++) { a++; } if (a != 9) f(); }\nvoid main() { f(); }\n".into(), argv_extra: &[] },
        C16Pin { name: "header_including_itself", src: || { let d = "/verif/work/c16inc"; let _ = std::fs::create_dir_all(d); let _ = std::fs::write(format!("{}/selfinc.h", d), "#include \"selfinc.h\"\nunsigned char q;\n"); "#include \"selfinc.h\"\nvoid main() {}\n".into() }, argv_extra: &["-I", "/verif/work/c16inc"] },
        C16Pin { name: "directive_error_after_include", src: || { let d = "/verif/work/c16inc"; let _ = std::fs::create_dir_all(d); let _ = std::fs::write(format!("{}/defs1.h", d), "unsigned char hv;\n"); "unsigned char a;\n#include \"defs1.h\"\n\n\n\n#if VERBOSE\nunsigned char b;\n#endif\nvoid main() {}\n".into() }, argv_extra: &["-I", "/verif/work/c16inc"] },
        C16Pin { name: "switch_without_case_bodies", src: || "unsigned char a, r;\nvoid main() { switch (a) { } switch (a) { case 1: case 2: } r = 1; }\n".into(), argv_extra: &[] },
        C16Pin { name: "int_min_divided_by_minus_one", src: || "#define INT_MIN (-2147483647 - 1)\n#define SCALE -1\nunsigned char r;\nvoid main() { r = (-2147483647 - 1) / -1; r = (INT_MIN / SCALE) >> 24; r = ~0x7fffffff / -1; }\n".into(), argv_extra: &[] },
        C16Pin { name: "calc_int_min_divided_by_minus_one_initialiser", src: || "const char c = (0 - 2147483647 - 1) / (0 - 1);\nvoid main() {}\n".into(), argv_extra: &[] },
        C16Pin { name: "calc_int_min_divided_by_minus_one_prefix", src: || "const char c = (-2147483647 - 1) / -1;\nvoid main() {}\n".into(), argv_extra: &[] },
        C16Pin { name: "calc_int_min_divided_by_minus_one_array_size", src: || "unsigned char t[(-2147483647 - 1) / -1];\nvoid main() {}\n".into(), argv_extra: &[] },
        C16Pin { name: "calc_int_min_divided_by_minus_one_array_item", src: || "const char t[2] = {1, ~0x7fffffff / -1};\nvoid main() {}\n".into(), argv_extra: &[] },
        C16Pin { name: "calc_int_min_divided_by_minus_one_asm_size", src: || "void main() { asm(\"NOP\", (-2147483647 - 1) / -1); }\n".into(), argv_extra: &[] },
        // recorded finding
        C16Pin { name: "deep_blocks_5000", src: || nesting(1, 5000), argv_extra: &[] },
    ]
}

impl Monitor for C16 {
    fn id(&self) -> &'static str {
        "C16"
    }
    fn level(&self) -> &'static str {
        "fault_enumeration"
    }
    fn rule(&self) -> String {
        "hostile inputs to the real compile(): (mut) 1-3 token-level mutations (delete, duplicate, swap, replace by any keyword/operator/literal of \
         the grammar, insert, retype, out-of-range literal, truncate) of valid corpus programs and hand-written seeds with directives; (tmpl) the \
         property's named classes as templates with hostile literals in every literal position (initialiser, array size, case, csleep, shift count, \
         bank, aligned, asm size, pointer offset), division by zero, void used as value, undeclared / prototype-only names, unbalanced and malformed \
         directives, self- and mutually-referential macros, unterminated strings and comments; (bytes) random byte strings; (nest) nesting ramps to \
         depth 512 of parentheses, blocks, if chains, unary operators, calculator parentheses, #if and ?:; all x {-O0..3, --insert-code, -W all, -D}. \
         Oracle: Ok, or Err whose file is the input and whose line is within it (error kinds without a location field are counted separately); a \
         panic (site recorded), abort, stack overflow or hang (worker killed after 60 s on one case; median case ~1 ms) is a violation. \
         A location in an included file is checked against the include directories. \
         non-trivial = every case (each is an execution of the real compiler)"
            .into()
    }
    fn assumptions(&self) -> Vec<String> {
        vec![
            "workers run compile() on their 8 MiB main thread, the stack the real compilers have".into(),
            "Error::Io / Unimplemented / Configuration carry no location field: accepted as structured errors".into(),
        ]
    }
    fn plan(&self, tier: &Tier, seed: u64) -> Vec<Chunk> {
        let np = c16_pins().len() as u64;
        let mut v = split_chunks("pin", 0, np, np, 1);
        let nt = TEMPLATES.len() as u64 * LITERALS.len() as u64;
        v.extend(split_chunks("tmpl", 0, nt, nt, 200));
        v.extend(split_chunks("nest", 0, 8 * 10, 80, 10));
        v.extend(split_chunks("opts", 0, (HOSTILE_DEFINES.len() * 4) as u64, (HOSTILE_DEFINES.len() * 4) as u64, 10));
        let (nm, nb) = match tier {
            Tier::Quick => (120_000, 20_000),
            Tier::Thorough => (1_200_000, 200_000),
        };
        v.extend(split_chunks("mut", seed_offset(seed, "C16m", 1_200_000), nm, 1_200_000, 500));
        v.extend(split_chunks("bytes", seed_offset(seed, "C16b", 200_000), nb, 200_000, 500));
        v
    }
    fn run_case(&self, kind: &str, idx: u64) -> CaseResult {
        match kind {
            "pin" => {
                let pin = &c16_pins()[idx as usize];
                let mut o = Opts::default();
                if pin.argv_extra.contains(&"--insert-code") {
                    o.insert_code = true;
                }
                let mut take_dir = false;
                for a in pin.argv_extra {
                    if take_dir {
                        o.include_dirs.push(a.to_string());
                        take_dir = false;
                    } else if *a == "-I" {
                        take_dir = true;
                    } else if let Some(d) = a.strip_prefix("-D") {
                        o.defines.push(d.to_string());
                    }
                }
                let src = (pin.src)();
                judge_total(kind, idx, &format!("pin:{}", pin.name), src.as_bytes(), &o, Some(format!("pin:{}", pin.name)))
            }
            "tmpl" => {
                let t = TEMPLATES[(idx / LITERALS.len() as u64) as usize % TEMPLATES.len()];
                let l = LITERALS[(idx % LITERALS.len() as u64) as usize];
                if !t.contains('@') && idx % LITERALS.len() as u64 >= 8 {
                    // templates without a placeholder only vary by option set
                    let mut r = CaseResult::new("duplicate template (skipped)", idx);
                    r.key = 0;
                    return r;
                }
                let src = t.replace('@', l);
                judge_total(kind, idx, "named class template", src.as_bytes(), &opts_for(idx), None)
            }
            "nest" => {
                let depths = [1usize, 2, 4, 8, 16, 32, 64, 128, 256, 512];
                let d = depths[(idx / 8) as usize % depths.len()];
                let src = nesting(idx, d);
                judge_total(kind, idx, &format!("nesting kind {} depth {}", idx % 8, d), src.as_bytes(), &opts_for(idx), None)
            }
            "opts" => {
                let d = HOSTILE_DEFINES[idx as usize % HOSTILE_DEFINES.len()];
                let mut o = opts_for(idx / HOSTILE_DEFINES.len() as u64);
                o.defines = vec![d.to_string()];
                let src = SEEDS[(idx / HOSTILE_DEFINES.len() as u64) as usize % SEEDS.len()];
                judge_total(kind, idx, &format!("hostile -D {:?}", d), src.as_bytes(), &o, None)
            }
            "bytes" => {
                let mut rng = Rng::for_case("C16bytes", idx);
                let n = rng.below(200) as usize;
                let printable = idx % 2 == 0;
                let b: Vec<u8> = (0..n)
                    .map(|_| if printable { b" \n\t(){}[];,=+-*/&|^~!<>#\"'\\aXY01cdefhinorstuvw"[rng.below(46) as usize] } else { rng.byte() })
                    .collect();
                judge_total(kind, idx, if printable { "printable garbage" } else { "byte garbage" }, &b, &opts_for(idx), None)
            }
            _ => {
                let mut ops = Vec::new();
                let src = mutant_source(idx, &mut ops);
                let mut r = judge_total(kind, idx, "token mutation of a valid program", src.as_bytes(), &opts_for(idx), None);
                for o in ops {
                    r.set("mutation operators applied", &o);
                }
                r
            }
        }
    }
    fn on_crash(&self, kind: &str, idx: u64, how: &str) -> CaseResult {
        let mut r = CaseResult::new(&format!("worker {} during compile()", how), idx);
        r.nontrivial = true;
        let sig = if kind == "pin" { format!("pin:{}", c16_pins().get(idx as usize).map(|p| p.name).unwrap_or("?")) } else { format!("abort:{}:{}", kind, idx) };
        r.violate(
            &sig,
            &format!("C16: the process running compile() on case {}:{} {} (abort / stack overflow / hang)", kind, idx, how),
            json!({"kind": kind, "idx": idx, "how": how}),
        );
        r
    }
    fn case_timeout_s(&self) -> u64 {
        60
    }
    fn thresholds(&self, tier: &Tier) -> Vec<(String, u64)> {
        vec![
            ("distinct_nontrivial".into(), if *tier == Tier::Quick { 30000 } else { 300000 }),
            ("set:distinct error messages".into(), 60),
            ("set:mutation operators applied".into(), 8),
            ("class:Ok".into(), 1000),
        ]
    }
}
