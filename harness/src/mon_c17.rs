// C17: split-port cartridge RAM is read and written through the right ports.
// Port-discipline monitor inside the emulator's split-port memory model (a read of the write
// port, a write to the read port and a read-modify-write cycle on either are faults) plus the
// reference-model oracle of C01 on the same executions.

use crate::cgen::*;
use crate::cmodel::*;
use crate::common::*;
use crate::corpus::cfg_split;
use crate::driver::*;
use crate::emu6502::Stop;
use crate::exec::*;
use crate::framework::*;
use crate::pins::{self, Pin};
use serde_json::json;

pub struct C17;

pub fn judge(kind: &str, idx: u64, p: &Program, defines: &[&str], tag: &str) -> CaseResult {
    let src = print_program(p);
    let mut res = CaseResult::new("", crate::util::hash_str(&src) ^ crate::util::hash_str(kind));
    let nsplit = p.vars.iter().filter(|v| v.mem != MemClass::Zp).count();
    if nsplit == 0 {
        res.class = "no variable in cartridge RAM (not counted)".into();
        return res;
    }
    for lvl in [0u8, 1] {
        let mut o = Opts::o(lvl);
        o.defines = defines.iter().map(|s| s.to_string()).collect();
        let (obs, built) = match prepare(&src, &o) {
            Prep::Ready(o, b) => (o, b),
            Prep::Skip(c) => {
                res.class = c;
                return res;
            }
        };
        res.set("schemes", &obs.scheme);
        for k in 0..5u64 {
            let input = gen_input(p, tag, idx, k);
            let (exp, _tr, steps) = match reference(p, &input, 20_000) {
                Ok(x) => x,
                Err(_) => continue,
            };
            let rr = run_compiled(p, &built, &input, cycle_budget(steps), &|_m| {});
            res.count("comparisons", 1);
            res.count("port reads at the read port", rr.machine.port_reads);
            res.count("port writes at the write port", rr.machine.port_writes);
            if rr.machine.port_reads + rr.machine.port_writes > 0 {
                res.nontrivial = true;
            }
            let sig = format!("C17:{}:{}", kind, idx);
            let mut why = None;
            if let Some(f) = rr.machine.faults.first() {
                why = Some(format!("port discipline: {}", f));
            } else {
                match &rr.stop {
                    Stop::Halt => {
                        if let Some(d) = diff_states(p, &exp, &rr.state, true) {
                            why = Some(format!("final state (seen through the read port) differs from the reference: {}", d));
                        }
                    }
                    s => why = Some(stop_str(s)),
                }
            }
            if let Some(w) = why {
                res.class = "violated".into();
                res.violate(
                    &sig,
                    &format!("C17 scheme {} -O{} input #{}: {}\n--- source\n{}", obs.scheme, lvl, k, w, src),
                    json!({"kind": kind, "idx": idx, "opt": lvl, "vector": k, "why": w, "source": src, "scheme": obs.scheme, "listing": listing(&obs), "input": state_brief(p, &input)}),
                );
                return res;
            }
        }
    }
    if res.nontrivial {
        res.class = "ports respected and result equals the reference".into();
        let mut kinds = std::collections::BTreeSet::new();
        ast_kinds(p, &mut kinds);
        for k in kinds {
            res.set("constructs in programs with cartridge-RAM variables", &k);
        }
    } else {
        res.class = "accepted but no cartridge-RAM access was executed".into();
    }
    if idx % 499 == 0 {
        res.sample = Some(json!({"kind": kind, "idx": idx, "source": src}));
    }
    res
}


/// Enumerated family: every update form on an element of a short array in cartridge RAM, for
/// every way of selecting the element, from preset values on the byte-carry boundaries.
/// (The random profile keeps to plain stores on short array elements: rule R10 of the generator.)
pub const WIDE_FORMS: u64 = 14;
pub const WIDE_SEL: u64 = 4;
pub const WIDE_PRESET: u64 = 6;
pub const WIDE_N: u64 = WIDE_FORMS * WIDE_SEL * WIDE_PRESET * 2 * 3;

pub fn wide_program(idx: u64) -> (Program, Vec<&'static str>, String) {
    use crate::matrix::{base, V, W};
    let mut i = idx;
    let form = i % WIDE_FORMS;
    i /= WIDE_FORMS;
    let sel = i % WIDE_SEL;
    i /= WIDE_SEL;
    let preset = i % WIDE_PRESET;
    i /= WIDE_PRESET;
    let signed = i % 2 == 1;
    i /= 2;
    let scheme = i % 3;
    let mut p = base();
    let mem = if scheme == 0 { MemClass::Superchip } else { MemClass::Bank(1) };
    let cnt = p.vars.len();
    p.vars.push(VarDecl { name: "cnt".into(), kind: VarKind::Array(if signed { Ty::I16 } else { Ty::U16 }, 4), mem, scope: Scope::Global });
    let k = (preset % 4) as i32;
    let (setup, index): (Vec<Stmt>, Expr) = match sel {
        0 => (vec![Stmt::Expr(Expr::Assign(LV::X, Box::new(Expr::Num(k))))], Expr::Lv(LV::X)),
        1 => (vec![Stmt::Expr(Expr::Assign(LV::Y, Box::new(Expr::Num(k))))], Expr::Lv(LV::Y)),
        2 => (vec![], Expr::Num(k)),
        _ => (vec![], Expr::Lv(LV::X)), // X as the input vector leaves it, masked below
    };
    let el = || LV::Idx(cnt, Box::new(index.clone()));
    let mut body = Vec::new();
    if sel == 3 {
        body.push(Stmt::Expr(Expr::OpAssign(BinOp::And, LV::X, Box::new(Expr::Num(3)))));
    }
    body.extend(setup);
    let presets = [0x00ff, 0x0100, 0xffff, 0x0000, 0x7fff, 0x80ff];
    if preset < 5 {
        body.push(Stmt::Expr(Expr::Assign(el(), Box::new(Expr::Hex(presets[preset as usize])))));
    }
    let dest = if signed { W } else { V };
    let one = |op: BinOp, n: i32| Stmt::Expr(Expr::OpAssign(op, el(), Box::new(Expr::Num(n))));
    let name;
    let st = match form {
        0 => { name = "e++"; Stmt::Expr(Expr::IncDec { lv: el(), post: true, inc: true }) }
        1 => { name = "++e"; Stmt::Expr(Expr::IncDec { lv: el(), post: false, inc: true }) }
        2 => { name = "e--"; Stmt::Expr(Expr::IncDec { lv: el(), post: true, inc: false }) }
        3 => { name = "--e"; Stmt::Expr(Expr::IncDec { lv: el(), post: false, inc: false }) }
        4 => { name = "e += 1"; one(BinOp::Add, 1) }
        5 => { name = "e -= 1"; one(BinOp::Sub, 1) }
        6 => { name = "e += 0x101"; Stmt::Expr(Expr::OpAssign(BinOp::Add, el(), Box::new(Expr::Hex(0x101)))) }
        7 => { name = "e <<= 1"; one(BinOp::Shl, 1) }
        8 => { name = "e >>= 1"; one(BinOp::Shr, 1) }
        9 => { name = "e = e + 1"; Stmt::Expr(Expr::Assign(el(), Box::new(Expr::Bin(BinOp::Add, Box::new(Expr::Lv(el())), Box::new(Expr::Num(1)))))) }
        10 => { name = "v = e++"; Stmt::Expr(Expr::Assign(LV::Var(dest), Box::new(Expr::IncDec { lv: el(), post: true, inc: true }))) }
        11 => { name = "v = --e"; Stmt::Expr(Expr::Assign(LV::Var(dest), Box::new(Expr::IncDec { lv: el(), post: false, inc: false }))) }
        12 => { name = "e |= 0x180"; Stmt::Expr(Expr::OpAssign(BinOp::Or, el(), Box::new(Expr::Hex(0x180)))) }
        _ => { name = "e = v"; Stmt::Expr(Expr::Assign(el(), Box::new(Expr::Lv(LV::Var(dest))))) }
    };
    body.push(st);
    // read it back into an ordinary variable too
    body.push(Stmt::Expr(Expr::Assign(LV::Var(if signed { V } else { W }), Box::new(Expr::Lv(el())))));
    p.funcs.push(Func { name: "main".into(), ret: None, params: vec![], body, inline: false, interrupt: false, proto_first: false });
    let defs: Vec<&'static str> = match scheme {
        0 => vec![],
        1 => vec!["__3E__"],
        _ => vec!["__3E_PLUS__"],
    };
    let selname = ["[X=k]", "[Y=k]", "[k]", "[X&3]"][sel as usize];
    (p, defs, format!("{} with e = cnt{}", name, selname))
}

pub fn c17_pins() -> Vec<Pin> {
    vec![
        Pin {
            name: "superchip_short_shift_is_rmw",
            src: "superchip short s; superchip unsigned char k; void main() { k = 1; s = 0x0180; s <<= 1; }",
            init: &[],
            x: 0,
            y: 0,
            expect: &[("s", 0x0300)],
        },
        Pin {
            name: "pointer_into_split_port_ram",
            src: "superchip unsigned char arr[4]; char *p; unsigned char r; void main() { arr[1] = 0; p = arr; Y = 1; p[Y] = 7; r = arr[1]; }",
            init: &[],
            x: 0,
            y: 0,
            expect: &[("r", 7)],
        },
        Pin {
            name: "superchip_char_ops",
            src: "superchip unsigned char a, b; superchip unsigned char arr[4]; unsigned char r; void main() { a = 5; a++; a += 3; b = a << 1; X = 2; arr[X] = b; r = arr[2] + a; }",
            init: &[],
            x: 0,
            y: 0,
            expect: &[("r", 27), ("a", 9), ("b", 18)],
        },
    ]
}

impl Monitor for C17 {
    fn id(&self) -> &'static str {
        "C17"
    }
    fn level(&self) -> &'static str {
        "exploration"
    }
    fn rule(&self) -> String {
        "random programs (the C01 generator) in which each RAM global (char, signed char, short, arrays, short arrays) is placed in cartridge RAM \
         with probability 1/2: 'superchip' (scheme F8S: write port $1000, read port $1080), or bank-resident RAM under the 3E (write +$400) and 3E+ \
         (write +$200) schemes; all operation kinds of the generator (assignment, compound assignment, ++/-- pre and post, shifts, 16-bit shifts, \
         indexing by X/Y/constant/expression, comparisons, parameters, return values). Each is executed at -O0 and -O1 from 5 input vectors on the \
         emulator's split-port model: a read of the write port, a write to the read port or a read-modify-write cycle on either is a fault; the final \
         state read through the read port must equal the reference interpreter. Also: the optimiser-bait profile with its scalars in cartridge RAM, and an \
         enumerated family (kind wide): 14 update forms (++/-- pre and post, as statement and as value, += -= |= <<= >>=, e = e + 1, plain store) on an \
         element of a short array in cartridge RAM x 4 ways of selecting it (X, Y, constant, masked X) x preset values on the byte-carry boundaries x \
         signed/unsigned x the three schemes. non-trivial = at least one port access was executed"
            .into()
    }
    fn assumptions(&self) -> Vec<String> {
        vec!["port addresses as laid out by tests/build.rs; trusted base emu6502 split-port model, cmodel".into()]
    }
    fn plan(&self, tier: &Tier, seed: u64) -> Vec<Chunk> {
        let np = c17_pins().len() as u64;
        let mut v = split_chunks("pin", 0, np, np, 1);
        let n = match tier {
            Tier::Quick => 30_000,
            Tier::Thorough => 300_000,
        };
        v.extend(split_chunks("bait", seed_offset(seed, "C17b", 400_000), n, 400_000, 150));
        v.extend(split_chunks("wide", 0, WIDE_N, WIDE_N, 100));
        for k in ["superchip", "ram3e", "ram3ep"] {
            v.extend(split_chunks(k, seed_offset(seed, &format!("C17{}", k), 300_000), n, 300_000, 150));
        }
        v
    }
    fn run_case(&self, kind: &str, idx: u64) -> CaseResult {
        match kind {
            "pin" => pins::check_pin("C17", &c17_pins()[idx as usize], &[0, 1]),
            "bait" => {
                // the optimiser-bait profile with its scalars and its array in cartridge RAM: what
                // the peephole pass knows about a cell must survive the two addresses of the cell
                let mut p = crate::bait::bait_program(idx);
                if let Some(why) = crate::mon_c01::bait_not_judgeable(&p) {
                    return CaseResult::new(why, idx);
                }
                let scheme3e = idx % 3 != 0;
                for v in p.vars.iter_mut().take(12) {
                    // (the array stays in zero page: the bait programs reach it through a pointer,
                    // the recorded family pointer_into_split_port_ram)
                    if matches!(v.kind, VarKind::Scalar(_)) && v.name != "n" {
                        v.mem = if scheme3e { MemClass::Bank(1) } else { MemClass::Superchip };
                    }
                }
                let defs: &[&str] = match idx % 3 {
                    0 => &[],
                    1 => &["__3E__"],
                    _ => &["__3E_PLUS__"],
                };
                judge(kind, idx, &p, defs, "C17b")
            }
            "wide" => {
                let (p, defs, form) = wide_program(idx);
                let mut r = judge(kind, idx, &p, &defs, "C17w");
                if r.nontrivial {
                    r.set("update forms on short array elements in cartridge RAM", &form);
                }
                r
            }
            "superchip" => judge(kind, idx, &gen_program("split", idx, &cfg_split(false)), &[], "C17s"),
            "ram3e" => judge(kind, idx, &gen_program("split3e", idx, &cfg_split(true)), &["__3E__"], "C17e"),
            _ => judge(kind, idx, &gen_program("split3ep", idx, &cfg_split(true)), &["__3E_PLUS__"], "C17p"),
        }
    }
    fn thresholds(&self, _tier: &Tier) -> Vec<(String, u64)> {
        vec![
            ("distinct_nontrivial".into(), 5000),
            ("port reads at the read port".into(), 50000),
            ("port writes at the write port".into(), 50000),
            ("set:schemes".into(), 3),
            ("set:constructs in programs with cartridge-RAM variables".into(), 60),
            ("set:update forms on short array elements in cartridge RAM".into(), 50),
        ]
    }
}

/// development: the (program, defines, tag) of a case, for the reducer
pub fn case_program(kind: &str, idx: u64) -> (Program, Vec<&'static str>, &'static str) {
    match kind {
        "superchip" => (gen_program("split", idx, &cfg_split(false)), vec![], "C17s"),
        "ram3e" => (gen_program("split3e", idx, &cfg_split(true)), vec!["__3E__"], "C17e"),
        _ => (gen_program("split3ep", idx, &cfg_split(true)), vec!["__3E_PLUS__"], "C17p"),
    }
}
