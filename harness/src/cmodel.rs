// Typed AST of the C subset cc6502 accepts, a printer that emits minimal parentheses under
// ISO C precedence/associativity, and a reference interpreter with two evaluation modes:
//   Iso  – integer promotions to a 16-bit int, usual arithmetic conversions (the reference)
//   Ctx  – "context width": operations whose operands are both 8-bit typed are carried out in
//          8 bits (what "8-bit wrap-around chars" means to an 8-bit code generator)
// A (program, input) pair is judged only when both modes give the same final state.

use std::collections::BTreeMap;

#[derive(Clone, Copy, Debug, PartialEq, Eq, PartialOrd, Ord, Hash)]
pub enum Ty {
    U8,
    I8,
    U16,
    I16,
}

impl Ty {
    pub fn bits(self) -> u32 {
        match self {
            Ty::U8 | Ty::I8 => 8,
            _ => 16,
        }
    }
    pub fn signed(self) -> bool {
        matches!(self, Ty::I8 | Ty::I16)
    }
    pub fn c_name(self) -> &'static str {
        match self {
            Ty::U8 => "unsigned char",
            Ty::I8 => "signed char",
            Ty::U16 => "unsigned short",
            Ty::I16 => "short",
        }
    }
    pub fn wrap(self, v: i64) -> i64 {
        match self {
            Ty::U8 => v & 0xff,
            Ty::I8 => ((v & 0xff) as u8 as i8) as i64,
            Ty::U16 => v & 0xffff,
            Ty::I16 => ((v & 0xffff) as u16 as i16) as i64,
        }
    }
}

#[derive(Clone, Debug, PartialEq, Eq)]
pub enum MemClass {
    Zp,
    Superchip,
    Bank(u32), // bank-resident RAM (3E / 3E+ schemes)
}

#[derive(Clone, Debug, PartialEq, Eq)]
pub enum VarKind {
    Scalar(Ty),
    Array(Ty, usize),          // RAM array
    ConstTab(Ty, Vec<i32>),    // const table in ROM
    Ptr,                       // char * (zero page), points into a char array / table
    ConstVal(Ty, i32),         // const char k = 5;
    HwReg(u16),                // unsigned char * const NAME = 0x..;
}

#[derive(Clone, Debug, PartialEq, Eq)]
pub enum Scope {
    Global,
    Local(usize), // function index; declared by a Decl statement
    Param(usize),
}

#[derive(Clone, Debug, PartialEq, Eq)]
pub struct VarDecl {
    pub name: String,
    pub kind: VarKind,
    pub mem: MemClass,
    pub scope: Scope,
}

pub type VarId = usize;

/// hardware addresses that only strobe() and store() write in generated programs; ordinary
/// statements read them into the variable `sink` alone, which no oracle compares
pub const WRITE_ONLY_HW: [u16; 2] = [0x1b, 0x0280];

#[derive(Clone, Debug, PartialEq, Eq)]
pub enum LV {
    Var(VarId),
    X,
    Y,
    Idx(VarId, Box<Expr>),    // arr[e] / tab[e]
    PtrIdx(VarId, Box<Expr>), // p[e]
    Deref(VarId),             // *p  (also *HWREG)
}

#[derive(Clone, Copy, Debug, PartialEq, Eq, PartialOrd, Ord, Hash)]
pub enum UnOp {
    Neg,
    Not,
    BNot,
}

#[derive(Clone, Copy, Debug, PartialEq, Eq, PartialOrd, Ord, Hash)]
pub enum BinOp {
    Mul,
    Div,
    Add,
    Sub,
    Shl,
    Shr,
    Lt,
    Le,
    Gt,
    Ge,
    Eq,
    Ne,
    And,
    Xor,
    Or,
    LAnd,
    LOr,
}

impl BinOp {
    pub fn sym(self) -> &'static str {
        match self {
            BinOp::Mul => "*",
            BinOp::Div => "/",
            BinOp::Add => "+",
            BinOp::Sub => "-",
            BinOp::Shl => "<<",
            BinOp::Shr => ">>",
            BinOp::Lt => "<",
            BinOp::Le => "<=",
            BinOp::Gt => ">",
            BinOp::Ge => ">=",
            BinOp::Eq => "==",
            BinOp::Ne => "!=",
            BinOp::And => "&",
            BinOp::Xor => "^",
            BinOp::Or => "|",
            BinOp::LAnd => "&&",
            BinOp::LOr => "||",
        }
    }
    /// ISO C precedence (higher binds tighter)
    pub fn prec(self) -> u8 {
        match self {
            BinOp::Mul | BinOp::Div => 13,
            BinOp::Add | BinOp::Sub => 12,
            BinOp::Shl | BinOp::Shr => 11,
            BinOp::Lt | BinOp::Le | BinOp::Gt | BinOp::Ge => 10,
            BinOp::Eq | BinOp::Ne => 9,
            BinOp::And => 8,
            BinOp::Xor => 7,
            BinOp::Or => 6,
            BinOp::LAnd => 5,
            BinOp::LOr => 4,
        }
    }
    pub fn is_cmp(self) -> bool {
        matches!(self, BinOp::Lt | BinOp::Le | BinOp::Gt | BinOp::Ge | BinOp::Eq | BinOp::Ne)
    }
    pub fn is_logic(self) -> bool {
        matches!(self, BinOp::LAnd | BinOp::LOr)
    }
}

#[derive(Clone, Debug, PartialEq, Eq)]
pub enum Expr {
    Num(i32),
    Hex(i32),
    Lv(LV),
    Un(UnOp, Box<Expr>),
    Bin(BinOp, Box<Expr>, Box<Expr>),
    Assign(LV, Box<Expr>),
    OpAssign(BinOp, LV, Box<Expr>),
    IncDec { lv: LV, post: bool, inc: bool },
    Cond(Box<Expr>, Box<Expr>, Box<Expr>),
    Call(usize, Vec<Expr>),
    Comma(Box<Expr>, Box<Expr>),
    Paren(Box<Expr>),
    /// address of an array (for `p = arr`)
    AddrOf(VarId),
    Sizeof(VarId),
}

#[derive(Clone, Debug, PartialEq, Eq)]
pub enum Stmt {
    Expr(Expr),
    If(Expr, Box<Stmt>, Option<Box<Stmt>>),
    While(Expr, Box<Stmt>),
    DoWhile(Box<Stmt>, Expr),
    For(Option<Expr>, Option<Expr>, Option<Expr>, Box<Stmt>),
    Switch(Expr, Vec<(Vec<i32>, Vec<Stmt>)>, Option<Vec<Stmt>>),
    Break,
    Continue,
    Return(Option<Expr>),
    Block(Vec<Stmt>),
    Decl(VarId, Option<Expr>),
    Goto(String),
    Labeled(String, Box<Stmt>),
    Asm(String, Option<u32>), // marker text (also the trace token), declared size
    Load(Expr),
    Store(LV),
    Strobe(VarId),
    CSleep(i32),
    Empty,
}

#[derive(Clone, Debug, PartialEq, Eq)]
pub struct Func {
    pub name: String,
    pub ret: Option<Ty>,
    pub params: Vec<VarId>,
    pub body: Vec<Stmt>,
    pub inline: bool,
    pub interrupt: bool,
    pub proto_first: bool,
}

#[derive(Clone, Debug, PartialEq, Eq, Default)]
pub struct Program {
    pub vars: Vec<VarDecl>,
    pub funcs: Vec<Func>,
    pub prelude: String,
}

// ------------------------------------------------------------------------------ printer

pub struct Printer<'a> {
    pub p: &'a Program,
}

const PREC_COMMA: u8 = 1;
const PREC_ASSIGN: u8 = 2;
const PREC_COND: u8 = 3;
const PREC_UNARY: u8 = 14;
const PREC_POSTFIX: u8 = 15;

impl<'a> Printer<'a> {
    pub fn lv(&self, l: &LV) -> String {
        match l {
            LV::Var(v) => self.p.vars[*v].name.clone(),
            LV::X => "X".into(),
            LV::Y => "Y".into(),
            LV::Idx(v, e) | LV::PtrIdx(v, e) => {
                format!("{}[{}]", self.p.vars[*v].name, self.expr(e, 0))
            }
            LV::Deref(v) => format!("*{}", self.p.vars[*v].name),
        }
    }
    fn lv_prec(l: &LV) -> u8 {
        match l {
            LV::Deref(_) => PREC_UNARY,
            _ => PREC_POSTFIX + 1,
        }
    }
    /// print `e` so that it can stand where an operand of precedence >= `min` is required
    pub fn expr(&self, e: &Expr, min: u8) -> String {
        let (s, prec) = match e {
            Expr::Num(n) => {
                if *n < 0 {
                    (format!("{}", n), PREC_UNARY)
                } else {
                    (format!("{}", n), 16)
                }
            }
            Expr::Hex(n) => (format!("0x{:x}", n), 16),
            Expr::Lv(l) => (self.lv(l), Self::lv_prec(l)),
            Expr::Un(op, a) => {
                let o = match op {
                    UnOp::Neg => "-",
                    UnOp::Not => "!",
                    UnOp::BNot => "~",
                };
                let inner = self.expr(a, PREC_UNARY);
                // avoid "--x" / "- -1" being lexed as decrement or as a negative literal chain
                let sep = if inner.starts_with('-') && *op == UnOp::Neg { " " } else { "" };
                (format!("{}{}{}", o, sep, inner), PREC_UNARY)
            }
            Expr::Bin(op, a, b) => {
                let p = op.prec();
                // left associative: left operand may have the same precedence, right must be higher
                let l = self.expr(a, p);
                let r = self.expr(b, p + 1);
                (format!("{} {} {}", l, op.sym(), r), p)
            }
            Expr::Assign(l, r) => {
                (format!("{} = {}", self.lv(l), self.expr(r, PREC_ASSIGN)), PREC_ASSIGN)
            }
            Expr::OpAssign(op, l, r) => (
                format!("{} {}= {}", self.lv(l), op.sym(), self.expr(r, PREC_ASSIGN)),
                PREC_ASSIGN,
            ),
            Expr::IncDec { lv, post, inc } => {
                let o = if *inc { "++" } else { "--" };
                if *post {
                    (format!("{}{}", self.lv(lv), o), PREC_POSTFIX)
                } else {
                    (format!("{}{}", o, self.lv(lv)), PREC_UNARY)
                }
            }
            Expr::Cond(c, a, b) => (
                format!(
                    "{} ? {} : {}",
                    self.expr(c, PREC_COND + 1),
                    self.expr(a, PREC_ASSIGN),
                    self.expr(b, PREC_COND)
                ),
                PREC_COND,
            ),
            Expr::Call(f, args) => {
                let a: Vec<String> = args.iter().map(|x| self.expr(x, PREC_ASSIGN)).collect();
                (format!("{}({})", self.p.funcs[*f].name, a.join(", ")), PREC_POSTFIX)
            }
            Expr::Comma(a, b) => (
                format!("{}, {}", self.expr(a, PREC_COMMA), self.expr(b, PREC_ASSIGN)),
                PREC_COMMA,
            ),
            Expr::Paren(a) => (format!("({})", self.expr(a, 0)), 16),
            Expr::AddrOf(v) => (self.p.vars[*v].name.clone(), 16),
            Expr::Sizeof(v) => (format!("sizeof({})", self.p.vars[*v].name), 16),
        };
        if prec < min {
            format!("({})", s)
        } else {
            s
        }
    }

    fn decl_text(&self, v: &VarDecl, init: Option<&Expr>) -> String {
        let memq = match v.mem {
            MemClass::Zp => String::new(),
            MemClass::Superchip => "superchip ".to_string(),
            MemClass::Bank(b) => format!("bank{} ", b),
        };
        match &v.kind {
            VarKind::Scalar(t) => match init {
                Some(e) => format!("{}{} {} = {};", memq, t.c_name(), v.name, self.expr(e, PREC_ASSIGN)),
                None => format!("{}{} {};", memq, t.c_name(), v.name),
            },
            VarKind::Array(t, n) => format!("{}{} {}[{}];", memq, t.c_name(), v.name, n),
            VarKind::ConstTab(t, vals) => {
                let a: Vec<String> = vals.iter().map(|x| x.to_string()).collect();
                format!("const {}{} {}[{}] = {{{}}};", memq, t.c_name(), v.name, vals.len(), a.join(", "))
            }
            VarKind::Ptr => format!("char *{};", v.name),
            VarKind::ConstVal(t, val) => format!("const {} {} = {};", t.c_name(), v.name, val),
            VarKind::HwReg(a) => format!("unsigned char * const {} = 0x{:02x};", v.name, a),
        }
    }

    pub fn stmt(&self, s: &Stmt, ind: usize, out: &mut String) {
        let pad = "  ".repeat(ind);
        match s {
            Stmt::Expr(e) => out.push_str(&format!("{}{};\n", pad, self.expr(e, 0))),
            Stmt::If(c, t, e) => {
                out.push_str(&format!("{}if ({}) ", pad, self.expr(c, 0)));
                // dangling else: a then-branch that could end in an else-less if is braced
                fn open_if(s: &Stmt) -> bool {
                    match s {
                        Stmt::If(_, _, None) => true,
                        Stmt::If(_, _, Some(e)) => open_if(e),
                        Stmt::While(_, b) | Stmt::For(_, _, _, b) | Stmt::Labeled(_, b) => open_if(b),
                        _ => false,
                    }
                }
                if e.is_some() && open_if(t) {
                    self.sub(&Stmt::Block(vec![(**t).clone()]), ind, out);
                } else {
                    self.sub(t, ind, out);
                }
                if let Some(e) = e {
                    out.push_str(&format!("{}else ", pad));
                    self.sub(e, ind, out);
                }
            }
            Stmt::While(c, b) => {
                out.push_str(&format!("{}while ({}) ", pad, self.expr(c, 0)));
                self.sub(b, ind, out);
            }
            Stmt::DoWhile(b, c) => {
                out.push_str(&format!("{}do ", pad));
                self.sub(b, ind, out);
                out.push_str(&format!("{}while ({});\n", pad, self.expr(c, 0)));
            }
            Stmt::For(i, c, u, b) => {
                let f = |e: &Option<Expr>| e.as_ref().map(|e| self.expr(e, 0)).unwrap_or_default();
                out.push_str(&format!("{}for ({}; {}; {}) ", pad, f(i), f(c), f(u)));
                self.sub(b, ind, out);
            }
            Stmt::Switch(e, cases, def) => {
                out.push_str(&format!("{}switch ({}) {{\n", pad, self.expr(e, 0)));
                for (vals, body) in cases {
                    for v in vals {
                        out.push_str(&format!("{}case {}:\n", pad, v));
                    }
                    for b in body {
                        self.stmt(b, ind + 1, out);
                    }
                }
                if let Some(d) = def {
                    out.push_str(&format!("{}default:\n", pad));
                    for b in d {
                        self.stmt(b, ind + 1, out);
                    }
                }
                out.push_str(&format!("{}}}\n", pad));
            }
            Stmt::Break => out.push_str(&format!("{}break;\n", pad)),
            Stmt::Continue => out.push_str(&format!("{}continue;\n", pad)),
            Stmt::Return(e) => match e {
                Some(e) => out.push_str(&format!("{}return {};\n", pad, self.expr(e, 0))),
                None => out.push_str(&format!("{}return;\n", pad)),
            },
            Stmt::Block(b) => {
                out.push_str(&format!("{}{{\n", pad));
                for s in b {
                    self.stmt(s, ind + 1, out);
                }
                out.push_str(&format!("{}}}\n", pad));
            }
            Stmt::Decl(v, init) => {
                out.push_str(&format!("{}{}\n", pad, self.decl_text(&self.p.vars[*v], init.as_ref())))
            }
            Stmt::Goto(l) => out.push_str(&format!("{}goto {};\n", pad, l)),
            Stmt::Labeled(l, s) => {
                out.push_str(&format!("{}{}: ", pad, l));
                let mut t = String::new();
                self.stmt(s, ind, &mut t);
                out.push_str(t.trim_start());
            }
            Stmt::Asm(text, size) => match size {
                Some(n) => out.push_str(&format!("{}asm(\"{}\", {});\n", pad, text, n)),
                None => out.push_str(&format!("{}asm(\"{}\");\n", pad, text)),
            },
            Stmt::Load(e) => out.push_str(&format!("{}load({});\n", pad, self.expr(e, 0))),
            Stmt::Store(l) => out.push_str(&format!("{}store({});\n", pad, self.lv(l))),
            Stmt::Strobe(v) => out.push_str(&format!("{}strobe({});\n", pad, self.p.vars[*v].name)),
            Stmt::CSleep(n) => out.push_str(&format!("{}csleep({});\n", pad, n)),
            Stmt::Empty => out.push_str(&format!("{};\n", pad)),
        }
    }

    fn sub(&self, s: &Stmt, ind: usize, out: &mut String) {
        match s {
            Stmt::Block(_) => {
                let mut t = String::new();
                self.stmt(s, ind, &mut t);
                out.push_str(t.trim_start());
            }
            _ => {
                out.push('\n');
                self.stmt(s, ind + 1, out);
            }
        }
    }

    fn func_header(&self, f: &Func) -> String {
        let ret = match f.ret {
            None => "void".to_string(),
            Some(_) => "char".to_string(),
        };
        let params: Vec<String> = f
            .params
            .iter()
            .map(|p| {
                let v = &self.p.vars[*p];
                match &v.kind {
                    VarKind::Scalar(t) => format!("{} {}", t.c_name(), v.name),
                    VarKind::Ptr => format!("char *{}", v.name),
                    _ => format!("char {}", v.name),
                }
            })
            .collect();
        format!(
            "{}{}{} {}{}({})",
            // a function named bk1_* lives in bank 1 (calls from bank 0 go through a Call<name> stub)
            if f.name.starts_with("bk1_") { "bank1 " } else { "" },
            if f.inline { "inline " } else { "" },
            ret,
            if f.interrupt { "interrupt " } else { "" },
            f.name,
            params.join(", ")
        )
    }

    pub fn program(&self) -> String {
        let mut out = String::new();
        out.push_str(&self.p.prelude);
        for v in &self.p.vars {
            if v.scope == Scope::Global {
                out.push_str(&self.decl_text(v, None));
                out.push('\n');
            }
        }
        for f in &self.p.funcs {
            if f.proto_first {
                out.push_str(&format!("{};\n", self.func_header(f)));
            }
        }
        for f in &self.p.funcs {
            // a function named ext_* with a prototype and no body stands for a routine written in
            // assembler elsewhere: only its prototype is printed
            if f.proto_first && f.body.is_empty() && f.name.starts_with("ext_") {
                continue;
            }
            out.push_str(&format!("{} {{\n", self.func_header(f)));
            for s in &f.body {
                self.stmt(s, 1, &mut out);
            }
            out.push_str("}\n");
        }
        out
    }
}

pub fn print_program(p: &Program) -> String {
    Printer { p }.program()
}

// ------------------------------------------------------------------------------ interpreter

#[derive(Clone, Copy, Debug, PartialEq, Eq)]
pub enum EvalMode {
    Iso,
    Ctx,
}

/// a value with its C type after promotion, and whether it is "8-bit typed" (Ctx mode)
#[derive(Clone, Copy, Debug)]
pub struct Val {
    pub v: i64,
    pub unsigned: bool, // of the 16-bit promoted type
    pub narrow: bool,   // Ctx: came from 8-bit operands only
    pub nsigned: bool,  // Ctx: signedness of the 8-bit value
}

#[derive(Clone, Debug, PartialEq, Eq)]
pub enum TraceEv {
    Load(u16),
    Store(u16),
    Strobe(u16),
    Asm(String),
    CSleep(i32),
    HwWrite(u16),
    HwRead(u16),
    Enter(usize),
    /// load(X) / load(Y) / store(X) / store(Y): a register transfer, by opcode
    Xfer(u8),
    /// an explicit statement was executed: 1 = load(..), 2 = store(..) / strobe(..)
    Explicit(u8),
}

#[derive(Clone, Debug, PartialEq, Eq)]
pub struct State {
    /// per variable: element values (scalars have one element)
    pub vals: Vec<Vec<i64>>,
    pub x: i64,
    pub y: i64,
    /// pointer targets: var -> (target var, offset)
    pub ptrs: BTreeMap<VarId, (VarId, i64)>,
}

#[derive(Debug, Clone, PartialEq, Eq)]
pub enum Abort {
    Steps,
    OutOfRange(String),
    Undefined(String),
}

enum Flow {
    Next,
    Break,
    Continue,
    Return(Option<Val>),
    Goto(String),
}

pub struct Interp<'a> {
    pub p: &'a Program,
    pub mode: EvalMode,
    pub st: State,
    pub steps: u64,
    pub max_steps: u64,
    pub trace: Vec<TraceEv>,
    pub depth: u32,
    pub entries: Vec<u64>,
    /// value the accumulator holds after a load() statement, until the next statement that is
    /// not a store()
    pub acc: Option<i64>,
    /// running digest of every decision taken and every value stored (which branch, which case,
    /// which element, what was written where): two evaluation modes are told apart as soon as they
    /// diverge anywhere, not only when their final states differ
    pub flow: u64,
}

fn wrap16(v: i64, unsigned: bool) -> i64 {
    if unsigned {
        v & 0xffff
    } else {
        ((v & 0xffff) as u16 as i16) as i64
    }
}

fn wrap8(v: i64, signed: bool) -> i64 {
    if signed {
        ((v & 0xff) as u8 as i8) as i64
    } else {
        v & 0xff
    }
}

impl<'a> Interp<'a> {
    pub fn new(p: &'a Program, mode: EvalMode, st: State, max_steps: u64) -> Interp<'a> {
        let n = p.funcs.len();
        Interp { p, mode, st, steps: 0, max_steps, trace: vec![], depth: 0, entries: vec![0; n], acc: None, flow: 0xcbf29ce484222325 }
    }

    fn note(&mut self, tag: u64, v: i64) {
        self.flow = (self.flow ^ tag.wrapping_mul(0x9e3779b97f4a7c15) ^ (v as u64)).wrapping_mul(0x100000001b3).rotate_left(17);
    }

    fn tick(&mut self) -> Result<(), Abort> {
        self.steps += 1;
        if self.steps > self.max_steps {
            Err(Abort::Steps)
        } else {
            Ok(())
        }
    }

    pub fn elem_ty(&self, v: VarId) -> Ty {
        match &self.p.vars[v].kind {
            VarKind::Scalar(t) | VarKind::Array(t, _) | VarKind::ConstTab(t, _) | VarKind::ConstVal(t, _) => *t,
            VarKind::Ptr => Ty::U16,
            VarKind::HwReg(_) => Ty::U8,
        }
    }

    fn from_ty(&self, v: i64, t: Ty) -> Val {
        // value of an lvalue of type t, promoted
        match t {
            Ty::U8 => Val { v: v & 0xff, unsigned: false, narrow: true, nsigned: false },
            Ty::I8 => Val { v: wrap8(v, true), unsigned: false, narrow: true, nsigned: true },
            Ty::U16 => Val { v: v & 0xffff, unsigned: true, narrow: false, nsigned: false },
            Ty::I16 => Val { v: wrap16(v, false), unsigned: false, narrow: false, nsigned: false },
        }
    }

    fn is_const_expr(&self, e: &Expr) -> bool {
        match e {
            Expr::Num(_) | Expr::Hex(_) => true,
            Expr::Paren(a) | Expr::Un(_, a) => self.is_const_expr(a),
            Expr::Bin(op, a, b) => !op.is_logic() && self.is_const_expr(a) && self.is_const_expr(b),
            Expr::Lv(LV::Var(v)) => matches!(self.p.vars[*v].kind, VarKind::ConstVal(..)),
            _ => false,
        }
    }

    fn num(&self, n: i64, hex: bool) -> Val {
        let narrow = (-128..=255).contains(&n);
        let unsigned = hex && n > 0x7fff;
        Val { v: wrap16(n, unsigned), unsigned, narrow, nsigned: n < 0 }
    }

    fn resolve_ptr(&self, v: VarId) -> Result<(VarId, i64), Abort> {
        self.st
            .ptrs
            .get(&v)
            .cloned()
            .ok_or_else(|| Abort::Undefined(format!("pointer {} used before assignment", self.p.vars[v].name)))
    }

    fn index_of(&mut self, e: &Expr) -> Result<i64, Abort> {
        let v = self.eval(e)?;
        self.note(1, v.v);
        Ok(v.v)
    }

    fn lv_target(&mut self, l: &LV) -> Result<(Option<VarId>, usize, Ty), Abort> {
        // returns (var, element index, type); X/Y have var None and index 0/1
        match l {
            LV::Var(v) => Ok((Some(*v), 0, self.elem_ty(*v))),
            LV::X => Ok((None, 0, Ty::U8)),
            LV::Y => Ok((None, 1, Ty::U8)),
            LV::Idx(v, e) => {
                let i = self.index_of(e)?;
                let n = self.st.vals[*v].len() as i64;
                if i < 0 || i >= n {
                    return Err(Abort::OutOfRange(format!("{}[{}]", self.p.vars[*v].name, i)));
                }
                Ok((Some(*v), i as usize, self.elem_ty(*v)))
            }
            LV::PtrIdx(pv, e) => {
                let i = self.index_of(e)?;
                let (t, off) = self.resolve_ptr(*pv)?;
                let k = off + i;
                let n = self.st.vals[t].len() as i64;
                if k < 0 || k >= n {
                    return Err(Abort::OutOfRange(format!("{}[{}]", self.p.vars[*pv].name, i)));
                }
                Ok((Some(t), k as usize, self.elem_ty(t)))
            }
            LV::Deref(pv) => {
                if let VarKind::HwReg(_) = self.p.vars[*pv].kind {
                    return Ok((Some(*pv), 0, Ty::U8));
                }
                let (t, off) = self.resolve_ptr(*pv)?;
                let n = self.st.vals[t].len() as i64;
                if off < 0 || off >= n {
                    return Err(Abort::OutOfRange(format!("*{}", self.p.vars[*pv].name)));
                }
                Ok((Some(t), off as usize, self.elem_ty(t)))
            }
        }
    }

    fn read_target(&mut self, t: &(Option<VarId>, usize, Ty)) -> Val {
        let raw = match t.0 {
            None => {
                if t.1 == 0 {
                    self.st.x
                } else {
                    self.st.y
                }
            }
            Some(v) => {
                if let VarKind::HwReg(a) = self.p.vars[v].kind {
                    self.trace.push(TraceEv::HwRead(a));
                }
                self.st.vals[v][t.1]
            }
        };
        self.from_ty(raw, t.2)
    }

    fn write_target(&mut self, t: &(Option<VarId>, usize, Ty), val: &Val) -> Result<Val, Abort> {
        let stored = t.2.wrap(val.v);
        self.note(2 + ((t.0.map(|v| v as u64 + 2).unwrap_or(0)) << 8) + ((t.1 as u64) << 24), stored);
        match t.0 {
            None => {
                if t.1 == 0 {
                    self.st.x = stored
                } else {
                    self.st.y = stored
                }
            }
            Some(v) => {
                match &self.p.vars[v].kind {
                    VarKind::ConstTab(..) | VarKind::ConstVal(..) => {
                        return Err(Abort::Undefined(format!("write to const {}", self.p.vars[v].name)))
                    }
                    VarKind::HwReg(a) => self.trace.push(TraceEv::HwWrite(*a)),
                    _ => {}
                }
                self.st.vals[v][t.1] = stored;
            }
        }
        Ok(self.from_ty(stored, t.2))
    }

    fn truthy(v: &Val) -> bool {
        v.v != 0
    }

    fn bool_val(b: bool) -> Val {
        Val { v: b as i64, unsigned: false, narrow: true, nsigned: false }
    }

    fn binop(&self, op: BinOp, a: Val, b: Val) -> Result<Val, Abort> {
        // Ctx mode: both narrow -> 8-bit operation
        // (a left shift of a char by 8..15 is only ever written for a 16-bit result - `s = c << 8` -
        // and is not an 8-bit operation in any reading: it takes the ISO path below)
        let wide_shift = op == BinOp::Shl && (8..16).contains(&b.v);
        if self.mode == EvalMode::Ctx && a.narrow && b.narrow && !op.is_logic() && !wide_shift {
            let signed = a.nsigned && b.nsigned;
            let (x, y) = (wrap8(a.v, a.nsigned), wrap8(b.v, b.nsigned));
            // comparison / arithmetic on 8-bit values: operands reinterpreted with the common signedness
            let cx = wrap8(x, signed);
            let cy = wrap8(y, signed);
            let r = match op {
                BinOp::Add => cx + cy,
                BinOp::Sub => cx - cy,
                BinOp::Mul => cx * cy,
                BinOp::Div => {
                    if cy == 0 {
                        return Err(Abort::Undefined("division by zero".into()));
                    }
                    cx / cy
                }
                BinOp::And => cx & cy,
                BinOp::Or => cx | cy,
                BinOp::Xor => cx ^ cy,
                BinOp::Shl => {
                    if !(0..8).contains(&y) {
                        return Err(Abort::Undefined("shift count".into()));
                    }
                    wrap8(x, a.nsigned) << y
                }
                BinOp::Shr => {
                    if !(0..8).contains(&y) {
                        return Err(Abort::Undefined("shift count".into()));
                    }
                    if wrap8(x, a.nsigned) < 0 {
                        return Err(Abort::Undefined("right shift of a negative value (implementation-defined)".into()));
                    }
                    wrap8(x, a.nsigned) >> y
                }
                BinOp::Lt => (cx < cy) as i64,
                BinOp::Le => (cx <= cy) as i64,
                BinOp::Gt => (cx > cy) as i64,
                BinOp::Ge => (cx >= cy) as i64,
                BinOp::Eq => (cx == cy) as i64,
                BinOp::Ne => (cx != cy) as i64,
                BinOp::LAnd | BinOp::LOr => unreachable!(),
            };
            if op.is_cmp() {
                return Ok(Self::bool_val(r != 0));
            }
            let rs = match op {
                BinOp::Shl | BinOp::Shr => a.nsigned,
                _ => signed,
            };
            let w = wrap8(r, rs);
            return Ok(Val { v: w, unsigned: false, narrow: true, nsigned: rs });
        }
        // ISO: usual arithmetic conversions on 16-bit int
        let unsigned = a.unsigned || b.unsigned;
        let x = wrap16(a.v, unsigned);
        let y = wrap16(b.v, unsigned);
        let r = match op {
            BinOp::Add => x + y,
            BinOp::Sub => x - y,
            BinOp::Mul => x * y,
            BinOp::Div => {
                if y == 0 {
                    return Err(Abort::Undefined("division by zero".into()));
                }
                x / y
            }
            BinOp::And => x & y,
            BinOp::Or => x | y,
            BinOp::Xor => x ^ y,
            BinOp::Shl => {
                // shift: result type is that of the promoted left operand
                let yy = b.v;
                if !(0..16).contains(&yy) {
                    return Err(Abort::Undefined("shift count".into()));
                }
                return Ok(Val { v: wrap16(wrap16(a.v, a.unsigned) << yy, a.unsigned), unsigned: a.unsigned, narrow: false, nsigned: false });
            }
            BinOp::Shr => {
                let yy = b.v;
                if !(0..16).contains(&yy) {
                    return Err(Abort::Undefined("shift count".into()));
                }
                if wrap16(a.v, a.unsigned) < 0 {
                    return Err(Abort::Undefined("right shift of a negative value (implementation-defined)".into()));
                }
                return Ok(Val { v: wrap16(wrap16(a.v, a.unsigned) >> yy, a.unsigned), unsigned: a.unsigned, narrow: false, nsigned: false });
            }
            BinOp::Lt => return Ok(Self::bool_val(x < y)),
            BinOp::Le => return Ok(Self::bool_val(x <= y)),
            BinOp::Gt => return Ok(Self::bool_val(x > y)),
            BinOp::Ge => return Ok(Self::bool_val(x >= y)),
            BinOp::Eq => return Ok(Self::bool_val(x == y)),
            BinOp::Ne => return Ok(Self::bool_val(x != y)),
            BinOp::LAnd | BinOp::LOr => unreachable!(),
        };
        Ok(Val { v: wrap16(r, unsigned), unsigned, narrow: false, nsigned: false })
    }

    pub fn eval(&mut self, e: &Expr) -> Result<Val, Abort> {
        self.tick()?;
        match e {
            Expr::Num(n) => Ok(self.num(*n as i64, false)),
            Expr::Hex(n) => Ok(self.num(*n as i64, true)),
            Expr::Paren(a) => self.eval(a),
            Expr::Lv(l) => {
                if let LV::Var(v) = l {
                    match &self.p.vars[*v].kind {
                        VarKind::ConstVal(_, val) => return Ok(self.num(*val as i64, false)),
                        VarKind::Ptr | VarKind::Array(..) | VarKind::ConstTab(..) | VarKind::HwReg(_) => {
                            return Err(Abort::Undefined("array/pointer used as value".into()))
                        }
                        _ => {}
                    }
                }
                let t = self.lv_target(l)?;
                Ok(self.read_target(&t))
            }
            Expr::Un(op, a) => {
                let v = self.eval(a)?;
                match op {
                    UnOp::Not => Ok(Self::bool_val(v.v == 0)),
                    UnOp::Neg => {
                        if self.mode == EvalMode::Ctx && v.narrow {
                            let w = wrap8(-wrap8(v.v, v.nsigned), v.nsigned);
                            Ok(Val { v: w, unsigned: false, narrow: true, nsigned: v.nsigned })
                        } else {
                            Ok(Val { v: wrap16(-wrap16(v.v, v.unsigned), v.unsigned), unsigned: v.unsigned, narrow: false, nsigned: false })
                        }
                    }
                    UnOp::BNot => {
                        if self.mode == EvalMode::Ctx && v.narrow {
                            let w = wrap8(!wrap8(v.v, v.nsigned), v.nsigned);
                            Ok(Val { v: w, unsigned: false, narrow: true, nsigned: v.nsigned })
                        } else {
                            Ok(Val { v: wrap16(!wrap16(v.v, v.unsigned), v.unsigned), unsigned: v.unsigned, narrow: false, nsigned: false })
                        }
                    }
                }
            }
            Expr::Bin(op, a, b) => match op {
                BinOp::LAnd => {
                    let l = self.eval(a)?;
                    if !Self::truthy(&l) {
                        return Ok(Self::bool_val(false));
                    }
                    let r = self.eval(b)?;
                    Ok(Self::bool_val(Self::truthy(&r)))
                }
                BinOp::LOr => {
                    let l = self.eval(a)?;
                    if Self::truthy(&l) {
                        return Ok(Self::bool_val(true));
                    }
                    let r = self.eval(b)?;
                    Ok(Self::bool_val(Self::truthy(&r)))
                }
                _ => {
                    let l = self.eval(a)?;
                    let r = self.eval(b)?;
                    // an operation on two compile-time constants is folded by any compiler in
                    // int arithmetic: the 8-bit-context reading does not apply to it
                    if self.mode == EvalMode::Ctx && self.is_const_expr(a) && self.is_const_expr(b) {
                        self.mode = EvalMode::Iso;
                        let v = self.binop(*op, l, r);
                        self.mode = EvalMode::Ctx;
                        return v;
                    }
                    self.binop(*op, l, r)
                }
            },
            Expr::Assign(l, r) => {
                // pointer assignment p = arr
                if let (LV::Var(pv), Expr::AddrOf(t)) = (l, r.as_ref()) {
                    if self.p.vars[*pv].kind == VarKind::Ptr {
                        self.st.ptrs.insert(*pv, (*t, 0));
                        return Ok(Val { v: 0, unsigned: true, narrow: false, nsigned: false });
                    }
                }
                // C leaves the order of evaluating the two sides unspecified; generators never
                // let it matter (no side effects inside subscripts of assigned lvalues)
                let v = self.eval(r)?;
                let t = self.lv_target(l)?;
                self.write_target(&t, &v)
            }
            Expr::OpAssign(op, l, r) => {
                let t = self.lv_target(l)?;
                let cur = self.read_target(&t);
                let rv = self.eval(r)?;
                let nv = self.binop(*op, cur, rv)?;
                self.write_target(&t, &nv)
            }
            Expr::IncDec { lv, post, inc } => {
                if let LV::Var(pv) = lv {
                    if self.p.vars[*pv].kind == VarKind::Ptr {
                        let (t, off) = self.resolve_ptr(*pv)?;
                        let n = if *inc { off + 1 } else { off - 1 };
                        self.st.ptrs.insert(*pv, (t, n));
                        return Ok(Val { v: 0, unsigned: true, narrow: false, nsigned: false });
                    }
                }
                let t = self.lv_target(lv)?;
                let cur = self.read_target(&t);
                let one = Val { v: 1, unsigned: false, narrow: true, nsigned: false };
                let nv = self.binop(if *inc { BinOp::Add } else { BinOp::Sub }, cur, one)?;
                let w = self.write_target(&t, &nv)?;
                Ok(if *post { cur } else { w })
            }
            Expr::Cond(c, a, b) => {
                let cv = self.eval(c)?;
                if Self::truthy(&cv) {
                    self.eval(a)
                } else {
                    self.eval(b)
                }
            }
            Expr::Comma(a, b) => {
                self.eval(a)?;
                self.eval(b)
            }
            Expr::Call(f, args) => {
                let mut vals = Vec::new();
                for a in args {
                    if let Expr::AddrOf(t) = a {
                        vals.push((None, Some(*t)));
                    } else {
                        vals.push((Some(self.eval(a)?), None));
                    }
                }
                self.call(*f, vals)
            }
            Expr::AddrOf(_) => Err(Abort::Undefined("address used as value".into())),
            Expr::Sizeof(v) => {
                let n = match &self.p.vars[*v].kind {
                    VarKind::Scalar(t) | VarKind::ConstVal(t, _) => (t.bits() / 8) as i64,
                    VarKind::Array(t, n) => (t.bits() / 8) as i64 * *n as i64,
                    VarKind::ConstTab(t, vals) => (t.bits() / 8) as i64 * vals.len() as i64,
                    VarKind::Ptr | VarKind::HwReg(_) => 2,
                };
                Ok(self.num(n, false))
            }
        }
    }

    fn call(&mut self, f: usize, args: Vec<(Option<Val>, Option<VarId>)>) -> Result<Val, Abort> {
        if self.depth > 12 {
            return Err(Abort::Undefined("recursion".into()));
        }
        let func = &self.p.funcs[f];
        self.entries[f] += 1;
        self.trace.push(TraceEv::Enter(f));
        for (p, (v, tgt)) in func.params.iter().zip(args.iter()) {
            if let Some(t) = tgt {
                self.st.ptrs.insert(*p, (*t, 0));
            } else if let Some(v) = v {
                let ty = self.elem_ty(*p);
                self.st.vals[*p][0] = ty.wrap(v.v);
            }
        }
        self.depth += 1;
        let r = self.run_body(&func.body);
        self.depth -= 1;
        match r? {
            Flow::Return(Some(v)) => {
                // return type is char: converted to the function's return type
                let t = func.ret.unwrap_or(Ty::U8);
                Ok(self.from_ty(t.wrap(v.v), t))
            }
            Flow::Return(None) | Flow::Next => {
                if func.ret.is_some() {
                    // falling off a value-returning function: value unspecified
                    Err(Abort::Undefined("missing return value".into()))
                } else {
                    Ok(Val { v: 0, unsigned: false, narrow: true, nsigned: false })
                }
            }
            Flow::Goto(l) => Err(Abort::Undefined(format!("goto {} escaped", l))),
            Flow::Break | Flow::Continue => Err(Abort::Undefined("break/continue escaped".into())),
        }
    }

    /// top-level statement list of a function: supports goto to labels at this level
    fn run_body(&mut self, body: &[Stmt]) -> Result<Flow, Abort> {
        let mut pc = 0usize;
        while pc < body.len() {
            match self.exec(&body[pc])? {
                Flow::Next => pc += 1,
                Flow::Goto(l) => {
                    let mut found = None;
                    for (i, s) in body.iter().enumerate() {
                        if let Stmt::Labeled(n, _) = s {
                            if *n == l {
                                found = Some(i);
                            }
                        }
                    }
                    match found {
                        Some(i) => pc = i,
                        None => return Ok(Flow::Goto(l)),
                    }
                }
                f => return Ok(f),
            }
        }
        Ok(Flow::Next)
    }

    fn exec_list(&mut self, l: &[Stmt]) -> Result<Flow, Abort> {
        for s in l {
            match self.exec(s)? {
                Flow::Next => {}
                f => return Ok(f),
            }
        }
        Ok(Flow::Next)
    }

    fn exec(&mut self, s: &Stmt) -> Result<Flow, Abort> {
        self.tick()?;
        if !matches!(s, Stmt::Load(_) | Stmt::Store(_) | Stmt::CSleep(_)) {
            self.acc = None;
        }
        match s {
            Stmt::Expr(e) => {
                self.eval(e)?;
                Ok(Flow::Next)
            }
            Stmt::Empty => Ok(Flow::Next),
            Stmt::If(c, t, e) => {
                let cv = self.eval(c)?;
                self.note(3, Self::truthy(&cv) as i64);
                if Self::truthy(&cv) {
                    self.exec(t)
                } else if let Some(e) = e {
                    self.exec(e)
                } else {
                    Ok(Flow::Next)
                }
            }
            Stmt::While(c, b) => loop {
                self.tick()?;
                let cv = self.eval(c)?;
                self.note(4, Self::truthy(&cv) as i64);
                if !Self::truthy(&cv) {
                    return Ok(Flow::Next);
                }
                match self.exec(b)? {
                    Flow::Break => return Ok(Flow::Next),
                    Flow::Next | Flow::Continue => {}
                    f => return Ok(f),
                }
            },
            Stmt::DoWhile(b, c) => loop {
                self.tick()?;
                match self.exec(b)? {
                    Flow::Break => return Ok(Flow::Next),
                    Flow::Next | Flow::Continue => {}
                    f => return Ok(f),
                }
                let cv = self.eval(c)?;
                self.note(5, Self::truthy(&cv) as i64);
                if !Self::truthy(&cv) {
                    return Ok(Flow::Next);
                }
            },
            Stmt::For(i, c, u, b) => {
                if let Some(i) = i {
                    self.eval(i)?;
                }
                loop {
                    self.tick()?;
                    if let Some(c) = c {
                        let cv = self.eval(c)?;
                        self.note(6, Self::truthy(&cv) as i64);
                        if !Self::truthy(&cv) {
                            return Ok(Flow::Next);
                        }
                    }
                    match self.exec(b)? {
                        Flow::Break => return Ok(Flow::Next),
                        Flow::Next | Flow::Continue => {}
                        f => return Ok(f),
                    }
                    if let Some(u) = u {
                        self.eval(u)?;
                    }
                }
            }
            Stmt::Switch(e, cases, def) => {
                let v = self.eval(e)?;
                // the controlling value compared as int with the case constants
                let mut start: Option<usize> = None;
                for (i, (vals, _)) in cases.iter().enumerate() {
                    if vals.iter().any(|c| *c as i64 == v.v) {
                        start = Some(i);
                        break;
                    }
                }
                let n = cases.len();
                self.note(7, start.map(|i| i as i64).unwrap_or(-1));
                let begin = match start {
                    Some(i) => i,
                    None => {
                        if def.is_some() {
                            n
                        } else {
                            return Ok(Flow::Next);
                        }
                    }
                };
                for i in begin..=n {
                    let body: &[Stmt] = if i < n {
                        &cases[i].1
                    } else if let Some(d) = def {
                        d
                    } else {
                        break;
                    };
                    match self.exec_list(body)? {
                        Flow::Next => {}
                        Flow::Break => return Ok(Flow::Next),
                        f => return Ok(f),
                    }
                }
                Ok(Flow::Next)
            }
            Stmt::Break => Ok(Flow::Break),
            Stmt::Continue => Ok(Flow::Continue),
            Stmt::Return(e) => match e {
                Some(e) => {
                    let v = self.eval(e)?;
                    Ok(Flow::Return(Some(v)))
                }
                None => Ok(Flow::Return(None)),
            },
            Stmt::Block(b) => self.exec_list(b),
            Stmt::Decl(v, init) => {
                if let Some(e) = init {
                    let val = self.eval(e)?;
                    let ty = self.elem_ty(*v);
                    self.note(8 + ((*v as u64) << 8), ty.wrap(val.v));
                    self.st.vals[*v][0] = ty.wrap(val.v);
                }
                Ok(Flow::Next)
            }
            Stmt::Goto(l) => Ok(Flow::Goto(l.clone())),
            Stmt::Labeled(_, s) => self.exec(s),
            Stmt::Asm(text, _) => {
                // (a comment-only asm line emits nothing and is no event)
                if !text.trim_start().starts_with(';') {
                    self.trace.push(TraceEv::Asm(text.clone()));
                }
                Ok(Flow::Next)
            }
            Stmt::Load(e) => {
                self.trace.push(TraceEv::Explicit(1));
                // load(x): reads x into the accumulator; if x is a hardware register the read is an event
                if let Expr::Lv(LV::Deref(v)) = e {
                    if let VarKind::HwReg(a) = self.p.vars[*v].kind {
                        self.trace.push(TraceEv::Load(a));
                        self.acc = None;
                        return Ok(Flow::Next);
                    }
                }
                match e {
                    Expr::Lv(LV::X) => self.trace.push(TraceEv::Xfer(0x8a)), // TXA
                    Expr::Lv(LV::Y) => self.trace.push(TraceEv::Xfer(0x98)), // TYA
                    _ => {}
                }
                let v = self.eval(e)?;
                self.acc = Some(v.v & 0xff);
                Ok(Flow::Next)
            }
            Stmt::Store(l) => {
                self.trace.push(TraceEv::Explicit(2));
                if let LV::Deref(v) = l {
                    if let VarKind::HwReg(a) = self.p.vars[*v].kind {
                        self.trace.push(TraceEv::Store(a));
                        return Ok(Flow::Next);
                    }
                }
                // store(X) / store(Y) right after a load(): a register transfer of a known value
                match (l, self.acc) {
                    (LV::X, Some(a)) => {
                        self.trace.push(TraceEv::Xfer(0xaa)); // TAX
                        self.st.x = a;
                        Ok(Flow::Next)
                    }
                    (LV::Y, Some(a)) => {
                        self.trace.push(TraceEv::Xfer(0xa8)); // TAY
                        self.st.y = a;
                        Ok(Flow::Next)
                    }
                    _ => Err(Abort::Undefined("store() of A into a variable: value not modelled".into())),
                }
            }
            Stmt::Strobe(v) => {
                self.trace.push(TraceEv::Explicit(2));
                if let VarKind::HwReg(a) = self.p.vars[*v].kind {
                    self.trace.push(TraceEv::Strobe(a));
                }
                Ok(Flow::Next)
            }
            Stmt::CSleep(n) => {
                self.trace.push(TraceEv::CSleep(*n));
                Ok(Flow::Next)
            }
        }
    }

    pub fn run_main(&mut self) -> Result<(), Abort> {
        let m = self
            .p
            .funcs
            .iter()
            .position(|f| f.name == "main")
            .ok_or_else(|| Abort::Undefined("no main".into()))?;
        self.call(m, vec![])?;
        Ok(())
    }
}

/// initial state with every variable cell zero
pub fn zero_state(p: &Program) -> State {
    let mut vals = Vec::new();
    for v in &p.vars {
        let n = match &v.kind {
            VarKind::Array(_, n) => *n,
            VarKind::ConstTab(_, vals) => vals.len(),
            _ => 1,
        };
        let mut cells = vec![0i64; n];
        if let VarKind::ConstTab(t, init) = &v.kind {
            for (i, x) in init.iter().enumerate() {
                cells[i] = t.wrap(*x as i64);
            }
        }
        vals.push(cells);
    }
    State { vals, x: 0, y: 0, ptrs: BTreeMap::new() }
}
