// Independent assembler for the DASM dialect that cc6502 emits (AsmLine::write).
// Written from the NMOS 6502 datasheet; shares nothing with cc6502's own size tables.
//
// Its diagnostics are monitor verdicts for C13 (illegal mode, undefined symbol, duplicate
// label, branch out of range) and its per-line lengths are the oracle for C04 / C03.

use std::collections::BTreeMap;

#[derive(Clone, Copy, Debug, PartialEq, Eq, PartialOrd, Ord, Hash)]
pub enum Mode {
    Imp,
    Acc,
    Imm,
    Zp,
    ZpX,
    ZpY,
    Abs,
    AbsX,
    AbsY,
    Ind,
    IndX,
    IndY,
    Rel,
}

impl Mode {
    pub fn len(self) -> u16 {
        match self {
            Mode::Imp | Mode::Acc => 1,
            Mode::Imm | Mode::Zp | Mode::ZpX | Mode::ZpY | Mode::IndX | Mode::IndY | Mode::Rel => 2,
            Mode::Abs | Mode::AbsX | Mode::AbsY | Mode::Ind => 3,
        }
    }
}

#[derive(Clone, Copy, Debug, PartialEq, Eq, PartialOrd, Ord, Hash)]
pub enum Class {
    Read,
    Store,
    Rmw,
    Other,
}

/// (mnemonic, mode, opcode, base cycles, +1 on page cross)
pub const OPCODES: &[(&str, Mode, u8, u8, bool)] = &[
    ("ADC", Mode::Imm, 0x69, 2, false),
    ("ADC", Mode::Zp, 0x65, 3, false),
    ("ADC", Mode::ZpX, 0x75, 4, false),
    ("ADC", Mode::Abs, 0x6D, 4, false),
    ("ADC", Mode::AbsX, 0x7D, 4, true),
    ("ADC", Mode::AbsY, 0x79, 4, true),
    ("ADC", Mode::IndX, 0x61, 6, false),
    ("ADC", Mode::IndY, 0x71, 5, true),
    ("AND", Mode::Imm, 0x29, 2, false),
    ("AND", Mode::Zp, 0x25, 3, false),
    ("AND", Mode::ZpX, 0x35, 4, false),
    ("AND", Mode::Abs, 0x2D, 4, false),
    ("AND", Mode::AbsX, 0x3D, 4, true),
    ("AND", Mode::AbsY, 0x39, 4, true),
    ("AND", Mode::IndX, 0x21, 6, false),
    ("AND", Mode::IndY, 0x31, 5, true),
    ("ASL", Mode::Acc, 0x0A, 2, false),
    ("ASL", Mode::Zp, 0x06, 5, false),
    ("ASL", Mode::ZpX, 0x16, 6, false),
    ("ASL", Mode::Abs, 0x0E, 6, false),
    ("ASL", Mode::AbsX, 0x1E, 7, false),
    ("BCC", Mode::Rel, 0x90, 2, false),
    ("BCS", Mode::Rel, 0xB0, 2, false),
    ("BEQ", Mode::Rel, 0xF0, 2, false),
    ("BMI", Mode::Rel, 0x30, 2, false),
    ("BNE", Mode::Rel, 0xD0, 2, false),
    ("BPL", Mode::Rel, 0x10, 2, false),
    ("BVC", Mode::Rel, 0x50, 2, false),
    ("BVS", Mode::Rel, 0x70, 2, false),
    ("BIT", Mode::Zp, 0x24, 3, false),
    ("BIT", Mode::Abs, 0x2C, 4, false),
    ("BRK", Mode::Imp, 0x00, 7, false),
    ("CLC", Mode::Imp, 0x18, 2, false),
    ("CLD", Mode::Imp, 0xD8, 2, false),
    ("CLI", Mode::Imp, 0x58, 2, false),
    ("CLV", Mode::Imp, 0xB8, 2, false),
    ("CMP", Mode::Imm, 0xC9, 2, false),
    ("CMP", Mode::Zp, 0xC5, 3, false),
    ("CMP", Mode::ZpX, 0xD5, 4, false),
    ("CMP", Mode::Abs, 0xCD, 4, false),
    ("CMP", Mode::AbsX, 0xDD, 4, true),
    ("CMP", Mode::AbsY, 0xD9, 4, true),
    ("CMP", Mode::IndX, 0xC1, 6, false),
    ("CMP", Mode::IndY, 0xD1, 5, true),
    ("CPX", Mode::Imm, 0xE0, 2, false),
    ("CPX", Mode::Zp, 0xE4, 3, false),
    ("CPX", Mode::Abs, 0xEC, 4, false),
    ("CPY", Mode::Imm, 0xC0, 2, false),
    ("CPY", Mode::Zp, 0xC4, 3, false),
    ("CPY", Mode::Abs, 0xCC, 4, false),
    ("DEC", Mode::Zp, 0xC6, 5, false),
    ("DEC", Mode::ZpX, 0xD6, 6, false),
    ("DEC", Mode::Abs, 0xCE, 6, false),
    ("DEC", Mode::AbsX, 0xDE, 7, false),
    ("DEX", Mode::Imp, 0xCA, 2, false),
    ("DEY", Mode::Imp, 0x88, 2, false),
    ("EOR", Mode::Imm, 0x49, 2, false),
    ("EOR", Mode::Zp, 0x45, 3, false),
    ("EOR", Mode::ZpX, 0x55, 4, false),
    ("EOR", Mode::Abs, 0x4D, 4, false),
    ("EOR", Mode::AbsX, 0x5D, 4, true),
    ("EOR", Mode::AbsY, 0x59, 4, true),
    ("EOR", Mode::IndX, 0x41, 6, false),
    ("EOR", Mode::IndY, 0x51, 5, true),
    ("INC", Mode::Zp, 0xE6, 5, false),
    ("INC", Mode::ZpX, 0xF6, 6, false),
    ("INC", Mode::Abs, 0xEE, 6, false),
    ("INC", Mode::AbsX, 0xFE, 7, false),
    ("INX", Mode::Imp, 0xE8, 2, false),
    ("INY", Mode::Imp, 0xC8, 2, false),
    ("JMP", Mode::Abs, 0x4C, 3, false),
    ("JMP", Mode::Ind, 0x6C, 5, false),
    ("JSR", Mode::Abs, 0x20, 6, false),
    ("LDA", Mode::Imm, 0xA9, 2, false),
    ("LDA", Mode::Zp, 0xA5, 3, false),
    ("LDA", Mode::ZpX, 0xB5, 4, false),
    ("LDA", Mode::Abs, 0xAD, 4, false),
    ("LDA", Mode::AbsX, 0xBD, 4, true),
    ("LDA", Mode::AbsY, 0xB9, 4, true),
    ("LDA", Mode::IndX, 0xA1, 6, false),
    ("LDA", Mode::IndY, 0xB1, 5, true),
    ("LDX", Mode::Imm, 0xA2, 2, false),
    ("LDX", Mode::Zp, 0xA6, 3, false),
    ("LDX", Mode::ZpY, 0xB6, 4, false),
    ("LDX", Mode::Abs, 0xAE, 4, false),
    ("LDX", Mode::AbsY, 0xBE, 4, true),
    ("LDY", Mode::Imm, 0xA0, 2, false),
    ("LDY", Mode::Zp, 0xA4, 3, false),
    ("LDY", Mode::ZpX, 0xB4, 4, false),
    ("LDY", Mode::Abs, 0xAC, 4, false),
    ("LDY", Mode::AbsX, 0xBC, 4, true),
    ("LSR", Mode::Acc, 0x4A, 2, false),
    ("LSR", Mode::Zp, 0x46, 5, false),
    ("LSR", Mode::ZpX, 0x56, 6, false),
    ("LSR", Mode::Abs, 0x4E, 6, false),
    ("LSR", Mode::AbsX, 0x5E, 7, false),
    ("NOP", Mode::Imp, 0xEA, 2, false),
    ("ORA", Mode::Imm, 0x09, 2, false),
    ("ORA", Mode::Zp, 0x05, 3, false),
    ("ORA", Mode::ZpX, 0x15, 4, false),
    ("ORA", Mode::Abs, 0x0D, 4, false),
    ("ORA", Mode::AbsX, 0x1D, 4, true),
    ("ORA", Mode::AbsY, 0x19, 4, true),
    ("ORA", Mode::IndX, 0x01, 6, false),
    ("ORA", Mode::IndY, 0x11, 5, true),
    ("PHA", Mode::Imp, 0x48, 3, false),
    ("PHP", Mode::Imp, 0x08, 3, false),
    ("PLA", Mode::Imp, 0x68, 4, false),
    ("PLP", Mode::Imp, 0x28, 4, false),
    ("ROL", Mode::Acc, 0x2A, 2, false),
    ("ROL", Mode::Zp, 0x26, 5, false),
    ("ROL", Mode::ZpX, 0x36, 6, false),
    ("ROL", Mode::Abs, 0x2E, 6, false),
    ("ROL", Mode::AbsX, 0x3E, 7, false),
    ("ROR", Mode::Acc, 0x6A, 2, false),
    ("ROR", Mode::Zp, 0x66, 5, false),
    ("ROR", Mode::ZpX, 0x76, 6, false),
    ("ROR", Mode::Abs, 0x6E, 6, false),
    ("ROR", Mode::AbsX, 0x7E, 7, false),
    ("RTI", Mode::Imp, 0x40, 6, false),
    ("RTS", Mode::Imp, 0x60, 6, false),
    ("SBC", Mode::Imm, 0xE9, 2, false),
    ("SBC", Mode::Zp, 0xE5, 3, false),
    ("SBC", Mode::ZpX, 0xF5, 4, false),
    ("SBC", Mode::Abs, 0xED, 4, false),
    ("SBC", Mode::AbsX, 0xFD, 4, true),
    ("SBC", Mode::AbsY, 0xF9, 4, true),
    ("SBC", Mode::IndX, 0xE1, 6, false),
    ("SBC", Mode::IndY, 0xF1, 5, true),
    ("SEC", Mode::Imp, 0x38, 2, false),
    ("SED", Mode::Imp, 0xF8, 2, false),
    ("SEI", Mode::Imp, 0x78, 2, false),
    ("STA", Mode::Zp, 0x85, 3, false),
    ("STA", Mode::ZpX, 0x95, 4, false),
    ("STA", Mode::Abs, 0x8D, 4, false),
    ("STA", Mode::AbsX, 0x9D, 5, false),
    ("STA", Mode::AbsY, 0x99, 5, false),
    ("STA", Mode::IndX, 0x81, 6, false),
    ("STA", Mode::IndY, 0x91, 6, false),
    ("STX", Mode::Zp, 0x86, 3, false),
    ("STX", Mode::ZpY, 0x96, 4, false),
    ("STX", Mode::Abs, 0x8E, 4, false),
    ("STY", Mode::Zp, 0x84, 3, false),
    ("STY", Mode::ZpX, 0x94, 4, false),
    ("STY", Mode::Abs, 0x8C, 4, false),
    ("TAX", Mode::Imp, 0xAA, 2, false),
    ("TAY", Mode::Imp, 0xA8, 2, false),
    ("TSX", Mode::Imp, 0xBA, 2, false),
    ("TXA", Mode::Imp, 0x8A, 2, false),
    ("TXS", Mode::Imp, 0x9A, 2, false),
    ("TYA", Mode::Imp, 0x98, 2, false),
];

pub fn class_of(mn: &str) -> Class {
    match mn {
        "LDA" | "LDX" | "LDY" | "ADC" | "SBC" | "AND" | "ORA" | "EOR" | "CMP" | "CPX" | "CPY"
        | "BIT" => Class::Read,
        "STA" | "STX" | "STY" => Class::Store,
        "ASL" | "LSR" | "ROL" | "ROR" | "INC" | "DEC" => Class::Rmw,
        _ => Class::Other,
    }
}

pub fn lookup(mn: &str, mode: Mode) -> Option<(u8, u8, bool)> {
    for o in OPCODES {
        if o.0 == mn && o.1 == mode {
            return Some((o.2, o.3, o.4));
        }
    }
    None
}

pub fn is_mnemonic(mn: &str) -> bool {
    OPCODES.iter().any(|o| o.0 == mn)
}

pub fn is_branch(mn: &str) -> bool {
    matches!(mn, "BCC" | "BCS" | "BEQ" | "BMI" | "BNE" | "BPL" | "BVC" | "BVS")
}

#[derive(Clone, Debug, PartialEq, Eq)]
pub enum RomByte {
    B(u8),
    Lo(String, i32),
    Hi(String, i32),
}

#[derive(Clone, Debug)]
pub struct AsmFunc {
    pub name: String,
    pub text: String,
    /// part of the executable image (in use, not inline).  Others are assembled for checks only
    pub in_image: bool,
    /// append RTS after the body, as the builder does
    pub append_rts: bool,
}

#[derive(Clone, Debug, Default)]
pub struct AsmInput {
    pub symbols: BTreeMap<String, i64>,
    pub funcs: Vec<AsmFunc>,
    pub rom: Vec<(String, usize, Vec<RomByte>)>, // name, alignment, bytes
    pub org: u16,
    /// virtual encoding used to execute code whose branches do not fit: conditional branches
    /// are emitted as opcode + 16-bit absolute target (3 bytes); see Machine::wide_rel
    pub wide_rel: bool,
}

#[derive(Clone, Debug, PartialEq, Eq)]
pub enum LineKind {
    Label,
    Comment,
    Instr,
    Blank,
}

#[derive(Clone, Debug)]
pub struct LineRec {
    pub func: usize,
    pub lineno: usize,
    pub kind: LineKind,
    pub addr: u16,
    pub len: u16,
    pub text: String,
    pub mnemonic: String,
    pub mode: Option<Mode>,
    pub operand: String,
    /// marker `;@I<k>` found on the line (our generated inline asm carries it)
    pub marker: Option<String>,
    pub target: Option<u16>,
}

#[derive(Clone, Debug, PartialEq, Eq)]
pub struct AsmError {
    pub func: String,
    pub lineno: usize,
    pub kind: String, // illegal-mode | undefined-symbol | duplicate-label | branch-range | syntax | unknown-mnemonic
    pub detail: String,
}

#[derive(Clone, Debug, Default)]
pub struct AsmOutput {
    pub org: u16,
    pub image: Vec<u8>,
    pub globals: BTreeMap<String, u16>,
    pub func_ranges: Vec<(String, u16, u16, bool)>, // name, start, end (exclusive), in_image
    pub lines: Vec<LineRec>,
    pub errors: Vec<AsmError>,
    pub entry_stub: u16,
    pub halt_addr: u16,
    /// per function: labels defined and referenced (for evidence)
    pub local_labels: Vec<BTreeMap<String, u16>>,
    pub rom_ranges: Vec<(String, u16, u16)>,
}

// ---------------------------------------------------------------- operand expressions

#[derive(Debug, Clone)]
enum Tok {
    Num(i64),
    Sym(String),
    Plus,
    Minus,
    LPar,
    RPar,
    Lt,
    Gt,
    Star,
}

fn lex_expr(s: &str) -> Result<Vec<Tok>, String> {
    let b = s.as_bytes();
    let mut i = 0;
    let mut v = Vec::new();
    while i < b.len() {
        let c = b[i] as char;
        if c == ' ' || c == '\t' {
            i += 1;
        } else if c == '$' {
            let st = i + 1;
            i += 1;
            while i < b.len() && (b[i] as char).is_ascii_hexdigit() {
                i += 1;
            }
            if st == i {
                return Err(format!("bad hex in '{}'", s));
            }
            v.push(Tok::Num(i64::from_str_radix(&s[st..i], 16).map_err(|e| e.to_string())?));
        } else if c == '%' {
            let st = i + 1;
            i += 1;
            while i < b.len() && (b[i] == b'0' || b[i] == b'1') {
                i += 1;
            }
            if st == i {
                return Err(format!("bad binary in '{}'", s));
            }
            v.push(Tok::Num(i64::from_str_radix(&s[st..i], 2).map_err(|e| e.to_string())?));
        } else if c.is_ascii_digit() {
            let st = i;
            while i < b.len() && (b[i] as char).is_ascii_digit() {
                i += 1;
            }
            v.push(Tok::Num(s[st..i].parse::<i64>().map_err(|e| e.to_string())?));
        } else if c.is_ascii_alphabetic() || c == '_' || c == '.' {
            let st = i;
            i += 1;
            while i < b.len()
                && ((b[i] as char).is_ascii_alphanumeric() || b[i] == b'_' || b[i] == b'.')
            {
                i += 1;
            }
            v.push(Tok::Sym(s[st..i].to_string()));
        } else {
            v.push(match c {
                '+' => Tok::Plus,
                '-' => Tok::Minus,
                '(' => Tok::LPar,
                ')' => Tok::RPar,
                '<' => Tok::Lt,
                '>' => Tok::Gt,
                '*' => Tok::Star,
                _ => return Err(format!("unexpected '{}' in '{}'", c, s)),
            });
            i += 1;
        }
    }
    Ok(v)
}

/// Result of evaluating an expression: value if all symbols were known, plus whether it
/// depends on a not-yet-known (forward / code) symbol.
struct Ev<'a> {
    toks: Vec<Tok>,
    pos: usize,
    resolve: &'a dyn Fn(&str) -> Option<i64>,
    unknown: Vec<String>,
}

impl<'a> Ev<'a> {
    fn peek(&self) -> Option<&Tok> {
        self.toks.get(self.pos)
    }
    fn expr(&mut self) -> Result<i64, String> {
        // lowest: unary < >
        match self.peek() {
            Some(Tok::Lt) => {
                self.pos += 1;
                let v = self.expr()?;
                Ok(v & 0xff)
            }
            Some(Tok::Gt) => {
                self.pos += 1;
                let v = self.expr()?;
                Ok((v >> 8) & 0xff)
            }
            _ => self.sum(),
        }
    }
    fn sum(&mut self) -> Result<i64, String> {
        let mut v = self.term()?;
        loop {
            match self.peek() {
                Some(Tok::Plus) => {
                    self.pos += 1;
                    v += self.term()?;
                }
                Some(Tok::Minus) => {
                    self.pos += 1;
                    v -= self.term()?;
                }
                _ => return Ok(v),
            }
        }
    }
    fn term(&mut self) -> Result<i64, String> {
        let mut v = self.unary()?;
        while let Some(Tok::Star) = self.peek() {
            self.pos += 1;
            v *= self.unary()?;
        }
        Ok(v)
    }
    fn unary(&mut self) -> Result<i64, String> {
        match self.peek().cloned() {
            Some(Tok::Minus) => {
                self.pos += 1;
                Ok(-self.unary()?)
            }
            Some(Tok::Plus) => {
                self.pos += 1;
                self.unary()
            }
            Some(Tok::Lt) => {
                self.pos += 1;
                Ok(self.unary()? & 0xff)
            }
            Some(Tok::Gt) => {
                self.pos += 1;
                Ok((self.unary()? >> 8) & 0xff)
            }
            Some(Tok::Num(n)) => {
                self.pos += 1;
                Ok(n)
            }
            Some(Tok::Sym(s)) => {
                self.pos += 1;
                match (self.resolve)(&s) {
                    Some(v) => Ok(v),
                    None => {
                        self.unknown.push(s);
                        Ok(0x7000) // placeholder of "16-bit" magnitude
                    }
                }
            }
            Some(Tok::LPar) => {
                self.pos += 1;
                let v = self.expr()?;
                match self.peek() {
                    Some(Tok::RPar) => {
                        self.pos += 1;
                        Ok(v)
                    }
                    _ => Err("missing )".to_string()),
                }
            }
            t => Err(format!("unexpected token {:?}", t)),
        }
    }
}

fn eval_expr(s: &str, resolve: &dyn Fn(&str) -> Option<i64>) -> Result<(i64, Vec<String>), String> {
    let toks = lex_expr(s)?;
    if toks.is_empty() {
        return Err("empty expression".into());
    }
    let mut ev = Ev { toks, pos: 0, resolve, unknown: vec![] };
    let v = ev.expr()?;
    if ev.pos != ev.toks.len() {
        return Err(format!("trailing tokens in '{}'", s));
    }
    Ok((v, ev.unknown))
}

// ---------------------------------------------------------------- line parsing

#[derive(Debug, Clone)]
enum OperandShape {
    None,
    Acc,
    Imm(String),
    IndY(String),
    IndX(String),
    Ind(String),
    X(String),
    Y(String),
    Plain(String),
}

fn split_comment(line: &str) -> (&str, Option<&str>) {
    match line.find(';') {
        Some(i) => (&line[..i], Some(&line[i + 1..])),
        None => (line, None),
    }
}

fn parse_operand(op: &str) -> OperandShape {
    let o = op.trim();
    if o.is_empty() {
        return OperandShape::None;
    }
    // DASM has no "ASL A" spelling (a bare `A` is a symbol): cc6502 emits the bare mnemonic
    if let Some(r) = o.strip_prefix('#') {
        return OperandShape::Imm(r.trim().to_string());
    }
    let up = o.to_ascii_uppercase();
    if o.starts_with('(') {
        // (expr),Y | (expr,X) | (expr)   -- but also "(sym+1)" plain parenthesised expr
        if up.ends_with("),Y") {
            return OperandShape::IndY(o[1..o.len() - 3].trim().to_string());
        }
        if up.ends_with(",X)") {
            return OperandShape::IndX(o[1..o.len() - 3].trim().to_string());
        }
    }
    if up.ends_with(",X") {
        return OperandShape::X(o[..o.len() - 2].trim().to_string());
    }
    if up.ends_with(",Y") {
        return OperandShape::Y(o[..o.len() - 2].trim().to_string());
    }
    if o.starts_with('(') && o.ends_with(')') {
        // JMP (ind) – only meaningful for JMP; for others it's a parenthesised expr
        return OperandShape::Ind(o[1..o.len() - 1].trim().to_string());
    }
    OperandShape::Plain(o.to_string())
}

struct PInstr {
    func: usize,
    lineno: usize,
    text: String,
    mnemonic: String,
    shape: OperandShape,
    operand: String,
    marker: Option<String>,
    addr: u16,
    mode: Option<Mode>,
}

enum PItem {
    Label(usize, usize, String), // func, lineno, name
    Instr(PInstr),
    Other(usize, usize, LineKind, String),
}

pub fn assemble(input: &AsmInput) -> AsmOutput {
    let mut out = AsmOutput { org: input.org, ..Default::default() };
    let mut items: Vec<PItem> = Vec::new();

    // ---- parse
    for (fi, f) in input.funcs.iter().enumerate() {
        items.push(PItem::Label(fi, 0, f.name.clone()));
        let mut lineno = 0;
        for raw in f.text.split('\n') {
            lineno += 1;
            let line = raw.trim_end_matches('\r');
            if line.trim().is_empty() {
                items.push(PItem::Other(fi, lineno, LineKind::Blank, line.to_string()));
                continue;
            }
            let first = line.chars().next().unwrap();
            if first == ';' {
                items.push(PItem::Other(fi, lineno, LineKind::Comment, line.to_string()));
                continue;
            }
            let (code, comment) = split_comment(line);
            let marker = comment.and_then(|c| {
                c.find("@I").map(|i| {
                    c[i..]
                        .chars()
                        .take_while(|ch| ch.is_ascii_alphanumeric() || *ch == '@' || *ch == '_')
                        .collect::<String>()
                })
            });
            if first != ' ' && first != '\t' {
                // label, possibly followed by an instruction
                let mut parts = code.trim_end().splitn(2, |c: char| c == ' ' || c == '\t');
                let name = parts.next().unwrap().trim_end_matches(':').to_string();
                items.push(PItem::Label(fi, lineno, name));
                match parts.next() {
                    Some(rest) if !rest.trim().is_empty() => {
                        push_instr(&mut items, &mut out, fi, lineno, line, rest.trim(), marker, &f.name);
                    }
                    _ => {}
                }
                continue;
            }
            let c = code.trim();
            if c.is_empty() {
                items.push(PItem::Other(fi, lineno, LineKind::Comment, line.to_string()));
                continue;
            }
            push_instr(&mut items, &mut out, fi, lineno, line, c, marker, &f.name);
        }
        if f.append_rts {
            items.push(PItem::Instr(PInstr {
                func: fi,
                lineno: lineno + 1,
                text: "\tRTS".into(),
                mnemonic: "RTS".into(),
                shape: OperandShape::None,
                operand: String::new(),
                marker: Some("@RTS".into()),
                addr: 0,
                mode: None,
            }));
        }
    }

    // ---- pass 1: choose modes and place labels
    // stub: JSR main ; halt
    let stub = input.org;
    out.entry_stub = stub;
    out.halt_addr = stub.wrapping_add(3);
    let mut pc: u32 = stub as u32 + 4; // JSR xx xx ; BRK-like halt byte
    let nfun = input.funcs.len();
    out.local_labels = vec![BTreeMap::new(); nfun];
    let mut func_start: Vec<u32> = vec![0; nfun];
    let mut func_end: Vec<u32> = vec![0; nfun];
    let known = |s: &str| -> Option<i64> { input.symbols.get(s).copied() };

    for it in items.iter_mut() {
        match it {
            PItem::Label(fi, lineno, name) => {
                if *lineno == 0 {
                    func_start[*fi] = pc;
                    if out.globals.insert(name.clone(), pc as u16).is_some() {
                        out.errors.push(AsmError {
                            func: name.clone(),
                            lineno: 0,
                            kind: "duplicate-label".into(),
                            detail: format!("function label {} defined twice", name),
                        });
                    }
                } else if name.starts_with('.') {
                    if out.local_labels[*fi].insert(name.clone(), pc as u16).is_some() {
                        out.errors.push(AsmError {
                            func: input.funcs[*fi].name.clone(),
                            lineno: *lineno,
                            kind: "duplicate-label".into(),
                            detail: format!("local label {} defined twice in {}", name, input.funcs[*fi].name),
                        });
                    }
                } else if out.globals.insert(name.clone(), pc as u16).is_some()
                    || input.symbols.contains_key(name.as_str())
                {
                    out.errors.push(AsmError {
                        func: input.funcs[*fi].name.clone(),
                        lineno: *lineno,
                        kind: "duplicate-label".into(),
                        detail: format!("global label {} defined twice", name),
                    });
                }
            }
            PItem::Instr(pi) => {
                pi.addr = pc as u16;
                let mode = choose_mode(&pi.mnemonic, &pi.shape, &known);
                match mode {
                    Ok(m) => {
                        pi.mode = Some(m);
                        pc += if m == Mode::Rel && input.wide_rel { 3 } else { m.len() as u32 };
                    }
                    Err((kind, detail)) => {
                        out.errors.push(AsmError {
                            func: input.funcs[pi.func].name.clone(),
                            lineno: pi.lineno,
                            kind,
                            detail: format!("{} [{}]", detail, pi.text.trim()),
                        });
                        pi.mode = None;
                        pc += 3; // keep going
                    }
                }
                func_end[pi.func] = pc;
            }
            PItem::Other(..) => {}
        }
    }
    for fi in 0..nfun {
        if func_end[fi] < func_start[fi] {
            func_end[fi] = func_start[fi];
        }
    }
    // ROM tables after code
    let mut rom_addr: Vec<(String, u32)> = Vec::new();
    for (name, align, bytes) in &input.rom {
        let a = (*align).max(1) as u32;
        if pc % a != 0 {
            pc += a - (pc % a);
        }
        rom_addr.push((name.clone(), pc));
        out.globals.insert(name.clone(), pc as u16);
        out.rom_ranges.push((name.clone(), pc as u16, (pc + bytes.len() as u32) as u16));
        pc += bytes.len() as u32;
    }
    if pc > 0x10000 {
        out.errors.push(AsmError {
            func: String::new(),
            lineno: 0,
            kind: "image-too-large".into(),
            detail: format!("image ends at {:x}", pc),
        });
    }
    if pc > 0x10000 {
        return out;
    }
    let total = (pc - stub as u32) as usize;
    out.image = vec![0u8; total.min(0x10000)];

    // ---- pass 2: encode
    let main_addr = out.globals.get("main").copied();
    {
        let img = &mut out.image;
        img[0] = 0x20;
        let m = main_addr.unwrap_or(out.halt_addr);
        img[1] = (m & 0xff) as u8;
        img[2] = (m >> 8) as u8;
        img[3] = 0x02; // an undefined opcode: reaching it by execution is detected by address
    }
    let globals = out.globals.clone();
    for it in items.iter() {
        match it {
            PItem::Label(fi, lineno, name) => {
                let addr = if *lineno == 0 {
                    func_start[*fi] as u16
                } else if name.starts_with('.') {
                    *out.local_labels[*fi].get(name).unwrap_or(&0)
                } else {
                    *globals.get(name).unwrap_or(&0)
                };
                out.lines.push(LineRec {
                    func: *fi,
                    lineno: *lineno,
                    kind: LineKind::Label,
                    addr,
                    len: 0,
                    text: name.clone(),
                    mnemonic: String::new(),
                    mode: None,
                    operand: String::new(),
                    marker: None,
                    target: None,
                });
            }
            PItem::Other(fi, lineno, kind, text) => {
                out.lines.push(LineRec {
                    func: *fi,
                    lineno: *lineno,
                    kind: kind.clone(),
                    addr: 0,
                    len: 0,
                    text: text.clone(),
                    mnemonic: String::new(),
                    mode: None,
                    operand: String::new(),
                    marker: None,
                    target: None,
                });
            }
            PItem::Instr(pi) => {
                let fname = &input.funcs[pi.func].name;
                let locals = &out.local_labels[pi.func];
                let resolve = |s: &str| -> Option<i64> {
                    if s.starts_with('.') {
                        return locals.get(s).map(|v| *v as i64);
                    }
                    if let Some(v) = input.symbols.get(s) {
                        return Some(*v);
                    }
                    globals.get(s).map(|v| *v as i64)
                };
                let mut target = None;
                let mut len = 3;
                if let Some(mode) = pi.mode {
                    len = if mode == Mode::Rel && input.wide_rel { 3 } else { mode.len() };
                    let (opc, _, _) = lookup(&pi.mnemonic, mode).unwrap();
                    let off = (pi.addr as u32 - stub as u32) as usize;
                    let expr = match &pi.shape {
                        OperandShape::None | OperandShape::Acc => None,
                        OperandShape::Imm(e)
                        | OperandShape::IndY(e)
                        | OperandShape::IndX(e)
                        | OperandShape::Ind(e)
                        | OperandShape::X(e)
                        | OperandShape::Y(e)
                        | OperandShape::Plain(e) => Some(e.clone()),
                    };
                    let mut val: i64 = 0;
                    if let Some(e) = expr {
                        match eval_expr(&e, &resolve) {
                            Ok((v, unknown)) => {
                                val = v;
                                for u in unknown {
                                    let tolerated = !input.funcs[pi.func].in_image
                                        && pi.mnemonic == "JSR";
                                    if !tolerated {
                                        out.errors.push(AsmError {
                                            func: fname.clone(),
                                            lineno: pi.lineno,
                                            kind: "undefined-symbol".into(),
                                            detail: format!("{} in [{}]", u, pi.text.trim()),
                                        });
                                    }
                                }
                            }
                            Err(e) => out.errors.push(AsmError {
                                func: fname.clone(),
                                lineno: pi.lineno,
                                kind: "syntax".into(),
                                detail: format!("{} in [{}]", e, pi.text.trim()),
                            }),
                        }
                    }
                    if off + (len as usize) <= out.image.len() {
                        out.image[off] = opc;
                        match mode {
                            Mode::Imp | Mode::Acc => {}
                            Mode::Imm => {
                                if !(-128..=255).contains(&val) {
                                    out.errors.push(AsmError {
                                        func: fname.clone(),
                                        lineno: pi.lineno,
                                        kind: "value-range".into(),
                                        detail: format!("immediate {} in [{}]", val, pi.text.trim()),
                                    });
                                }
                                out.image[off + 1] = (val & 0xff) as u8;
                            }
                            Mode::Zp | Mode::ZpX | Mode::ZpY | Mode::IndX | Mode::IndY => {
                                if !(0..=255).contains(&val) {
                                    out.errors.push(AsmError {
                                        func: fname.clone(),
                                        lineno: pi.lineno,
                                        kind: "value-range".into(),
                                        detail: format!("zero-page operand {} in [{}]", val, pi.text.trim()),
                                    });
                                }
                                out.image[off + 1] = (val & 0xff) as u8;
                                target = Some((val & 0xff) as u16);
                            }
                            Mode::Abs | Mode::AbsX | Mode::AbsY | Mode::Ind => {
                                if !(0..=0xffff).contains(&val) {
                                    out.errors.push(AsmError {
                                        func: fname.clone(),
                                        lineno: pi.lineno,
                                        kind: "value-range".into(),
                                        detail: format!("address {} in [{}]", val, pi.text.trim()),
                                    });
                                }
                                out.image[off + 1] = (val & 0xff) as u8;
                                out.image[off + 2] = ((val >> 8) & 0xff) as u8;
                                target = Some((val & 0xffff) as u16);
                            }
                            Mode::Rel if input.wide_rel => {
                                out.image[off + 1] = (val & 0xff) as u8;
                                out.image[off + 2] = ((val >> 8) & 0xff) as u8;
                                target = Some((val & 0xffff) as u16);
                            }
                            Mode::Rel => {
                                let disp = val - (pi.addr as i64 + 2);
                                if !(-128..=127).contains(&disp) {
                                    out.errors.push(AsmError {
                                        func: fname.clone(),
                                        lineno: pi.lineno,
                                        kind: "branch-range".into(),
                                        detail: format!("displacement {} in [{}]", disp, pi.text.trim()),
                                    });
                                }
                                out.image[off + 1] = (disp & 0xff) as u8;
                                target = Some((val & 0xffff) as u16);
                            }
                        }
                    }
                }
                out.lines.push(LineRec {
                    func: pi.func,
                    lineno: pi.lineno,
                    kind: LineKind::Instr,
                    addr: pi.addr,
                    len,
                    text: pi.text.clone(),
                    mnemonic: pi.mnemonic.clone(),
                    mode: pi.mode,
                    operand: pi.operand.clone(),
                    marker: pi.marker.clone(),
                    target,
                });
            }
        }
    }
    // ROM bytes
    for ((_name, _align, bytes), (_, addr)) in input.rom.iter().zip(rom_addr.iter()) {
        let resolve = |s: &str| -> Option<i64> {
            if let Some(v) = input.symbols.get(s) {
                return Some(*v);
            }
            globals.get(s).map(|v| *v as i64)
        };
        for (k, b) in bytes.iter().enumerate() {
            let off = (*addr - stub as u32) as usize + k;
            if off >= out.image.len() {
                break;
            }
            out.image[off] = match b {
                RomByte::B(v) => *v,
                RomByte::Lo(s, o) => match resolve(s) {
                    Some(v) => ((v + *o as i64) & 0xff) as u8,
                    None => {
                        out.errors.push(AsmError {
                            func: String::new(),
                            lineno: 0,
                            kind: "undefined-symbol".into(),
                            detail: format!("{} in ROM table", s),
                        });
                        0
                    }
                },
                RomByte::Hi(s, o) => match resolve(s) {
                    Some(v) => (((v + *o as i64) >> 8) & 0xff) as u8,
                    None => {
                        out.errors.push(AsmError {
                            func: String::new(),
                            lineno: 0,
                            kind: "undefined-symbol".into(),
                            detail: format!("{} in ROM table", s),
                        });
                        0
                    }
                },
            };
        }
    }
    for (fi, f) in input.funcs.iter().enumerate() {
        out.func_ranges.push((f.name.clone(), func_start[fi] as u16, func_end[fi] as u16, f.in_image));
    }
    out
}

fn push_instr(
    items: &mut Vec<PItem>,
    out: &mut AsmOutput,
    fi: usize,
    lineno: usize,
    line: &str,
    code: &str,
    marker: Option<String>,
    fname: &str,
) {
    let mut parts = code.splitn(2, |c: char| c == ' ' || c == '\t');
    let mn = parts.next().unwrap().to_ascii_uppercase();
    let operand = parts.next().unwrap_or("").trim().to_string();
    if mn == "NOPS" || mn == ".NOPS" {
        // harness pseudo-op for inline assembly of a chosen size: `NOPS n` is n NOP instructions
        if let Ok(n) = operand.parse::<usize>() {
            for _k in 0..n.min(4096) {
                items.push(PItem::Instr(PInstr {
                    func: fi,
                    lineno,
                    text: line.to_string(),
                    mnemonic: "NOP".into(),
                    shape: OperandShape::None,
                    operand: String::new(),
                    marker: marker.clone(),
                    addr: 0,
                    mode: None,
                }));
            }
            return;
        }
    }
    if !is_mnemonic(&mn) {
        out.errors.push(AsmError {
            func: fname.to_string(),
            lineno,
            kind: "unknown-mnemonic".into(),
            detail: format!("[{}]", line.trim()),
        });
        return;
    }
    let shape = parse_operand(&operand);
    items.push(PItem::Instr(PInstr {
        func: fi,
        lineno,
        text: line.to_string(),
        mnemonic: mn,
        shape,
        operand,
        marker,
        addr: 0,
        mode: None,
    }));
}

fn has(mn: &str, m: Mode) -> bool {
    lookup(mn, m).is_some()
}

/// DASM's mode selection: zero-page form iff the operand value is known and < $100 and the
/// mnemonic has that form; otherwise absolute.  Unknown (forward/code) symbols are 16-bit.
fn choose_mode(
    mn: &str,
    shape: &OperandShape,
    known: &dyn Fn(&str) -> Option<i64>,
) -> Result<Mode, (String, String)> {
    let ill = |what: &str| ("illegal-mode".to_string(), format!("{} has no {} form", mn, what));
    let small = |e: &str| -> Result<bool, (String, String)> {
        match eval_expr(e, known) {
            Ok((v, unknown)) => Ok(unknown.is_empty() && (0..0x100).contains(&v)),
            Err(e) => Err(("syntax".to_string(), e)),
        }
    };
    match shape {
        OperandShape::None => {
            if has(mn, Mode::Imp) {
                Ok(Mode::Imp)
            } else if has(mn, Mode::Acc) {
                Ok(Mode::Acc)
            } else {
                Err(ill("implied"))
            }
        }
        OperandShape::Acc => {
            if has(mn, Mode::Acc) {
                Ok(Mode::Acc)
            } else {
                Err(ill("accumulator"))
            }
        }
        OperandShape::Imm(_) => {
            if has(mn, Mode::Imm) {
                Ok(Mode::Imm)
            } else {
                Err(ill("immediate"))
            }
        }
        OperandShape::IndY(_) => {
            if has(mn, Mode::IndY) {
                Ok(Mode::IndY)
            } else {
                Err(ill("(zp),Y"))
            }
        }
        OperandShape::IndX(_) => {
            if has(mn, Mode::IndX) {
                Ok(Mode::IndX)
            } else {
                Err(ill("(zp,X)"))
            }
        }
        OperandShape::Ind(e) => {
            if mn == "JMP" {
                Ok(Mode::Ind)
            } else {
                // parenthesised plain expression
                choose_mode(mn, &OperandShape::Plain(format!("({})", e)), known)
            }
        }
        OperandShape::X(e) => {
            let s = small(e)?;
            if s && has(mn, Mode::ZpX) {
                Ok(Mode::ZpX)
            } else if has(mn, Mode::AbsX) {
                Ok(Mode::AbsX)
            } else if has(mn, Mode::ZpX) {
                Err(("illegal-mode".into(), format!("{} abs,X does not exist (operand not in zero page)", mn)))
            } else {
                Err(ill(",X"))
            }
        }
        OperandShape::Y(e) => {
            let s = small(e)?;
            if s && has(mn, Mode::ZpY) {
                Ok(Mode::ZpY)
            } else if has(mn, Mode::AbsY) {
                Ok(Mode::AbsY)
            } else if has(mn, Mode::ZpY) {
                Err(("illegal-mode".into(), format!("{} abs,Y does not exist (operand not in zero page)", mn)))
            } else {
                Err(ill(",Y"))
            }
        }
        OperandShape::Plain(e) => {
            if is_branch(mn) {
                return Ok(Mode::Rel);
            }
            let s = small(e)?;
            if s && has(mn, Mode::Zp) {
                Ok(Mode::Zp)
            } else if has(mn, Mode::Abs) {
                Ok(Mode::Abs)
            } else {
                Err(ill("address"))
            }
        }
    }
}

#[cfg(test)]
mod tests {
    use super::*;
    #[test]
    fn table_is_consistent() {
        let mut seen = std::collections::BTreeSet::new();
        for o in OPCODES {
            assert!(seen.insert(o.2), "duplicate opcode {:02x}", o.2);
        }
        assert_eq!(OPCODES.len(), 151);
    }
    #[test]
    fn expr() {
        let r = |s: &str| -> Option<i64> {
            if s == "v" {
                Some(0x1234)
            } else {
                None
            }
        };
        assert_eq!(eval_expr("<(v+1)", &r).unwrap().0, 0x35);
        assert_eq!(eval_expr(">v", &r).unwrap().0, 0x12);
        assert_eq!(eval_expr("v+-3", &r).unwrap().0, 0x1231);
        assert_eq!(eval_expr("$10+2", &r).unwrap().0, 18);
    }
}
