// C03: conditional branches always reach; long-branch repair preserves control flow.
// Monitor A (API level): AssemblyCode is built through its public API from a generator that
// knows true encodings; after check_branches() the text is assembled with real encodings
// (range check) and co-executed against the *unrepaired* code (run in a virtual wide-branch
// encoding) from all N/Z/C flag combinations: the block-visit traces must be equal.
// Monitor B (source level): programs whose bodies are padded to 110..140 bytes and beyond are
// compiled and range-checked with real encodings.

use crate::asm6502::*;
use crate::cmodel::*;
use crate::common::*;
use crate::driver::*;
use crate::emu6502::*;
use crate::framework::*;
use crate::util::Rng;
use cc6502::assemble::{AsmInstruction, AsmMnemonic, AssemblyCode};
use serde_json::json;
use std::collections::BTreeMap;

pub struct C03;

#[derive(Clone, Debug)]
enum Item {
    Label(String),
    Ins(AsmMnemonic, String, u32), // mnemonic, operand, true bytes
    Inline(String, Option<u32>),   // text (true size computed by the assembler), declared size
}

fn mn_name(m: AsmMnemonic) -> String {
    format!("{:?}", m)
}

fn ins(code: &mut AssemblyCode, m: AsmMnemonic, operand: &str, bytes: u32) {
    let (cycles, alt) = match m {
        AsmMnemonic::BEQ | AsmMnemonic::BNE | AsmMnemonic::BCC | AsmMnemonic::BCS | AsmMnemonic::BMI | AsmMnemonic::BPL => (2, Some(3)),
        AsmMnemonic::JMP => (3, None),
        _ => (2, None),
    };
    code.append_asm(AsmInstruction {
        mnemonic: m,
        dasm_operand: operand.to_string(),
        cycles,
        cycles_alt: alt,
        nb_bytes: bytes,
        protected: false,
    });
}

fn build_code(items: &[Item]) -> AssemblyCode {
    let mut c = AssemblyCode::new();
    for it in items {
        match it {
            Item::Label(l) => c.append_label(l.clone()),
            Item::Ins(m, o, b) => ins(&mut c, *m, o, *b),
            Item::Inline(t, d) => c.append_inline(t.clone(), *d),
        }
    }
    c
}

fn render(items: &[Item]) -> String {
    // the text of the unrepaired code, in the same dialect
    let mut s = String::new();
    for it in items {
        match it {
            Item::Label(l) => s.push_str(&format!("{}\n", l)),
            Item::Ins(m, o, _) => {
                if o.is_empty() {
                    s.push_str(&format!("\t{}\n", mn_name(*m)))
                } else {
                    s.push_str(&format!("\t{} {}\n", mn_name(*m), o))
                }
            }
            Item::Inline(t, _) => s.push_str(&format!("\t{}\n", t)),
        }
    }
    s
}

const NCELL: usize = 12;

fn symbols() -> BTreeMap<String, i64> {
    let mut m = BTreeMap::new();
    for i in 0..NCELL {
        m.insert(format!("cnt{}", i), 0x40 + i as i64);
    }
    m.insert("va".into(), 0x90);
    m.insert("vb".into(), 0x91);
    m.insert("far".into(), 0x0300); // an absolute-addressed cell
    m
}

/// filler of exactly `n` bytes.  style 0: flag-neutral stores/NOPs, 1: flag-setting loads and
/// compares, 2: inline lines with explicit and default size hints
fn filler(rng: &mut Rng, n: u32, style: u32, marker: &mut u32) -> Vec<Item> {
    let mut v = Vec::new();
    let mut left = n;
    while left > 0 {
        let pick = rng.below(6);
        match style {
            0 => {
                if left >= 3 && pick == 0 {
                    v.push(Item::Ins(AsmMnemonic::STA, "far".into(), 3));
                    left -= 3;
                } else if left >= 2 && pick < 4 {
                    v.push(Item::Ins(AsmMnemonic::STA, "va".into(), 2));
                    left -= 2;
                } else {
                    v.push(Item::Ins(AsmMnemonic::NOP, "".into(), 1));
                    left -= 1;
                }
            }
            1 => {
                if left >= 3 && pick == 0 {
                    v.push(Item::Ins(AsmMnemonic::LDA, "far".into(), 3));
                    left -= 3;
                } else if left >= 2 && pick < 3 {
                    let k = rng.byte();
                    v.push(Item::Ins(AsmMnemonic::CMP, format!("#{}", k), 2));
                    left -= 2;
                } else if left >= 2 && pick < 5 {
                    v.push(Item::Ins(AsmMnemonic::LDX, "vb".into(), 2));
                    left -= 2;
                } else {
                    v.push(Item::Ins(if rng.chance(1, 2) { AsmMnemonic::SEC } else { AsmMnemonic::CLC }, "".into(), 1));
                    left -= 1;
                }
            }
            _ => {
                *marker += 1;
                if left >= 3 && pick < 2 {
                    // default size hint (3) with a 3-byte instruction
                    v.push(Item::Inline(format!("STA far ;@I{}", marker), None));
                    left -= 3;
                } else if left >= 4 && pick == 2 {
                    // two instructions on two physical lines, declared 4
                    v.push(Item::Inline(format!("STA va ;@I{}\n\tSTX vb ;@I{}", marker, marker), Some(4)));
                    left -= 4;
                } else if left >= 2 && pick < 5 {
                    v.push(Item::Inline(format!("LDA va ;@I{}", marker), Some(2)));
                    left -= 2;
                } else {
                    v.push(Item::Inline(format!("NOP ;@I{}", marker), Some(1)));
                    left -= 1;
                }
            }
        }
    }
    v
}

const KINDS: [&str; 9] = ["BEQ", "BNE", "BCC", "BCS", "BMI", "BPL", "BCC+BEQ", "BMI+BEQ", "BEQ-skip+BCS"];

fn branch_items(kind: &str, target: &str, uid: u32) -> Vec<Item> {
    let b = |m: AsmMnemonic| Item::Ins(m, target.to_string(), 2);
    match kind {
        "BEQ" => vec![b(AsmMnemonic::BEQ)],
        "BNE" => vec![b(AsmMnemonic::BNE)],
        "BCC" => vec![b(AsmMnemonic::BCC)],
        "BCS" => vec![b(AsmMnemonic::BCS)],
        "BMI" => vec![b(AsmMnemonic::BMI)],
        "BPL" => vec![b(AsmMnemonic::BPL)],
        "BCC+BEQ" => vec![b(AsmMnemonic::BCC), b(AsmMnemonic::BEQ)],
        "BMI+BEQ" => vec![b(AsmMnemonic::BMI), b(AsmMnemonic::BEQ)],
        _ => {
            // the generator's "greater than": BEQ .here / BCS target / .here
            let here = format!(".here{}", uid);
            vec![Item::Ins(AsmMnemonic::BEQ, here.clone(), 2), b(AsmMnemonic::BCS), Item::Label(here)]
        }
    }
}

fn bump(i: usize) -> Item {
    Item::Ins(AsmMnemonic::INC, format!("cnt{}", i % NCELL), 2)
}

/// enumerated core: kind x direction x distance x filler style
fn core_case(idx: u64) -> (Vec<Item>, String) {
    let nk = KINDS.len() as u64;
    let dists: Vec<u32> = (116..=138).collect();
    let nd = dists.len() as u64;
    let kind = KINDS[(idx % nk) as usize];
    let dir = (idx / nk) % 2;
    let d = dists[((idx / nk / 2) % nd) as usize];
    let style = ((idx / nk / 2 / nd) % 3) as u32;
    let mut rng = Rng::for_case("C03core", idx);
    let mut marker = 0;
    let mut v = Vec::new();
    let desc = format!("core kind={} dir={} distance={} style={}", kind, if dir == 0 { "fwd" } else { "back" }, d, style);
    if dir == 0 {
        // .b0: bump, flag setter, branch -> .b2 ; .b1: d bytes ; .b2
        v.push(Item::Label(".b0".into()));
        v.push(bump(0));
        v.push(Item::Ins(AsmMnemonic::LDA, "va".into(), 2));
        v.push(Item::Ins(AsmMnemonic::CMP, "vb".into(), 2));
        v.extend(branch_items(kind, ".b2", 1));
        v.push(Item::Label(".b1".into()));
        v.push(bump(1));
        v.extend(filler(&mut rng, d - 2, style, &mut marker));
        v.push(Item::Label(".b2".into()));
        v.push(bump(2));
    } else {
        // .b1: bump, filler, flag setter, branch -> .b1 (backward), total d bytes label..branch end
        v.push(Item::Label(".b0".into()));
        v.push(bump(0));
        v.push(Item::Label(".b1".into()));
        v.push(bump(1));
        let bl: u32 = branch_items(kind, ".b1", 1).iter().map(|i| if let Item::Ins(_, _, b) = i { *b } else { 0 }).sum();
        let fixed = 2 + 2 + 2 + bl; // bump + LDA + CMP + branch(es)
        v.extend(filler(&mut rng, d.saturating_sub(fixed), style, &mut marker));
        v.push(Item::Ins(AsmMnemonic::LDA, "cnt1".into(), 2));
        v.push(Item::Ins(AsmMnemonic::CMP, "vb".into(), 2));
        v.extend(branch_items(kind, ".b1", 1));
        v.push(Item::Label(".b2".into()));
        v.push(bump(2));
    }
    (v, desc)
}

pub fn core_len() -> u64 {
    KINDS.len() as u64 * 2 * 23 * 3
}

/// random layouts: several blocks, several far branches, cascades
fn random_case(idx: u64) -> (Vec<Item>, String) {
    let mut rng = Rng::for_case("C03rand", idx);
    let nb = rng.range(3, 8) as usize;
    let mut marker = 0;
    let mut uid = 0;
    let mut v = Vec::new();
    // sizes chosen so that label-to-label distances hover around the limit
    for i in 0..nb {
        v.push(Item::Label(format!(".b{}", i)));
        v.push(bump(i));
        let size = match rng.below(5) {
            0 => rng.range(0, 12) as u32,
            1 => rng.range(50, 70) as u32,
            _ => rng.range(105, 135) as u32,
        };
        let style = rng.below(3) as u32;
        v.extend(filler(&mut rng, size, style, &mut marker));
        // flag setter
        match rng.below(4) {
            0 => v.push(Item::Ins(AsmMnemonic::LDA, format!("cnt{}", i % NCELL), 2)),
            1 => {
                v.push(Item::Ins(AsmMnemonic::LDA, format!("cnt{}", i % NCELL), 2));
                v.push(Item::Ins(AsmMnemonic::CMP, "#3".into(), 2));
            }
            2 => v.push(Item::Ins(AsmMnemonic::CPX, "va".into(), 2)),
            _ => {}
        }
        // 1..3 terminators
        let nt = rng.range(1, 3);
        for _ in 0..nt {
            let kind = *rng.pick(&KINDS);
            let tgt = rng.below(nb as u64);
            uid += 1;
            v.extend(branch_items(kind, &format!(".b{}", tgt), uid));
        }
        if rng.chance(1, 6) {
            let tgt = rng.below(nb as u64);
            v.push(Item::Ins(AsmMnemonic::JMP, format!(".b{}", tgt), 3));
        }
    }
    (v, format!("random blocks={}", nb))
}

fn assemble_fn(text: &str, wide: bool) -> AsmOutput {
    let input = AsmInput {
        symbols: symbols(),
        funcs: vec![AsmFunc { name: "main".into(), text: text.to_string(), in_image: true, append_rts: true }],
        rom: vec![],
        org: 0xF000,
        wide_rel: wide,
    };
    assemble(&input)
}

fn trace(out: &AsmOutput, wide: bool, flags: u8, a: u8, x: u8, va: u8, vb: u8, max_events: usize) -> (Vec<u16>, String) {
    let mut m = Machine::new();
    m.load(out.org, &out.image);
    m.code_start = out.org;
    m.code_end = out.org as u32 + out.image.len() as u32;
    m.halt_addr = out.halt_addr;
    m.wide_rel = wide;
    m.watch.push((0x40, 0x40 + NCELL as u16));
    m.max_events = max_events * 2; // INC logs a read and a write
    m.a = a;
    m.x = x;
    m.mem[0x90] = va;
    m.mem[0x91] = vb;
    m.mem[0x300] = va ^ 0x5a;
    m.p = 0x24 | (flags & 0xC3);
    // run until the event budget is reached
    m.pc = out.entry_stub;
    let mut stop = "events".to_string();
    for _ in 0..200_000 {
        if m.pc == m.halt_addr {
            stop = "halt".into();
            break;
        }
        if m.events.len() >= max_events * 2 {
            break;
        }
        if let Err(e) = m.step() {
            stop = format!("fault: {}", e);
            break;
        }
    }
    let visits: Vec<u16> = m.events.iter().filter(|e| e.kind == AccKind::RmwWrite).map(|e| e.addr).take(max_events).collect();
    (visits, stop)
}

fn run_api_case(kind: &str, idx: u64, items: Vec<Item>, desc: String) -> CaseResult {
    let original = render(&items);
    let mut res = CaseResult::new("checked", crate::util::hash_str(&original));
    let mut code = build_code(&items);
    let size_before = code.size_bytes();
    let nfix = code.check_branches();
    let size_after = code.size_bytes();
    let mut buf: Vec<u8> = Vec::new();
    let _ = code.write(&mut buf, false);
    let repaired = String::from_utf8_lossy(&buf).to_string();
    let sig = format!("C03:{}:{}", kind, idx);
    let viol = |res: &mut CaseResult, why: String| {
        res.violate(
            &sig,
            &format!("C03 {}: {}\n--- original\n{}--- after check_branches ({} fixes)\n{}", desc, why, original, nfix, repaired),
            json!({"kind": kind, "idx": idx, "why": why, "original": original, "repaired": repaired}),
        );
    };
    // (1) range check with real encodings; labels
    let out = assemble_fn(&repaired, false);
    if let Some(e) = out.errors.first() {
        viol(&mut res, format!("repaired code does not assemble: {} {}", e.kind, e.detail));
        res.class = "violated".into();
        return res;
    }
    // true size vs reported size (inline lines at declared size)
    let mut true_size = 0u32;
    let mut seen_markers = std::collections::BTreeSet::new();
    for l in &out.lines {
        if l.kind != LineKind::Instr {
            continue;
        }
        match &l.marker {
            Some(m) if m == "@RTS" => {}
            Some(m) => {
                seen_markers.insert(m.clone());
            }
            None => true_size += l.len as u32,
        }
    }
    let declared: u32 = items
        .iter()
        .map(|i| if let Item::Inline(_, d) = i { d.unwrap_or(3) } else { 0 })
        .sum();
    if true_size + declared != size_after {
        viol(&mut res, format!("size_bytes() = {} but the encoded size is {} (+{} declared inline)", size_after, true_size, declared));
        return res;
    }
    let _ = size_before;
    // (2) evidence: distances and repairs per kind and direction
    res.count("repairs applied", nfix as u64);
    let mut far_unrepaired_max_fwd = 0i64;
    let mut far_unrepaired_max_back = 0i64;
    for l in &out.lines {
        if l.kind == LineKind::Instr && is_branch(&l.mnemonic) {
            if let Some(t) = l.target {
                let disp = t as i64 - (l.addr as i64 + 2);
                if disp >= 0 {
                    far_unrepaired_max_fwd = far_unrepaired_max_fwd.max(disp);
                } else {
                    far_unrepaired_max_back = far_unrepaired_max_back.max(-disp);
                }
            }
        }
    }
    res.set("largest forward displacement left in place", &format!("{:03}", far_unrepaired_max_fwd));
    res.set("largest backward displacement left in place", &format!("{:03}", far_unrepaired_max_back));
    if nfix > 0 {
        res.nontrivial = true;
        res.set("repaired cases", &desc.split(" distance").next().unwrap_or("").to_string());
        if nfix > 1 {
            res.count("cases with several repairs (cascades)", 1);
        }
        for l in repaired.lines() {
            if l.starts_with(".fixup") {
                res.count("two-instruction (<=) repairs", 1);
            }
        }
    }
    // (3) trace equivalence against the unrepaired code in the virtual wide-branch encoding
    let orig = assemble_fn(&original, true);
    if let Some(e) = orig.errors.first() {
        res.class = format!("harness: original does not assemble in wide mode: {} {}", e.kind, e.detail);
        return res;
    }
    let mut rng = Rng::for_case("C03vec", idx);
    for flags in [0x00u8, 0x01, 0x02, 0x03, 0x80, 0x81, 0x82, 0x83] {
        for _ in 0..4 {
            let (a, x, va, vb) = (rng.bbyte(), rng.bbyte(), rng.bbyte(), rng.bbyte());
            let (t0, s0) = trace(&orig, true, flags, a, x, va, vb, 120);
            let (t1, s1) = trace(&out, false, flags, a, x, va, vb, 120);
            res.count("comparisons", 1);
            if t0 != t1 || s0 != s1 {
                let k = t0.iter().zip(t1.iter()).take_while(|(a, b)| a == b).count();
                viol(
                    &mut res,
                    format!(
                        "block-visit trace differs at visit {} (flags N/Z/C={:02x} A={:02x} X={:02x} va={:02x} vb={:02x}): original {:?}.. {} / repaired {:?}.. {}",
                        k,
                        flags,
                        a,
                        x,
                        va,
                        vb,
                        &t0[k.saturating_sub(2)..(k + 3).min(t0.len())],
                        s0,
                        &t1[k.saturating_sub(2)..(k + 3).min(t1.len())],
                        s1
                    ),
                );
                res.class = "violated".into();
                return res;
            }
            res.count("block visits compared", t0.len() as u64);
        }
    }
    res.class = if nfix > 0 { "repaired, in range, trace-equivalent".into() } else { "no repair needed, in range".into() };
    if idx % 211 == 0 {
        res.sample = Some(json!({"kind": kind, "idx": idx, "desc": desc, "fixes": nfix, "repaired": repaired}));
    }
    res
}

// ------------------------------------------------------------------ monitor B (source level)

pub fn padded_program(idx: u64) -> Program {
    use crate::matrix::*;
    let mut rng = Rng::for_case("C03pad", idx);
    let mut p = base();
    let lvv = |v: VarId| Expr::Lv(LV::Var(v));
    let assign = |l: LV, e: Expr| Stmt::Expr(Expr::Assign(l, Box::new(e)));
    let mut asm_n = 0;
    let mut pad = |rng: &mut Rng, bytes: i64| -> Vec<Stmt> {
        // statements with known sizes: `r = k` 4 bytes (LDA # / STA zp), `X++` 1 byte, `a++` 2 bytes
        let mut v = Vec::new();
        let mut left = bytes;
        while left > 0 {
            if left >= 4 && rng.chance(3, 5) {
                v.push(Stmt::Expr(Expr::Assign(LV::Var(R), Box::new(Expr::Num(rng.byte() as i32 | 1)))));
                left -= 4;
            } else if left >= 2 && rng.chance(1, 2) {
                v.push(Stmt::Expr(Expr::IncDec { lv: LV::Var(C), post: true, inc: true }));
                left -= 2;
            } else if rng.chance(1, 2) {
                v.push(Stmt::Expr(Expr::IncDec { lv: LV::X, post: true, inc: true }));
                left -= 1;
            } else {
                asm_n += 1;
                v.push(Stmt::Asm(format!("NOP ;@I{}", asm_n), Some(1)));
                left -= 1;
            }
        }
        v
    };
    // second padding style: statements of many instruction forms (indexed by X / Y / constant,
    // through a pointer, 16-bit, read-modify-write, from ROM) whose sizes this generator does
    // not know: a size the compiler gets wrong for one form moves the true distance of the
    // enclosing branch away from the distance check_branches() computed
    let mut asm_big = 0;
    let forms = idx % 2 == 1;
    // two hardware registers above the zero page: one only written / strobed, one only read
    let hw_w = p.vars.len();
    p.vars.push(VarDecl { name: "TIM64T".into(), kind: VarKind::HwReg(0x296), mem: MemClass::Zp, scope: Scope::Global });
    let hw_r = p.vars.len();
    p.vars.push(VarDecl { name: "INTIM".into(), kind: VarKind::HwReg(0x284), mem: MemClass::Zp, scope: Scope::Global });
    let mut pad_forms = |rng: &mut Rng, bytes: i64| -> Vec<Stmt> {
        let mut v = Vec::new();
        let n = (bytes / 5).max(4);
        let idx8 = |rng: &mut Rng| match rng.below(3) {
            0 => Expr::Lv(LV::X),
            1 => Expr::Lv(LV::Y),
            _ => Expr::Num(rng.below(8) as i32),
        };
        v.push(Stmt::Expr(Expr::Assign(LV::X, Box::new(Expr::Num(rng.below(8) as i32)))));
        v.push(Stmt::Expr(Expr::Assign(LV::Y, Box::new(Expr::Num(rng.below(8) as i32)))));
        for _ in 0..n {
            let i = idx8(rng);
            if rng.chance(1, 6) {
                // hardware registers above $ff: absolute addressing, 3 bytes per access
                v.push(match rng.below(3) {
                    0 => Stmt::Expr(Expr::Assign(LV::Deref(hw_w), Box::new(lvv(A)))),
                    1 => Stmt::Expr(Expr::Assign(LV::Var(R), Box::new(Expr::Lv(LV::Deref(hw_r))))),
                    _ => Stmt::Strobe(hw_w),
                });
                continue;
            }
            let st = match rng.below(12) {
                0 => Expr::Assign(LV::Idx(ARR, Box::new(i)), Box::new(lvv(A))),
                1 => Expr::Assign(LV::Var(R), Box::new(Expr::Lv(LV::Idx(ARR, Box::new(i))))),
                2 => Expr::Assign(LV::Var(R), Box::new(Expr::Lv(LV::Idx(TAB, Box::new(i))))),
                3 => Expr::Assign(LV::Var(R), Box::new(Expr::Lv(LV::PtrIdx(P, Box::new(Expr::Lv(LV::Y)))))),
                4 => Expr::Assign(LV::PtrIdx(P, Box::new(Expr::Lv(LV::Y))), Box::new(lvv(BV))),
                5 => Expr::Assign(LV::Var(S), Box::new(Expr::Bin(BinOp::Add, Box::new(lvv(T)), Box::new(lvv(U))))),
                6 => Expr::IncDec { lv: LV::Idx(ARR, Box::new(Expr::Lv(LV::X))), post: true, inc: rng.chance(1, 2) },
                7 => Expr::OpAssign(*rng.pick(&[BinOp::Add, BinOp::And, BinOp::Or, BinOp::Xor]), LV::Var(R), Box::new(Expr::Lv(LV::Idx(ARR, Box::new(i))))),
                8 => Expr::OpAssign(if rng.chance(1, 2) { BinOp::Shl } else { BinOp::Shr }, LV::Var(S), Box::new(Expr::Num(1))),
                9 => Expr::IncDec { lv: LV::Var(S), post: true, inc: true },
                10 => Expr::Assign(LV::Var(V), Box::new(lvv(SA))),
                _ => Expr::Assign(LV::Var(R), Box::new(Expr::Bin(BinOp::Sub, Box::new(lvv(A)), Box::new(Expr::Lv(LV::Idx(ARR, Box::new(i))))))),
            };
            v.push(Stmt::Expr(st));
        }
        v
    };
    // third style: expansions of an inline function with an if / else (15 bytes each, containing
    // a JMP), and one inline asm block with a large declared size now and then
    let inl_style = idx % 3 == 2;
    let mut pad = |rng: &mut Rng, bytes: i64| -> Vec<Stmt> {
        if inl_style && bytes >= 60 {
            let mut v = Vec::new();
            let mut left = bytes;
            if rng.chance(1, 4) {
                let n = *rng.pick(&[130i64, 200, 255, 256, 260, 300]);
                asm_big += 1;
                v.push(Stmt::Asm(format!("NOPS {} ;@I{}", n, 900 + asm_big), Some(n as u32)));
                return v;
            }
            if rng.chance(1, 3) {
                // expansions of an inline function that holds an asm block of declared size 6
                while left >= 6 {
                    v.push(Stmt::Expr(Expr::Call(1, vec![])));
                    left -= 6;
                }
                v.extend(pad(rng, left));
                return v;
            }
            if rng.chance(1, 4) {
                // asm lines whose text starts with a dot, one byte each
                while left >= 1 {
                    asm_big += 1;
                    v.push(Stmt::Asm(format!(".NOPS 1 ;@I{}", 2000 + asm_big), Some(1)));
                    left -= 1;
                }
                return v;
            }
            while left >= 15 {
                v.push(Stmt::Expr(Expr::Call(0, vec![])));
                left -= 15;
            }
            v.extend(pad(rng, left));
            v
        } else if forms && bytes >= 60 {
            pad_forms(rng, bytes)
        } else {
            pad(rng, bytes)
        }
    };
    let mut body = vec![assign(LV::Var(P), Expr::AddrOf(ARR))];
    let n = rng.range(1, 3);
    for _ in 0..n {
        let bytes = match rng.below(4) {
            0 => rng.range(100, 118),
            1 => rng.range(118, 136),
            2 => rng.range(136, 160),
            _ => rng.range(250, 300),
        };
        let op = *rng.pick(&[BinOp::Eq, BinOp::Ne, BinOp::Lt, BinOp::Le, BinOp::Gt, BinOp::Ge]);
        let cond = Expr::Bin(op, Box::new(lvv(A)), Box::new(lvv(BV)));
        let then = Stmt::Block(pad(&mut rng, bytes));
        match rng.below(5) {
            0 => body.push(Stmt::If(cond, Box::new(then), None)),
            1 => {
                let eb = rng.range(1, 140);
                let els = Stmt::Block(pad(&mut rng, eb));
                body.push(Stmt::If(cond, Box::new(then), Some(Box::new(els))))
            }
            2 => {
                // counted loop with a long body: backward branch
                let mut b = pad(&mut rng, bytes);
                b.push(Stmt::Expr(Expr::IncDec { lv: LV::Var(N), post: true, inc: true }));
                body.push(Stmt::For(
                    Some(Expr::Assign(LV::Var(N), Box::new(Expr::Num(0)))),
                    Some(Expr::Bin(BinOp::Lt, Box::new(lvv(N)), Box::new(Expr::Num(2)))),
                    None,
                    Box::new(Stmt::Block(b)),
                ))
            }
            3 => {
                let mut b = pad(&mut rng, bytes);
                b.push(Stmt::Expr(Expr::IncDec { lv: LV::Var(N), post: true, inc: true }));
                body.push(assign(LV::Var(N), Expr::Num(0)));
                body.push(Stmt::DoWhile(
                    Box::new(Stmt::Block(b)),
                    Expr::Bin(op, Box::new(lvv(N)), Box::new(Expr::Num(2))),
                ));
                if !matches!(op, BinOp::Lt | BinOp::Le | BinOp::Ne) {
                    // conditions that stay true forever are cut by the emulator budget on both sides; keep loops finite
                    body.pop();
                    body.pop();
                }
            }
            _ => {
                let c2 = Expr::Bin(BinOp::LAnd, Box::new(cond), Box::new(Expr::Bin(BinOp::Ne, Box::new(lvv(C)), Box::new(Expr::Num(9)))));
                body.push(Stmt::If(c2, Box::new(then), None))
            }
        }
    }
    if inl_style {
        // inline void sel() { if (a) c = 1; else c = 2; }  (function 0: what Expr::Call(0, ..) names)
        let sel_body = vec![Stmt::If(lvv(A), Box::new(assign(LV::Var(C), Expr::Num(1))), Some(Box::new(assign(LV::Var(C), Expr::Num(2)))))];
        p.funcs.push(Func { name: "sel".into(), ret: None, params: vec![], body: sel_body, inline: true, interrupt: false, proto_first: false });
        // inline void burn() { asm("NOPS 6", 6); }   (function 1)
        p.funcs.push(Func { name: "burn".into(), ret: None, params: vec![], body: vec![Stmt::Asm("NOPS 6 ;@I1999".into(), Some(6))], inline: true, interrupt: false, proto_first: false });
    }
    p.funcs.push(Func { name: "main".into(), ret: None, params: vec![], body, inline: rng.chance(1, 5) && false, interrupt: false, proto_first: false });
    p
}

fn run_source_case(kind: &str, idx: u64) -> CaseResult {
    let p = padded_program(idx);
    let src = print_program(&p);
    let mut res = CaseResult::new("accepted", crate::util::hash_str(&src));
    for lvl in [0u8, 1] {
        let o = compile_src(&src, &Opts::o(lvl));
        let obs = match &o {
            Outcome::Ok(obs) => obs,
            other => {
                res.class = outcome_class(other);
                return res;
            }
        };
        let b = match crate::layout::build_image(obs, false) {
            Ok(b) => b,
            Err(e) => {
                res.class = format!("layout: {}", e);
                return res;
            }
        };
        let nfix: u32 = obs.funcs.iter().map(|f| f.nb_fix).sum();
        res.count("repairs applied (source level)", nfix as u64);
        if nfix > 0 {
            res.nontrivial = true;
        }
        for e in &b.asm.errors {
            if e.kind == "branch-range" || e.kind == "duplicate-label" || e.kind == "undefined-symbol" {
                res.violate(
                    &format!("C03:{}:{}", kind, idx),
                    &format!("C03 source-level -O{}: {} {}\n--- source\n{}", lvl, e.kind, e.detail, src),
                    json!({"kind": kind, "idx": idx, "opt": lvl, "why": format!("{} {}", e.kind, e.detail), "source": src, "listing": listing(obs)}),
                );
                return res;
            }
        }
        // behaviour of the padded program against the reference (the repaired branches must go the same way)
        for k in 0..4u64 {
            let input = crate::cgen::gen_input(&p, "C03pad", idx, k);
            if let Ok((exp, _, steps)) = reference(&p, &input, 50_000) {
                let rr = crate::exec::run_compiled(&p, &b, &input, cycle_budget(steps), &|_m| {});
                res.count("comparisons", 1);
                let bad = match &rr.stop {
                    Stop::Halt => crate::exec::diff_states(&p, &exp, &rr.state, false),
                    s => Some(stop_str(s)),
                };
                if let Some(w) = bad {
                    res.violate(
                        &format!("C03:{}:{}", kind, idx),
                        &format!("C03 source-level -O{} input #{}: behaviour differs from the reference: {}\n--- source\n{}", lvl, k, w, src),
                        json!({"kind": kind, "idx": idx, "opt": lvl, "why": w, "source": src, "listing": listing(obs)}),
                    );
                    return res;
                }
            }
        }
    }
    res.class = if res.nontrivial { "padded program: repaired, in range, behaves".into() } else { "padded program: no repair needed".into() };
    res
}

impl Monitor for C03 {
    fn id(&self) -> &'static str {
        "C03"
    }
    fn level(&self) -> &'static str {
        "exploration"
    }
    fn rule(&self) -> String {
        "monitor A: AssemblyCode built through append_asm/append_label/append_inline from blocks of filler with known true \
         sizes; enumerated core = every branch kind (BEQ BNE BCC BCS BMI BPL, BCC+BEQ, BMI+BEQ, BEQ-skip+BCS) x forward/backward x \
         label distance 116..138 x 3 filler styles (flag-neutral, flag-setting, inline lines with explicit/default size hints), \
         plus random multi-block layouts with several far branches (cascades). After check_branches(): assembled with real \
         encodings (range, labels, size_bytes) and co-executed against the unrepaired code (virtual wide-branch encoding) from \
         8 N/Z/C combinations x 4 register vectors; block-visit traces must be equal. monitor B: compiled programs with bodies \
         padded to 100..300 bytes, range-checked and run against the reference. Padding styles of the source kind: plain statements, many instruction forms incl. hardware registers, expansions of inline functions (with if / else, with an asm block of declared size 6), asm with large declared sizes, asm lines starting with a dot. non-trivial = at least one repair was applied"
            .into()
    }
    fn assumptions(&self) -> Vec<String> {
        vec![
            "inline assembly declares at least its true size (an under-declared hint is the user's error)".into(),
            "trusted base: asm6502 encodings, emu6502".into(),
        ]
    }
    fn plan(&self, tier: &Tier, seed: u64) -> Vec<Chunk> {
        let mut v = Vec::new();
        let nc = core_len();
        v.extend(split_chunks("core", 0, nc, nc, 100));
        let (nr, ns) = match tier {
            Tier::Quick => (60_000, 8_000),
            Tier::Thorough => (600_000, 60_000),
        };
        v.extend(split_chunks("rand", seed_offset(seed, "C03r", 600_000), nr, 600_000, 400));
        v.extend(split_chunks("src", seed_offset(seed, "C03s", 60_000), ns, 60_000, 100));
        v
    }
    fn run_case(&self, kind: &str, idx: u64) -> CaseResult {
        match kind {
            "core" => {
                let (items, desc) = core_case(idx);
                run_api_case(kind, idx, items, desc)
            }
            "rand" => {
                let (items, desc) = random_case(idx);
                run_api_case(kind, idx, items, desc)
            }
            _ => run_source_case(kind, idx),
        }
    }
    fn thresholds(&self, _tier: &Tier) -> Vec<(String, u64)> {
        vec![
            ("distinct_nontrivial".into(), 500),
            ("two-instruction (<=) repairs".into(), 50),
            ("cases with several repairs (cascades)".into(), 50),
            ("repairs applied (source level)".into(), 50),
            ("set:repaired cases".into(), 18),
        ]
    }
    fn exhaustive(&self, _tier: &Tier) -> bool {
        false
    }
}
