// Glue: run a compiled program (Obs) on the emulator from an input vector expressed in terms
// of the source program's variables, and read the final state back.

use crate::cmodel::*;
use crate::driver::{Obs, VT};
use crate::emu6502::{Machine, Stop};
use crate::layout::{build_image, new_machine, peek, poke, Built, RamVar};
use crate::util::fnv;

pub struct RunResult {
    pub stop: Stop,
    pub state: State,
    pub cycles: u64,
    pub machine: Machine,
}

fn find<'a>(b: &'a Built, name: &str) -> Option<&'a RamVar> {
    b.layout.ram.iter().find(|v| v.name == name)
}

pub fn set_initial(p: &Program, b: &Built, m: &mut Machine, input: &State) {
    // deterministic garbage everywhere in RAM the program may see, then the input values
    let mut h = fnv(format!("{:?}{:?}{:?}", input.vals, input.x, input.y).as_bytes());
    for a in 0x80..0x100usize {
        h = h.wrapping_mul(6364136223846793005).wrapping_add(1442695040888963407);
        m.mem[a] = (h >> 33) as u8;
    }
    for s in m.split.iter_mut() {
        for c in s.store.iter_mut() {
            h = h.wrapping_mul(6364136223846793005).wrapping_add(1442695040888963407);
            *c = (h >> 33) as u8;
        }
    }
    h = h.wrapping_mul(6364136223846793005).wrapping_add(1442695040888963407);
    m.a = (h >> 33) as u8;
    m.p = 0x24 | ((h >> 41) as u8 & 0xC3); // random N V Z C; D clear, I set
    m.x = (input.x & 0xff) as u8;
    m.y = (input.y & 0xff) as u8;
    for (i, v) in p.vars.iter().enumerate() {
        if v.scope != Scope::Global {
            continue;
        }
        if let VarKind::HwReg(a) = v.kind {
            // what a read of the register returns until something writes it
            m.mem[a as usize] = (input.vals[i][0] & 0xff) as u8;
            continue;
        }
        let rv = match find(b, &v.name) {
            Some(r) => r.clone(),
            None => continue,
        };
        match &v.kind {
            VarKind::Scalar(t) => {
                let val = input.vals[i][0];
                poke(m, b, &rv, 0, (val & 0xff) as u8);
                if t.bits() == 16 {
                    poke(m, b, &rv, 1, ((val >> 8) & 0xff) as u8);
                }
            }
            VarKind::Array(t, n) => {
                for k in 0..*n {
                    let val = input.vals[i][k];
                    poke(m, b, &rv, k as u16, (val & 0xff) as u8);
                    if t.bits() == 16 {
                        poke(m, b, &rv, (*n + k) as u16, ((val >> 8) & 0xff) as u8);
                    }
                }
            }
            _ => {}
        }
    }
}

pub fn read_final(p: &Program, b: &Built, m: &Machine, template: &State) -> State {
    let mut st = template.clone();
    st.x = m.x as i64;
    st.y = m.y as i64;
    for (i, v) in p.vars.iter().enumerate() {
        if v.scope != Scope::Global {
            continue;
        }
        let rv = match find(b, &v.name) {
            Some(r) => r,
            None => continue,
        };
        match &v.kind {
            VarKind::Scalar(t) => {
                let mut val = peek(m, b, rv, 0) as i64;
                if t.bits() == 16 {
                    val |= (peek(m, b, rv, 1) as i64) << 8;
                }
                st.vals[i][0] = t.wrap(val);
            }
            VarKind::Array(t, n) => {
                for k in 0..*n {
                    let mut val = peek(m, b, rv, k as u16) as i64;
                    if t.bits() == 16 {
                        val |= (peek(m, b, rv, (*n + k) as u16) as i64) << 8;
                    }
                    st.vals[i][k] = t.wrap(val);
                }
            }
            _ => {}
        }
    }
    st
}

pub fn run_compiled(
    p: &Program,
    b: &Built,
    input: &State,
    budget: u64,
    setup: &dyn Fn(&mut Machine),
) -> RunResult {
    let mut m = new_machine(b);
    set_initial(p, b, &mut m, input);
    setup(&mut m);
    let stop = m.run(b.asm.entry_stub, budget);
    let state = read_final(p, b, &m, input);
    RunResult { stop, state, cycles: m.cycles, machine: m }
}

/// first difference between two states, restricted to global variables, X and Y
pub fn diff_states(p: &Program, a: &State, b: &State, check_xy: bool) -> Option<String> {
    for (i, v) in p.vars.iter().enumerate() {
        if v.scope != Scope::Global || v.name == "sink" {
            continue;
        }
        match &v.kind {
            VarKind::Scalar(_) | VarKind::Array(..) => {
                if a.vals[i] != b.vals[i] {
                    return Some(format!("{}: {:?} vs {:?}", v.name, a.vals[i], b.vals[i]));
                }
            }
            _ => {}
        }
    }
    if check_xy {
        if a.x != b.x {
            return Some(format!("X: {} vs {}", a.x, b.x));
        }
        if a.y != b.y {
            return Some(format!("Y: {} vs {}", a.y, b.y));
        }
    }
    None
}

pub fn state_brief(p: &Program, s: &State) -> String {
    let mut v = Vec::new();
    for (i, d) in p.vars.iter().enumerate() {
        if d.scope == Scope::Global {
            if let VarKind::Scalar(_) | VarKind::Array(..) = d.kind {
                v.push(format!("{}={:?}", d.name, s.vals[i]));
            }
        }
    }
    v.push(format!("X={} Y={}", s.x, s.y));
    v.join(" ")
}

pub fn build(obs: &Obs) -> Result<Built, String> {
    build_image(obs, false)
}

#[allow(dead_code)]
pub fn vt_name(v: &VT) -> &'static str {
    match v {
        VT::Char => "char",
        VT::Short => "short",
        VT::CharPtr => "char*",
        VT::CharPtrPtr => "char**",
        VT::ShortPtr => "short*",
    }
}
