// C15: equivalent source forms behave identically.
// Metamorphic co-execution: a generated program is rewritten at one site by one of the
// meaning-preserving transformations the property lists; both spellings are compiled by the real
// compile(), assembled, and run on the emulator from the same input states; their final states
// (global variables, X, Y) must be equal.  The reference interpreter runs both spellings first:
// a vector is judged only when both references are defined and agree (this guards the rewriter
// itself).  Both spellings stay inside the domain C01 judges (the rewrites are restricted where
// the other spelling would enter a family recorded as a C01 known finding; those restrictions
// are pinned as C15 witnesses of their own).

use crate::cgen::*;
use crate::cmodel::*;
use crate::common::*;
use crate::driver::*;
use crate::emu6502::Stop;
use crate::exec::*;
use crate::framework::*;
use crate::pins;
use crate::util::Rng;
use serde_json::json;

pub struct C15;

#[derive(Clone, Copy, Debug, PartialEq, Eq)]
pub enum RK {
    Commute,
    OpToAssign,
    AssignToOp,
    IncToAdd,
    AddToInc,
    IfSwap,
    RelMirror,
    ForToWhile,
    WhileToFor,
    SwitchToIf,
    RegIndex,
    CallInline,
}

pub const KINDS: [RK; 11] = [
    RK::Commute,
    RK::OpToAssign,
    RK::AssignToOp,
    RK::IncToAdd,
    RK::IfSwap,
    RK::RelMirror,
    RK::ForToWhile,
    RK::WhileToFor,
    RK::SwitchToIf,
    RK::RegIndex,
    RK::CallInline,
];

impl RK {
    pub fn name(self) -> &'static str {
        match self {
            RK::Commute => "commute + & | ^",
            RK::OpToAssign => "x op= e -> x = x op e",
            RK::AssignToOp => "x = x op e -> x op= e",
            RK::IncToAdd => "++x -> x += 1",
            RK::AddToInc => "x += 1 -> ++x",
            RK::IfSwap => "if (c) A else B -> if (!c) B else A",
            RK::RelMirror => "a < b -> b > a",
            RK::ForToWhile => "for -> while",
            RK::WhileToFor => "while -> for",
            RK::SwitchToIf => "switch -> if chain",
            RK::RegIndex => "arr[k] -> arr[R] with R == k",
            RK::CallInline => "call -> body in place",
        }
    }
}

// ------------------------------------------------------------------ helpers on the AST

fn strip(e: &Expr) -> &Expr {
    match e {
        Expr::Paren(a) => strip(a),
        o => o,
    }
}

fn pure(e: &Expr) -> bool {
    match e {
        Expr::Num(_) | Expr::Hex(_) | Expr::AddrOf(_) | Expr::Sizeof(_) => true,
        Expr::Lv(l) => pure_lv(l),
        Expr::Un(_, a) | Expr::Paren(a) => pure(a),
        Expr::Bin(_, a, b) => pure(a) && pure(b),
        Expr::Cond(a, b, c) => pure(a) && pure(b) && pure(c),
        Expr::Assign(..) | Expr::OpAssign(..) | Expr::IncDec { .. } | Expr::Call(..) | Expr::Comma(..) => false,
    }
}

/// `r` is a ++ / -- of a plain variable that `l` does not mention: `l op= r` and `l = l op r`
/// still mean the same
fn side_effect_apart(r: &Expr, l: &LV) -> bool {
    match strip(r) {
        Expr::IncDec { lv: LV::Var(v), .. } => match l {
            LV::Var(w) => v != w,
            _ => false,
        },
        _ => false,
    }
}

fn pure_lv(l: &LV) -> bool {
    match l {
        LV::Idx(_, i) | LV::PtrIdx(_, i) => pure(i),
        _ => true,
    }
}

/// width class: Some(true) 16-bit, Some(false) 8-bit, None constant
fn wide(p: &Program, e: &Expr) -> Option<bool> {
    match e {
        Expr::Num(_) | Expr::Hex(_) | Expr::Sizeof(_) => None,
        Expr::AddrOf(_) => Some(true),
        Expr::Lv(l) => match l {
            LV::Var(v) => match &p.vars[*v].kind {
                VarKind::Scalar(t) => Some(t.bits() == 16),
                VarKind::ConstVal(..) => None,
                VarKind::Ptr => Some(true),
                _ => Some(false),
            },
            LV::Idx(v, _) => match &p.vars[*v].kind {
                VarKind::Array(t, _) | VarKind::ConstTab(t, _) => Some(t.bits() == 16),
                _ => Some(false),
            },
            _ => Some(false),
        },
        Expr::Un(_, a) | Expr::Paren(a) => wide(p, a),
        Expr::Bin(op, a, b) => {
            if op.is_cmp() || op.is_logic() {
                Some(false)
            } else {
                match (wide(p, a), wide(p, b)) {
                    (Some(true), _) | (_, Some(true)) => Some(true),
                    (None, None) => None,
                    _ => Some(false),
                }
            }
        }
        Expr::Cond(_, a, b) => match (wide(p, a), wide(p, b)) {
            (Some(true), _) | (_, Some(true)) => Some(true),
            (None, None) => None,
            _ => Some(false),
        },
        Expr::Assign(l, _) | Expr::OpAssign(_, l, _) | Expr::IncDec { lv: l, .. } => wide(p, &Expr::Lv(l.clone())),
        Expr::Call(..) => Some(false),
        Expr::Comma(_, b) => wide(p, b),
    }
}

fn same_class(p: &Program, a: &Expr, b: &Expr) -> bool {
    match (wide(p, a), wide(p, b)) {
        (None, _) | (_, None) => true,
        (x, y) => x == y,
    }
}

fn lv_mentions_reg(l: &LV, r: &LV) -> bool {
    if l == r {
        return true;
    }
    match l {
        LV::Idx(_, i) | LV::PtrIdx(_, i) => expr_mentions_reg(i, r),
        _ => false,
    }
}

fn expr_mentions_reg(e: &Expr, r: &LV) -> bool {
    match e {
        Expr::Lv(l) => lv_mentions_reg(l, r),
        Expr::Un(_, a) | Expr::Paren(a) => expr_mentions_reg(a, r),
        Expr::Bin(_, a, b) | Expr::Comma(a, b) => expr_mentions_reg(a, r) || expr_mentions_reg(b, r),
        Expr::Cond(a, b, c) => expr_mentions_reg(a, r) || expr_mentions_reg(b, r) || expr_mentions_reg(c, r),
        Expr::Assign(l, x) | Expr::OpAssign(_, l, x) => lv_mentions_reg(l, r) || expr_mentions_reg(x, r),
        Expr::IncDec { lv, .. } => lv_mentions_reg(lv, r),
        Expr::Call(_, args) => args.iter().any(|a| expr_mentions_reg(a, r)),
        _ => false,
    }
}

fn stmt_any(s: &Stmt, fe: &dyn Fn(&Expr) -> bool, fs: &dyn Fn(&Stmt) -> bool) -> bool {
    if fs(s) {
        return true;
    }
    let oe = |e: &Option<Expr>| e.as_ref().map(|e| fe(e)).unwrap_or(false);
    match s {
        Stmt::Expr(e) | Stmt::Load(e) => fe(e),
        Stmt::If(c, t, e) => fe(c) || stmt_any(t, fe, fs) || e.as_ref().map(|e| stmt_any(e, fe, fs)).unwrap_or(false),
        Stmt::While(c, b) | Stmt::DoWhile(b, c) => fe(c) || stmt_any(b, fe, fs),
        Stmt::For(a, b, c, d) => oe(a) || oe(b) || oe(c) || stmt_any(d, fe, fs),
        Stmt::Switch(e, cases, d) => {
            fe(e)
                || cases.iter().any(|c| c.1.iter().any(|s| stmt_any(s, fe, fs)))
                || d.as_ref().map(|d| d.iter().any(|s| stmt_any(s, fe, fs))).unwrap_or(false)
        }
        Stmt::Return(e) => oe(e),
        Stmt::Block(v) => v.iter().any(|s| stmt_any(s, fe, fs)),
        Stmt::Decl(_, e) => oe(e),
        Stmt::Labeled(_, s) => stmt_any(s, fe, fs),
        Stmt::Store(l) => fe(&Expr::Lv(l.clone())),
        _ => false,
    }
}

fn has_call(e: &Expr) -> bool {
    match e {
        Expr::Call(..) => true,
        Expr::Lv(LV::Idx(_, i)) | Expr::Lv(LV::PtrIdx(_, i)) => has_call(i),
        Expr::Un(_, a) | Expr::Paren(a) => has_call(a),
        Expr::Bin(_, a, b) | Expr::Comma(a, b) => has_call(a) || has_call(b),
        Expr::Cond(a, b, c) => has_call(a) || has_call(b) || has_call(c),
        Expr::Assign(l, x) | Expr::OpAssign(_, l, x) => has_call(&Expr::Lv(l.clone())) || has_call(x),
        Expr::IncDec { lv, .. } => has_call(&Expr::Lv(lv.clone())),
        _ => false,
    }
}

/// anything that uses Y behind the scenes: *p, p[..], an index that is neither a constant nor a register
fn uses_y_scratch(e: &Expr) -> bool {
    match e {
        Expr::Lv(LV::Deref(_)) | Expr::Lv(LV::PtrIdx(..)) => true,
        Expr::Lv(LV::Idx(_, i)) => !matches!(strip(i), Expr::Num(_) | Expr::Hex(_) | Expr::Lv(LV::X) | Expr::Lv(LV::Y)),
        Expr::Un(_, a) | Expr::Paren(a) => uses_y_scratch(a),
        Expr::Bin(_, a, b) | Expr::Comma(a, b) => uses_y_scratch(a) || uses_y_scratch(b),
        Expr::Cond(a, b, c) => uses_y_scratch(a) || uses_y_scratch(b) || uses_y_scratch(c),
        Expr::Assign(l, x) | Expr::OpAssign(_, l, x) => uses_y_scratch(&Expr::Lv(l.clone())) || uses_y_scratch(x),
        Expr::IncDec { lv, .. } => uses_y_scratch(&Expr::Lv(lv.clone())),
        Expr::Call(..) => true,
        _ => false,
    }
}

/// break that belongs to the enclosing switch (not to a nested loop / switch)
fn has_own_break(s: &Stmt) -> bool {
    match s {
        Stmt::Break => true,
        Stmt::If(_, t, e) => has_own_break(t) || e.as_ref().map(|e| has_own_break(e)).unwrap_or(false),
        Stmt::Block(v) => v.iter().any(has_own_break),
        Stmt::Labeled(_, s) => has_own_break(s),
        _ => false,
    }
}

fn has_own_continue(s: &Stmt) -> bool {
    match s {
        Stmt::Continue => true,
        Stmt::If(_, t, e) => has_own_continue(t) || e.as_ref().map(|e| has_own_continue(e)).unwrap_or(false),
        Stmt::Block(v) => v.iter().any(has_own_continue),
        Stmt::Labeled(_, s) => has_own_continue(s),
        Stmt::Switch(_, cases, d) => {
            cases.iter().any(|c| c.1.iter().any(has_own_continue)) || d.as_ref().map(|d| d.iter().any(has_own_continue)).unwrap_or(false)
        }
        _ => false,
    }
}

fn mirror(op: BinOp) -> BinOp {
    match op {
        BinOp::Lt => BinOp::Gt,
        BinOp::Gt => BinOp::Lt,
        BinOp::Le => BinOp::Ge,
        BinOp::Ge => BinOp::Le,
        o => o,
    }
}

fn is_xy(e: &Expr) -> bool {
    matches!(strip(e), Expr::Lv(LV::X) | Expr::Lv(LV::Y))
}

fn is_plain(e: &Expr) -> bool {
    matches!(strip(e), Expr::Lv(LV::Var(_)) | Expr::Num(_) | Expr::Hex(_) | Expr::Lv(LV::X) | Expr::Lv(LV::Y))
}

fn blockify(s: Stmt) -> Stmt {
    match s {
        Stmt::Block(v) => Stmt::Block(v),
        o => Stmt::Block(vec![o]),
    }
}

// ------------------------------------------------------------------ the rewriter

pub struct Rw<'a> {
    base: &'a Program,
    kind: RK,
    /// index of the site to rewrite (usize::MAX: only count)
    target: usize,
    pub seen: usize,
    pub done: bool,
    /// variables added to the rewritten program (appended after the base program's)
    new_vars: Vec<VarDecl>,
    cur_fn: usize,
    /// RegIndex: insert `R = k;` but keep the constant index (spelling A of the pair)
    pub insert_only: bool,
    fresh: usize,
}

impl<'a> Rw<'a> {
    pub fn new(base: &'a Program, kind: RK, target: usize) -> Rw<'a> {
        Rw { base, kind, target, seen: 0, done: false, new_vars: vec![], cur_fn: 0, insert_only: false, fresh: 0 }
    }

    fn hit(&mut self) -> bool {
        let h = self.seen == self.target;
        self.seen += 1;
        if h {
            self.done = true;
        }
        h
    }

    fn add_var(&mut self, d: VarDecl) -> VarId {
        self.new_vars.push(d);
        self.base.vars.len() + self.new_vars.len() - 1
    }

    fn lv(&mut self, l: LV) -> LV {
        match l {
            LV::Idx(v, i) => LV::Idx(v, Box::new(self.expr(*i))),
            LV::PtrIdx(v, i) => LV::PtrIdx(v, Box::new(self.expr(*i))),
            o => o,
        }
    }

    fn expr(&mut self, e: Expr) -> Expr {
        // children first (sites are numbered in post-order)
        let e = match e {
            Expr::Lv(l) => Expr::Lv(self.lv(l)),
            Expr::Un(o, a) => Expr::Un(o, Box::new(self.expr(*a))),
            Expr::Paren(a) => Expr::Paren(Box::new(self.expr(*a))),
            Expr::Bin(o, a, b) => {
                let a = self.expr(*a);
                let b = self.expr(*b);
                Expr::Bin(o, Box::new(a), Box::new(b))
            }
            Expr::Assign(l, r) => {
                let l = self.lv(l);
                let r = self.expr(*r);
                Expr::Assign(l, Box::new(r))
            }
            Expr::OpAssign(o, l, r) => {
                let l = self.lv(l);
                let r = self.expr(*r);
                Expr::OpAssign(o, l, Box::new(r))
            }
            Expr::IncDec { lv, post, inc } => Expr::IncDec { lv: self.lv(lv), post, inc },
            Expr::Cond(a, b, c) => {
                let a = self.expr(*a);
                let b = self.expr(*b);
                let c = self.expr(*c);
                Expr::Cond(Box::new(a), Box::new(b), Box::new(c))
            }
            Expr::Call(f, args) => Expr::Call(f, args.into_iter().map(|a| self.expr(a)).collect()),
            Expr::Comma(a, b) => {
                let a = self.expr(*a);
                let b = self.expr(*b);
                Expr::Comma(Box::new(a), Box::new(b))
            }
            o => o,
        };
        match (self.kind, e) {
            (RK::Commute, Expr::Bin(op, a, b))
                if matches!(op, BinOp::Add | BinOp::And | BinOp::Or | BinOp::Xor) && pure(&a) && pure(&b) && same_class(self.base, &a, &b) && a != b =>
            {
                if self.hit() {
                    Expr::Bin(op, b, a)
                } else {
                    Expr::Bin(op, a, b)
                }
            }
            (RK::OpToAssign, Expr::OpAssign(op, l, r))
                if (pure(&r) || side_effect_apart(&r, &l))
                    && pure_lv(&l)
                    // `s = s << n` on a short is outside what C01 judges (16-bit destinations take
                    // operands whose high byte can be named: known finding, pinned pair wide_shift_assign)
                    && !(matches!(op, BinOp::Shl | BinOp::Shr) && wide(self.base, &Expr::Lv(l.clone())) == Some(true)) =>
            {
                if self.hit() {
                    Expr::Assign(l.clone(), Box::new(Expr::Bin(op, Box::new(Expr::Lv(l)), r)))
                } else {
                    Expr::OpAssign(op, l, r)
                }
            }
            (RK::AssignToOp, Expr::Assign(l, r)) => {
                let ok = match strip(&r) {
                    Expr::Bin(op, a, b) => {
                        matches!(op, BinOp::Add | BinOp::Sub | BinOp::And | BinOp::Or | BinOp::Xor | BinOp::Shl | BinOp::Shr)
                            && *strip(a) == Expr::Lv(l.clone())
                            && pure(b)
                            && pure_lv(&l)
                    }
                    _ => false,
                };
                if ok && self.hit() {
                    match strip(&r).clone() {
                        Expr::Bin(op, _, b) => Expr::OpAssign(op, l, b),
                        _ => unreachable!(),
                    }
                } else {
                    Expr::Assign(l, r)
                }
            }
            (RK::RelMirror, Expr::Bin(op, a, b))
                if matches!(op, BinOp::Lt | BinOp::Le | BinOp::Gt | BinOp::Ge)
                    && pure(&a)
                    && pure(&b)
                    // 16-bit `>` and `<=` are C01's known finding wide_compare_le_gt (pinned here as wide_mirror)
                    && wide(self.base, &a) != Some(true)
                    && wide(self.base, &b) != Some(true) =>
            {
                if self.hit() {
                    Expr::Bin(mirror(op), b, a)
                } else {
                    Expr::Bin(op, a, b)
                }
            }
            (_, e) => e,
        }
    }

    fn opt_expr(&mut self, e: Option<Expr>) -> Option<Expr> {
        e.map(|e| self.expr(e))
    }

    /// value-discarding position: statement expression or the update clause of a for
    fn discard(&mut self, e: Expr) -> Expr {
        match (self.kind, e) {
            (RK::IncToAdd, Expr::IncDec { lv, post, inc }) if pure_lv(&lv) => {
                if self.hit() {
                    Expr::OpAssign(if inc { BinOp::Add } else { BinOp::Sub }, lv, Box::new(Expr::Num(1)))
                } else {
                    Expr::IncDec { lv, post, inc }
                }
            }
            (RK::AddToInc, Expr::OpAssign(op, lv, r)) if matches!(op, BinOp::Add | BinOp::Sub) && *strip(&r) == Expr::Num(1) && pure_lv(&lv) => {
                if self.hit() {
                    Expr::IncDec { lv, post: false, inc: op == BinOp::Add }
                } else {
                    Expr::OpAssign(op, lv, r)
                }
            }
            (_, e) => e,
        }
    }

    fn boxed(&mut self, s: Box<Stmt>) -> Box<Stmt> {
        let mut v = self.stmts(vec![*s]);
        if v.len() == 1 {
            Box::new(v.pop().unwrap())
        } else {
            Box::new(Stmt::Block(v))
        }
    }

    fn stmts(&mut self, v: Vec<Stmt>) -> Vec<Stmt> {
        let mut out = Vec::new();
        for s in v {
            let r = self.stmt(s);
            out.extend(r);
        }
        out
    }

    fn fn_mentions(&self, r: &LV) -> bool {
        self.base.funcs[self.cur_fn]
            .body
            .iter()
            .any(|s| stmt_any(s, &|e| expr_mentions_reg(e, r), &|_| false))
    }

    /// replace the n-th constant index in e by the register; returns the constant
    fn reg_index(e: Expr, n: &mut i64, reg: &LV, k: &mut Option<i32>) -> Expr {
        let lvf = |l: LV, n: &mut i64, k: &mut Option<i32>| -> LV {
            match l {
                LV::Idx(v, i) => {
                    if let Expr::Num(c) = *i {
                        *n -= 1;
                        if *n == -1 {
                            *k = Some(c);
                            return LV::Idx(v, Box::new(Expr::Lv(reg.clone())));
                        }
                        LV::Idx(v, Box::new(Expr::Num(c)))
                    } else {
                        LV::Idx(v, Box::new(Self::reg_index(*i, n, reg, k)))
                    }
                }
                o => o,
            }
        };
        match e {
            Expr::Lv(l) => Expr::Lv(lvf(l, n, k)),
            Expr::Un(o, a) => Expr::Un(o, Box::new(Self::reg_index(*a, n, reg, k))),
            Expr::Paren(a) => Expr::Paren(Box::new(Self::reg_index(*a, n, reg, k))),
            Expr::Bin(o, a, b) => {
                let a = Self::reg_index(*a, n, reg, k);
                let b = Self::reg_index(*b, n, reg, k);
                Expr::Bin(o, Box::new(a), Box::new(b))
            }
            Expr::Assign(l, r) => {
                let l = lvf(l, n, k);
                let r = Self::reg_index(*r, n, reg, k);
                Expr::Assign(l, Box::new(r))
            }
            Expr::OpAssign(o, l, r) => {
                let l = lvf(l, n, k);
                let r = Self::reg_index(*r, n, reg, k);
                Expr::OpAssign(o, l, Box::new(r))
            }
            Expr::IncDec { lv, post, inc } => Expr::IncDec { lv: lvf(lv, n, k), post, inc },
            Expr::Cond(a, b, c) => {
                let a = Self::reg_index(*a, n, reg, k);
                let b = Self::reg_index(*b, n, reg, k);
                let c = Self::reg_index(*c, n, reg, k);
                Expr::Cond(Box::new(a), Box::new(b), Box::new(c))
            }
            o => o,
        }
    }

    fn count_const_idx(e: &Expr) -> usize {
        let lvf = |l: &LV| -> usize {
            match l {
                LV::Idx(_, i) => {
                    if let Expr::Num(_) = **i {
                        1
                    } else {
                        Self::count_const_idx(i)
                    }
                }
                _ => 0,
            }
        };
        match e {
            Expr::Lv(l) => lvf(l),
            Expr::Un(_, a) | Expr::Paren(a) => Self::count_const_idx(a),
            Expr::Bin(_, a, b) => Self::count_const_idx(a) + Self::count_const_idx(b),
            Expr::Assign(l, r) | Expr::OpAssign(_, l, r) => lvf(l) + Self::count_const_idx(r),
            Expr::IncDec { lv, .. } => lvf(lv),
            Expr::Cond(a, b, c) => Self::count_const_idx(a) + Self::count_const_idx(b) + Self::count_const_idx(c),
            _ => 0,
        }
    }

    fn subst_lv(l: &LV, map: &dyn Fn(VarId) -> VarId) -> LV {
        match l {
            LV::Var(v) => LV::Var(map(*v)),
            LV::Idx(v, i) => LV::Idx(map(*v), Box::new(Self::subst_expr(i, map))),
            LV::PtrIdx(v, i) => LV::PtrIdx(map(*v), Box::new(Self::subst_expr(i, map))),
            LV::Deref(v) => LV::Deref(map(*v)),
            o => o.clone(),
        }
    }

    fn subst_expr(e: &Expr, map: &dyn Fn(VarId) -> VarId) -> Expr {
        let b = |e: &Expr| Box::new(Self::subst_expr(e, map));
        match e {
            Expr::Lv(l) => Expr::Lv(Self::subst_lv(l, map)),
            Expr::Un(o, a) => Expr::Un(*o, b(a)),
            Expr::Paren(a) => Expr::Paren(b(a)),
            Expr::Bin(o, x, y) => Expr::Bin(*o, b(x), b(y)),
            Expr::Assign(l, r) => Expr::Assign(Self::subst_lv(l, map), b(r)),
            Expr::OpAssign(o, l, r) => Expr::OpAssign(*o, Self::subst_lv(l, map), b(r)),
            Expr::IncDec { lv, post, inc } => Expr::IncDec { lv: Self::subst_lv(lv, map), post: *post, inc: *inc },
            Expr::Cond(x, y, z) => Expr::Cond(b(x), b(y), b(z)),
            Expr::Call(f, args) => Expr::Call(*f, args.iter().map(|a| Self::subst_expr(a, map)).collect()),
            Expr::Comma(x, y) => Expr::Comma(b(x), b(y)),
            Expr::AddrOf(v) => Expr::AddrOf(map(*v)),
            Expr::Sizeof(v) => Expr::Sizeof(map(*v)),
            o => o.clone(),
        }
    }

    fn subst_stmt(s: &Stmt, map: &dyn Fn(VarId) -> VarId) -> Stmt {
        let e = |e: &Expr| Self::subst_expr(e, map);
        let oe = |x: &Option<Expr>| x.as_ref().map(|x| Self::subst_expr(x, map));
        let bs = |s: &Stmt| Box::new(Self::subst_stmt(s, map));
        let vs = |v: &Vec<Stmt>| v.iter().map(|s| Self::subst_stmt(s, map)).collect::<Vec<_>>();
        match s {
            Stmt::Expr(x) => Stmt::Expr(e(x)),
            Stmt::If(c, t, f) => Stmt::If(e(c), bs(t), f.as_ref().map(|f| bs(f))),
            Stmt::While(c, b) => Stmt::While(e(c), bs(b)),
            Stmt::DoWhile(b, c) => Stmt::DoWhile(bs(b), e(c)),
            Stmt::For(a, b, c, d) => Stmt::For(oe(a), oe(b), oe(c), bs(d)),
            Stmt::Switch(x, cases, d) => Stmt::Switch(e(x), cases.iter().map(|c| (c.0.clone(), vs(&c.1))).collect(), d.as_ref().map(|d| vs(d))),
            Stmt::Return(x) => Stmt::Return(oe(x)),
            Stmt::Block(v) => Stmt::Block(vs(v)),
            Stmt::Decl(v, x) => Stmt::Decl(map(*v), oe(x)),
            Stmt::Labeled(l, s) => Stmt::Labeled(l.clone(), bs(s)),
            Stmt::Load(x) => Stmt::Load(e(x)),
            Stmt::Store(l) => Stmt::Store(Self::subst_lv(l, map)),
            Stmt::Strobe(v) => Stmt::Strobe(map(*v)),
            o => o.clone(),
        }
    }

    /// the body of callee `f` written in place of a call with arguments `args`; `dest` receives
    /// the returned value
    fn inline_body(&mut self, f: usize, args: &[Expr], dest: Option<LV>) -> Option<Vec<Stmt>> {
        let func = &self.base.funcs[f];
        if func.interrupt || func.params.len() != args.len() {
            return None;
        }
        for pv in &func.params {
            if !matches!(self.base.vars[*pv].kind, VarKind::Scalar(_)) {
                return None;
            }
        }
        let n = func.body.len();
        let (main_part, ret_e) = match func.body.last() {
            Some(Stmt::Return(Some(e))) if func.ret.is_some() => (&func.body[..n - 1], Some(e.clone())),
            _ => (&func.body[..], None),
        };
        if func.ret.is_some() && ret_e.is_none() {
            return None;
        }
        // no other return, no goto / label
        for s in main_part {
            if stmt_any(s, &|_| false, &|s| matches!(s, Stmt::Return(_) | Stmt::Goto(_) | Stmt::Labeled(..))) {
                return None;
            }
        }
        if dest.is_some() && ret_e.is_none() {
            return None;
        }
        // fresh copies of the callee's parameters and locals in the caller
        self.fresh += 1;
        let mut pairs: Vec<(VarId, VarId)> = Vec::new();
        for (i, v) in self.base.vars.iter().enumerate() {
            if v.scope == Scope::Local(f) || v.scope == Scope::Param(f) {
                let d = VarDecl { name: format!("q{}{}", self.fresh, v.name), kind: v.kind.clone(), mem: v.mem.clone(), scope: Scope::Local(self.cur_fn) };
                let nv = self.add_var(d);
                pairs.push((i, nv));
            }
        }
        let map = move |v: VarId| -> VarId { pairs.iter().find(|p| p.0 == v).map(|p| p.1).unwrap_or(v) };
        let mut out = Vec::new();
        for (pv, a) in func.params.iter().zip(args.iter()) {
            out.push(Stmt::Decl(map(*pv), Some(a.clone())));
        }
        for s in main_part {
            out.push(Self::subst_stmt(s, &map));
        }
        if let Some(e) = ret_e {
            let e = Self::subst_expr(&e, &map);
            match dest {
                Some(l) => out.push(Stmt::Expr(Expr::Assign(l, Box::new(e)))),
                None => {
                    if has_call(&e) {
                        out.push(Stmt::Expr(e));
                    }
                }
            }
        }
        Some(out)
    }

    fn stmt(&mut self, s: Stmt) -> Vec<Stmt> {
        // statement-level rewrites that look at the statement before descending
        match (self.kind, &s) {
            (RK::RegIndex, Stmt::Expr(e)) if !has_call(e) => {
                let nidx = Self::count_const_idx(e);
                if nidx > 0 {
                    // X when the function never mentions it, else Y under the stricter rule
                    let reg = if !self.fn_mentions(&LV::X) {
                        Some(LV::X)
                    } else if !self.fn_mentions(&LV::Y) && !uses_y_scratch(e) {
                        Some(LV::Y)
                    } else {
                        None
                    };
                    if let Some(reg) = reg {
                        for occ in 0..nidx {
                            if self.hit() {
                                let mut n = occ as i64;
                                let mut k = None;
                                let e2 = Self::reg_index(e.clone(), &mut n, &reg, &mut k);
                                let set = Stmt::Expr(Expr::Assign(reg.clone(), Box::new(Expr::Num(k.unwrap()))));
                                if self.insert_only {
                                    return vec![set, s];
                                }
                                return vec![set, Stmt::Expr(e2)];
                            }
                        }
                    }
                }
                return vec![s];
            }
            (RK::CallInline, Stmt::Expr(Expr::Call(f, args))) => {
                let (f, args) = (*f, args.clone());
                {
                    let save = (self.new_vars.len(), self.fresh);
                    if let Some(body) = self.inline_body(f, &args, None) {
                        if self.hit() {
                            return vec![Stmt::Block(body)];
                        }
                    }
                    self.new_vars.truncate(save.0);
                    self.fresh = save.1;
                }
                return vec![s];
            }
            (RK::CallInline, Stmt::Expr(Expr::Assign(l, r))) => {
                if let Expr::Call(f, args) = strip(r) {
                    let idx_free = match l {
                        LV::Idx(_, i) | LV::PtrIdx(_, i) => matches!(**i, Expr::Num(_)),
                        _ => true,
                    };
                    if idx_free {
                        let save = (self.new_vars.len(), self.fresh);
                        if let Some(body) = self.inline_body(*f, args, Some(l.clone())) {
                            if self.hit() {
                                return vec![Stmt::Block(body)];
                            }
                        }
                        self.new_vars.truncate(save.0);
                        self.fresh = save.1;
                    }
                }
                return vec![s];
            }
            _ => {}
        }
        let s = match s {
            Stmt::Expr(e) => {
                let e = self.expr(e);
                Stmt::Expr(self.discard(e))
            }
            Stmt::If(c, t, e) => {
                let c = self.expr(c);
                let t = self.boxed(t);
                let e = e.map(|e| self.boxed(e));
                if self.kind == RK::IfSwap && self.hit() {
                    let nc = Expr::Un(UnOp::Not, Box::new(c));
                    match e {
                        Some(e) => Stmt::If(nc, Box::new(blockify(*e)), Some(Box::new(blockify(*t)))),
                        None => Stmt::If(nc, Box::new(Stmt::Block(vec![])), Some(Box::new(blockify(*t)))),
                    }
                } else {
                    Stmt::If(c, t, e)
                }
            }
            Stmt::While(c, b) => {
                let c = self.expr(c);
                let b = self.boxed(b);
                if self.kind == RK::WhileToFor && self.hit() {
                    Stmt::For(None, Some(c), None, b)
                } else {
                    Stmt::While(c, b)
                }
            }
            Stmt::DoWhile(b, c) => {
                let b = self.boxed(b);
                let c = self.expr(c);
                Stmt::DoWhile(b, c)
            }
            Stmt::For(a, b, c, d) => {
                let a = self.opt_expr(a);
                let b = self.opt_expr(b);
                let c = self.opt_expr(c).map(|c| self.discard(c));
                let d = self.boxed(d);
                if self.kind == RK::ForToWhile && !has_own_continue(&d) && !matches!(*d, Stmt::Decl(..)) && self.hit() {
                    let mut body = match *d {
                        Stmt::Block(v) => v,
                        o => vec![o],
                    };
                    if let Some(c) = c {
                        body.push(Stmt::Expr(c));
                    }
                    let w = Stmt::While(b.unwrap_or(Expr::Num(1)), Box::new(Stmt::Block(body)));
                    match a {
                        Some(a) => Stmt::Block(vec![Stmt::Expr(a), w]),
                        None => w,
                    }
                } else {
                    Stmt::For(a, b, c, d)
                }
            }
            Stmt::Switch(e, cases, d) => {
                let e = self.expr(e);
                let cases: Vec<(Vec<i32>, Vec<Stmt>)> = cases.into_iter().map(|c| (c.0, self.stmts(c.1))).collect();
                let d = d.map(|d| self.stmts(d));
                let eligible = pure(&e)
                    && cases.iter().all(|c| {
                        let n = c.1.len();
                        // an arm ends in break (dropped in the if chain) or in continue (kept: it
                        // belongs to the enclosing loop in both spellings)
                        n > 0 && matches!(c.1[n - 1], Stmt::Break | Stmt::Continue) && !c.1[..n - 1].iter().any(has_own_break) && !c.1.iter().any(|s| matches!(s, Stmt::Decl(..)))
                    })
                    && d.as_ref().map(|d| {
                        let n = d.len();
                        let m = if n > 0 && matches!(d[n - 1], Stmt::Break) { n - 1 } else { n };
                        !d[..m].iter().any(has_own_break) && !d.iter().any(|s| matches!(s, Stmt::Decl(..)))
                    }).unwrap_or(true);
                if self.kind == RK::SwitchToIf && eligible && self.hit() {
                    let mut chain: Option<Stmt> = d.map(|mut d| {
                        if matches!(d.last(), Some(Stmt::Break)) {
                            d.pop();
                        }
                        Stmt::Block(d)
                    });
                    for (vals, mut body) in cases.into_iter().rev() {
                        if matches!(body.last(), Some(Stmt::Break)) {
                            body.pop();
                        }
                        let mut c: Option<Expr> = None;
                        for v in vals {
                            let t = Expr::Bin(BinOp::Eq, Box::new(e.clone()), Box::new(Expr::Num(v)));
                            c = Some(match c {
                                None => t,
                                Some(p) => Expr::Bin(BinOp::LOr, Box::new(p), Box::new(t)),
                            });
                        }
                        chain = Some(Stmt::If(c.unwrap(), Box::new(Stmt::Block(body)), chain.map(|s| Box::new(blockify(s)))));
                    }
                    chain.unwrap()
                } else {
                    Stmt::Switch(e, cases, d)
                }
            }
            Stmt::Return(e) => Stmt::Return(self.opt_expr(e)),
            Stmt::Block(v) => Stmt::Block(self.stmts(v)),
            Stmt::Decl(v, e) => Stmt::Decl(v, self.opt_expr(e)),
            Stmt::Labeled(l, s) => Stmt::Labeled(l, self.boxed(s)),
            Stmt::Load(e) => Stmt::Load(self.expr(e)),
            o => o,
        };
        vec![s]
    }

    pub fn program(&mut self) -> Program {
        let mut p = self.base.clone();
        for (i, f) in self.base.funcs.iter().enumerate() {
            self.cur_fn = i;
            p.funcs[i].body = self.stmts(f.body.clone());
        }
        p.vars.extend(self.new_vars.iter().cloned());
        p
    }
}

/// (spelling A, spelling B, number of applicable sites); None when the kind has no site
pub fn rewrite(p: &Program, kind: RK, pick: u64) -> Option<(Program, Program, usize)> {
    let mut c = Rw::new(p, kind, usize::MAX);
    c.program();
    let n = c.seen;
    if n == 0 {
        return None;
    }
    let target = (pick % n as u64) as usize;
    let mut r = Rw::new(p, kind, target);
    let b = r.program();
    if !r.done {
        return None;
    }
    let a = if kind == RK::RegIndex {
        // both spellings get `R = k;` in front of the statement; only B indexes through R
        let mut r2 = Rw::new(p, kind, target);
        r2.insert_only = true;
        r2.program()
    } else {
        p.clone()
    };
    Some((a, b, n))
}

// ------------------------------------------------------------------ the judge

pub fn cfg_c15() -> GenCfg {
    GenCfg::default()
}

fn extend_input(pb: &Program, ina: &State) -> State {
    let mut st = zero_state(pb);
    for i in 0..ina.vals.len().min(st.vals.len()) {
        st.vals[i] = ina.vals[i].clone();
    }
    st.x = ina.x;
    st.y = ina.y;
    st
}

pub fn judge_pair(kind: &str, idx: u64, rk: RK, pa: &Program, pb: &Program, tag: &str, sites: usize) -> CaseResult {
    judge_pair_ex(kind, idx, rk, pa, pb, tag, sites, &[])
}

/// `extra`: additional input states (for spelling A; extended to B), judged after the generated ones
pub fn judge_pair_ex(kind: &str, idx: u64, rk: RK, pa: &Program, pb: &Program, tag: &str, sites: usize, extra: &[State]) -> CaseResult {
    let sa = print_program(pa);
    let sb = print_program(pb);
    let mut res = CaseResult::new("", crate::util::hash_str(&sa) ^ crate::util::hash_str(&sb).rotate_left(1));
    let sig = format!("C15:{}:{}", kind, idx);
    res.count(&format!("sites available: {}", rk.name()), sites as u64);
    if sa == sb {
        res.class = "rewrite left the text unchanged".into();
        return res;
    }
    let mut judged = 0u64;
    for lvl in [0u8, 1, 2, 3] {
        if lvl >= 2 && idx % 5 != 0 {
            continue;
        }
        let (oa, ba) = match prepare(&sa, &Opts::o(lvl)) {
            Prep::Ready(o, b) => (o, b),
            Prep::Skip(c) => {
                res.class = format!("original spelling not judged: {}", c);
                return res;
            }
        };
        let (ob, bb) = match prepare(&sb, &Opts::o(lvl)) {
            Prep::Ready(o, b) => (o, b),
            Prep::Skip(c) => {
                // acceptance is not the property's subject: only the final state of accepted spellings is
                res.class = format!("rewritten spelling not accepted: {}", c);
                res.count(&format!("rewritten spelling refused: {}", rk.name()), 1);
                return res;
            }
        };
        let la = listing(&oa);
        let lb = listing(&ob);
        if la != lb {
            res.nontrivial = true;
        }
        for k in 0..(4 + extra.len() as u64) {
            let ina = if k < 4 { gen_input(pa, tag, idx, k) } else { extra[(k - 4) as usize].clone() };
            let inb = extend_input(pb, &ina);
            let (ra, rb) = match (reference(pa, &ina, 20_000), reference(pb, &inb, 20_000)) {
                (Ok(a), Ok(b)) => (a, b),
                (Ok(_), Err(_)) | (Err(_), Ok(_)) => {
                    res.count("vectors dropped: only one spelling has a defined reference", 1);
                    continue;
                }
                _ => {
                    res.count("vectors dropped: reference undefined", 1);
                    continue;
                }
            };
            if diff_states(pa, &ra.0, &rb.0, true).is_some() {
                // the two spellings are not equivalent on this input according to the reference:
                // a fault of the rewriter, not of the compiler
                res.count("vectors dropped: REFERENCE DISAGREES between spellings (rewriter guard)", 1);
                continue;
            }
            let budget = cycle_budget(ra.2.max(rb.2));
            let xa = run_compiled(pa, &ba, &ina, budget, &|_| {});
            let xb = run_compiled(pb, &bb, &inb, budget, &|_| {});
            res.count("comparisons", 1);
            res.count(&format!("comparisons: {}", rk.name()), 1);
            judged += 1;
            let mut why = None;
            match (&xa.stop, &xb.stop) {
                (Stop::Halt, Stop::Halt) => {
                    if let Some(d) = diff_states(pa, &xa.state, &xb.state, true) {
                        let da = diff_states(pa, &ra.0, &xa.state, true);
                        let db = diff_states(pa, &rb.0, &xb.state, true);
                        why = Some(format!(
                            "final states differ (original vs rewritten): {}; against the reference the original {} and the rewritten spelling {}",
                            d,
                            if da.is_some() { "DEVIATES" } else { "agrees" },
                            if db.is_some() { "DEVIATES" } else { "agrees" }
                        ));
                    }
                }
                (a, b) => {
                    if std::mem::discriminant(a) != std::mem::discriminant(b) {
                        why = Some(format!("original: {}, rewritten: {}", stop_str(a), stop_str(b)));
                    }
                }
            }
            if let Some(w) = why {
                res.class = "violated".into();
                res.violate(
                    &sig,
                    &format!("C15 [{}] -O{} input #{}: {}\n--- original\n{}\n--- rewritten\n{}", rk.name(), lvl, k, w, sa, sb),
                    json!({"kind": kind, "idx": idx, "rewrite": rk.name(), "opt": lvl, "vector": k, "why": w, "original": sa, "rewritten": sb,
                           "listing_original": la, "listing_rewritten": lb, "input": state_brief(pa, &ina)}),
                );
                return res;
            }
        }
    }
    if judged == 0 {
        res.class = "no vector judged".into();
        res.nontrivial = false;
    } else {
        res.class = if res.nontrivial { "spellings agree (emitted code differs)".into() } else { "spellings agree (same emitted code)".into() };
        res.set("rewrite kinds judged", rk.name());
        if res.nontrivial {
            res.count(&format!("pairs with different code: {}", rk.name()), 1);
        }
    }
    if idx % 997 == 0 {
        res.sample = Some(json!({"kind": kind, "idx": idx, "rewrite": rk.name(), "original": sa, "rewritten": sb}));
    }
    res
}

// ------------------------------------------------------------------ enumerated core
// A statement that writes a variable or a register, in two spellings, followed by a test of what
// it wrote: every target kind x statement form x test form, with inputs at the byte boundaries.

const CORE_TARGETS: usize = 4; // c (char), X, Y, s (short)
const CORE_FORMS: usize = 16;
const CORE_TESTS: usize = 6;
const CORE_SPECIALS: usize = 38;

pub fn core_len() -> u64 {
    (CORE_TARGETS * CORE_FORMS * CORE_TESTS + CORE_SPECIALS) as u64
}

fn core_base() -> Program {
    let mut p = Program::default();
    let g = |name: &str, t: Ty| VarDecl { name: name.into(), kind: VarKind::Scalar(t), mem: MemClass::Zp, scope: Scope::Global };
    p.vars.push(g("c", Ty::U8)); // 0
    p.vars.push(g("d", Ty::U8)); // 1
    p.vars.push(g("r", Ty::U8)); // 2
    p.vars.push(g("s", Ty::U16)); // 3
    p.vars.push(g("t", Ty::U16)); // 4
    p.vars.push(g("n", Ty::U8)); // 5
    p
}

fn core_main(mut p: Program, body: Vec<Stmt>) -> Program {
    p.funcs.push(Func { name: "main".into(), ret: None, params: vec![], body, inline: false, interrupt: false, proto_first: false });
    p
}

fn core_pair(idx: u64) -> Option<(RK, Program, Program, LV)> {
    let lvv = |v: usize| Expr::Lv(LV::Var(v));
    let set = |v: usize, k: i32| Stmt::Expr(Expr::Assign(LV::Var(v), Box::new(Expr::Num(k))));
    let n_grid = (CORE_TARGETS * CORE_FORMS * CORE_TESTS) as u64;
    if idx >= n_grid {
        // hand-written pairs
        let k = idx - n_grid;
        let incr = |v: usize| Stmt::Expr(Expr::IncDec { lv: LV::Var(v), post: true, inc: true });
        let decr = |l: LV| Expr::IncDec { lv: l, post: true, inc: false };
        let (a, b, rk): (Vec<Stmt>, Vec<Stmt>, RK) = match k {
            0 | 1 => {
                // for (s = K; s; s--) n++;   <->   s = K; while (s) { n++; s--; }
                let kk = if k == 0 { 3 } else { 300 };
                let init = Expr::Assign(LV::Var(3), Box::new(Expr::Num(kk)));
                (
                    vec![set(5, 0), Stmt::For(Some(init.clone()), Some(lvv(3)), Some(decr(LV::Var(3))), Box::new(Stmt::Block(vec![incr(5)])))],
                    vec![set(5, 0), Stmt::Expr(init), Stmt::While(lvv(3), Box::new(Stmt::Block(vec![incr(5), Stmt::Expr(decr(LV::Var(3)))])))],
                    RK::ForToWhile,
                )
            }
            2 | 3 => {
                // for (c = d++ / d--; c != 0; c--) r += 2;   <->   the while spelling (d small)
                let init = Expr::Assign(LV::Var(0), Box::new(Expr::IncDec { lv: LV::Var(1), post: true, inc: k == 2 }));
                let cond = Expr::Bin(BinOp::Ne, Box::new(lvv(0)), Box::new(Expr::Num(0)));
                let body = Stmt::Expr(Expr::OpAssign(BinOp::Add, LV::Var(2), Box::new(Expr::Num(2))));
                let mask = Stmt::Expr(Expr::OpAssign(BinOp::And, LV::Var(1), Box::new(Expr::Num(7))));
                (
                    vec![mask.clone(), Stmt::For(Some(init.clone()), Some(cond.clone()), Some(decr(LV::Var(0))), Box::new(Stmt::Block(vec![body.clone()])))],
                    vec![mask, Stmt::Expr(init), Stmt::While(cond, Box::new(Stmt::Block(vec![body, Stmt::Expr(decr(LV::Var(0)))])))],
                    RK::ForToWhile,
                )
            }
            4 | 5 | 6 | 7 => {
                // reg = 2; f(); if (reg == 2) r = 1; else r = 2;   <->   f's body in place (f changes the register)
                let reg = if k % 2 == 0 { LV::X } else { LV::Y };
                let fbody = vec![
                    Stmt::Expr(Expr::OpAssign(BinOp::Add, LV::Var(1), Box::new(Expr::Num(3)))),
                    if k < 6 { Stmt::Expr(Expr::IncDec { lv: reg.clone(), post: true, inc: true }) } else { Stmt::Expr(Expr::Assign(reg.clone(), Box::new(lvv(0)))) },
                ];
                let test = Stmt::If(Expr::Bin(BinOp::Eq, Box::new(Expr::Lv(reg.clone())), Box::new(Expr::Num(2))), Box::new(set(2, 1)), Some(Box::new(set(2, 2))));
                let pre = Stmt::Expr(Expr::Assign(reg.clone(), Box::new(Expr::Num(2))));
                let mut pa = core_base();
                pa.funcs.push(Func { name: "f".into(), ret: None, params: vec![], body: fbody.clone(), inline: false, interrupt: false, proto_first: false });
                let pa = core_main(pa, vec![pre.clone(), Stmt::Expr(Expr::Call(0, vec![])), test.clone()]);
                let mut pb = core_base();
                pb.funcs.push(Func { name: "f".into(), ret: None, params: vec![], body: fbody.clone(), inline: false, interrupt: false, proto_first: false });
                let pb = core_main(pb, vec![pre, Stmt::Block(fbody), test]);
                return Some((RK::CallInline, pa, pb, reg));
            }
            18..=25 => {
                // if (!(c OP d)) r = 1; else { if (x) r = 2; else r = 3; }   <->   if (c OP d) { if (x) .. } else r = 1;
                // (x one of the operands: what the flags describe when the else part is entered)
                let j = k - 18;
                let op = if j % 2 == 0 { BinOp::LOr } else { BinOp::LAnd };
                let x = if (j / 2) % 2 == 0 { 1usize } else { 0usize };
                let inner_c = if (j / 4) % 2 == 0 { lvv(x) } else { Expr::Bin(BinOp::Eq, Box::new(lvv(x)), Box::new(Expr::Num(0))) };
                let inner = Stmt::If(inner_c, Box::new(set(2, 2)), Some(Box::new(set(2, 3))));
                let c = Expr::Bin(op, Box::new(lvv(0)), Box::new(lvv(1)));
                let notc = Expr::Un(UnOp::Not, Box::new(Expr::Paren(Box::new(c.clone()))));
                (
                    vec![Stmt::If(notc, Box::new(set(2, 1)), Some(Box::new(Stmt::Block(vec![inner.clone()]))))],
                    vec![Stmt::If(c, Box::new(Stmt::Block(vec![inner])), Some(Box::new(set(2, 1))))],
                    RK::IfSwap,
                )
            }
            26..=37 => {
                // a comparison as the initialiser of a local variable (the parser of initialisers is
                // a table of its own), mirrored; and as the argument of a call versus in place
                let j = k - 26;
                let ops = [BinOp::Lt, BinOp::Le, BinOp::Gt, BinOp::Ge, BinOp::Eq, BinOp::Ne];
                let op = ops[(j % 6) as usize];
                let mir = match op {
                    BinOp::Lt => BinOp::Gt,
                    BinOp::Le => BinOp::Ge,
                    BinOp::Gt => BinOp::Lt,
                    BinOp::Ge => BinOp::Le,
                    o => o,
                };
                let mk = |e: Expr| {
                    let mut q = core_base();
                    let l = q.vars.len();
                    q.vars.push(VarDecl { name: "l0".into(), kind: VarKind::Scalar(Ty::U8), mem: MemClass::Zp, scope: Scope::Local(0) });
                    core_main(q, vec![Stmt::Block(vec![Stmt::Decl(l, Some(e)), Stmt::Expr(Expr::Assign(LV::Var(2), Box::new(Expr::Lv(LV::Var(l)))))])])
                };
                let direct = Expr::Bin(op, Box::new(lvv(0)), Box::new(lvv(1)));
                let mirrored = Expr::Bin(mir, Box::new(lvv(1)), Box::new(lvv(0)));
                if j < 6 {
                    return Some((RK::RelMirror, mk(direct), mk(mirrored), LV::Var(0)));
                }
                // r = (c OP d);  as a statement, versus through the local
                let pa = mk(direct.clone());
                let pb = core_main(core_base(), vec![Stmt::Expr(Expr::Assign(LV::Var(2), Box::new(direct)))]);
                return Some((RK::RelMirror, pa, pb, LV::Var(0)));
            }
            10..=17 => {
                // v = ..; f(); if (v) ..   <->   f's body in place, f inline or not, touching v or not
                let j = k - 10;
                let inline = j % 2 == 0;
                let tv: LV = match (j / 2) % 4 {
                    0 => LV::Var(0),
                    1 => LV::X,
                    2 => LV::Y,
                    _ => LV::Var(3),
                };
                let touches = j >= 4 || matches!(tv, LV::Var(3));
                let fbody: Vec<Stmt> = if touches {
                    vec![Stmt::Expr(Expr::Assign(tv.clone(), Box::new(Expr::Num(0)))), Stmt::Expr(Expr::Assign(LV::Var(1), Box::new(Expr::Num(5))))]
                } else {
                    vec![incr(1)]
                };
                let pre = if j % 3 == 0 {
                    Stmt::Expr(Expr::Assign(tv.clone(), Box::new(Expr::Num(1))))
                } else {
                    Stmt::Expr(Expr::IncDec { lv: tv.clone(), post: true, inc: false })
                };
                let test = Stmt::If(Expr::Lv(tv.clone()), Box::new(set(2, 1)), Some(Box::new(set(2, 2))));
                let mk = |body: Vec<Stmt>| {
                    let mut q = core_base();
                    q.funcs.push(Func { name: "f".into(), ret: None, params: vec![], body: fbody.clone(), inline, interrupt: false, proto_first: false });
                    core_main(q, body)
                };
                let pa = mk(vec![pre.clone(), Stmt::Expr(Expr::Call(0, vec![])), test.clone()]);
                let pb = mk(vec![pre, Stmt::Block(fbody.clone()), test]);
                return Some((RK::CallInline, pa, pb, tv));
            }
            _ => {
                // a loop with a switch whose arm continues   <->   the if chain
                let arms = vec![(vec![1], vec![Stmt::Continue]), (vec![2], vec![Stmt::Expr(Expr::OpAssign(BinOp::Add, LV::Var(2), Box::new(Expr::Num(10)))), Stmt::Break])];
                let sw = Stmt::Switch(lvv(0), arms, None);
                let chain = Stmt::If(
                    Expr::Bin(BinOp::Eq, Box::new(lvv(0)), Box::new(Expr::Num(1))),
                    Box::new(Stmt::Block(vec![Stmt::Continue])),
                    Some(Box::new(Stmt::Block(vec![Stmt::If(
                        Expr::Bin(BinOp::Eq, Box::new(lvv(0)), Box::new(Expr::Num(2))),
                        Box::new(Stmt::Block(vec![Stmt::Expr(Expr::OpAssign(BinOp::Add, LV::Var(2), Box::new(Expr::Num(10))))])),
                        None,
                    )]))),
                );
                let mk = |inner: Stmt| {
                    vec![
                        set(2, 0),
                        Stmt::For(
                            Some(Expr::Assign(LV::Var(0), Box::new(Expr::Num(0)))),
                            Some(Expr::Bin(BinOp::Ne, Box::new(lvv(0)), Box::new(Expr::Num(4)))),
                            Some(Expr::IncDec { lv: LV::Var(0), post: true, inc: true }),
                            Box::new(Stmt::Block(vec![inner, incr(2)])),
                        ),
                    ]
                };
                (mk(sw), mk(chain), RK::SwitchToIf)
            }
        };
        return Some((rk, core_main(core_base(), a), core_main(core_base(), b), LV::Var(3)));
    }
    let ti = (idx % CORE_TESTS as u64) as usize;
    let fi = ((idx / CORE_TESTS as u64) % CORE_FORMS as u64) as usize;
    let vi = (idx / (CORE_TESTS * CORE_FORMS) as u64) as usize;
    let (l, wide16) = match vi {
        0 => (LV::Var(0), false),
        1 => (LV::X, false),
        2 => (LV::Y, false),
        _ => (LV::Var(3), true),
    };
    let v = Expr::Lv(l.clone());
    let kk = [1, 128, 255, 2, 0x100, 0x101][(idx % 6) as usize];
    let kk = if wide16 { kk } else { kk & 0xff };
    let (a, b, rk): (Stmt, Stmt, RK) = match fi {
        0..=3 => {
            let inc = fi % 2 == 0;
            let post = fi < 2;
            (
                Stmt::Expr(Expr::IncDec { lv: l.clone(), post, inc }),
                Stmt::Expr(Expr::OpAssign(if inc { BinOp::Add } else { BinOp::Sub }, l.clone(), Box::new(Expr::Num(1)))),
                RK::IncToAdd,
            )
        }
        4..=13 => {
            let op = [BinOp::Add, BinOp::Sub, BinOp::And, BinOp::Or, BinOp::Xor][(fi - 4) / 2];
            let e = if (fi - 4) % 2 == 0 { Expr::Num([1, 3, 0x7f, 0x80, 0xff][(idx % 5) as usize]) } else { lvv(1) };
            (
                Stmt::Expr(Expr::OpAssign(op, l.clone(), Box::new(e.clone()))),
                Stmt::Expr(Expr::Assign(l.clone(), Box::new(Expr::Bin(op, Box::new(v.clone()), Box::new(e))))),
                RK::OpToAssign,
            )
        }
        _ => {
            if wide16 {
                return None; // recorded family wide_shift_assign
            }
            let op = if fi == 14 { BinOp::Shl } else { BinOp::Shr };
            (
                Stmt::Expr(Expr::OpAssign(op, l.clone(), Box::new(Expr::Num(1)))),
                Stmt::Expr(Expr::Assign(l.clone(), Box::new(Expr::Bin(op, Box::new(v.clone()), Box::new(Expr::Num(1)))))),
                RK::OpToAssign,
            )
        }
    };
    let cond = match ti {
        0 => v.clone(),
        1 => Expr::Un(UnOp::Not, Box::new(v.clone())),
        2 => Expr::Bin(BinOp::Eq, Box::new(v.clone()), Box::new(Expr::Num(kk))),
        3 => Expr::Bin(BinOp::Ne, Box::new(v.clone()), Box::new(Expr::Num(kk))),
        4 => {
            if wide16 {
                Expr::Bin(BinOp::Lt, Box::new(v.clone()), Box::new(Expr::Num(kk.max(1))))
            } else {
                Expr::Bin(BinOp::Lt, Box::new(v.clone()), Box::new(Expr::Num(kk.max(1))))
            }
        }
        _ => Expr::Bin(BinOp::Eq, Box::new(v.clone()), Box::new(lvv(if wide16 { 4 } else { 1 }))),
    };
    let test = Stmt::If(cond, Box::new(set(2, 1)), Some(Box::new(set(2, 2))));
    Some((rk, core_main(core_base(), vec![a, test.clone()]), core_main(core_base(), vec![b, test]), l))
}

fn core_case(kind: &str, idx: u64) -> CaseResult {
    let (rk, pa, pb, target) = match core_pair(idx) {
        Some(x) => x,
        None => return CaseResult::new("core combination inside a recorded family (skipped)", idx),
    };
    // inputs at the byte boundaries of the target
    let base = gen_input(&pa, "C15core", idx, 1);
    let mut extra = Vec::new();
    let vals: &[i64] = match &target {
        LV::Var(3) => &[0, 1, 2, 0xff, 0x100, 0x101, 0x1ff, 0x200, 0x7fff, 0x8000, 0xff00, 0xffff],
        _ => &[0, 1, 2, 3, 127, 128, 129, 254, 255],
    };
    for (i, v) in vals.iter().enumerate() {
        let mut st = base.clone();
        match &target {
            LV::Var(x) => st.vals[*x][0] = *v,
            LV::X => st.x = *v,
            LV::Y => st.y = *v,
            _ => {}
        }
        // the second operand / comparison partner at a boundary too
        st.vals[1][0] = [0, 1, 127, 128, 255, 3][i % 6];
        st.vals[4][0] = [0, 1, 0x100, 0x101, 0xffff, 0x00ff][i % 6];
        st.vals[0][0] = if matches!(target, LV::Var(0)) { st.vals[0][0] } else { [0, 1, 2, 3][i % 4] };
        extra.push(st);
    }
    let mut r = judge_pair_ex(kind, idx, rk, &pa, &pb, "C15core", 1, &extra);
    r.count("enumerated core pairs", 1);
    r
}

fn pair_case(kind: &str, idx: u64) -> CaseResult {
    // the rewrite kind rotates with the index; the base program is drawn until it has a site
    let rk = KINDS[(idx % KINDS.len() as u64) as usize];
    let mut rng = Rng::for_case("C15-site", idx);
    for attempt in 0..6u64 {
        let p = gen_program("C15", idx.wrapping_mul(8).wrapping_add(attempt), &cfg_c15());
        if let Some((a, b, n)) = rewrite(&p, rk, rng.next()) {
            return judge_pair(kind, idx, rk, &a, &b, "C15", n);
        }
    }
    let mut r = CaseResult::new(&format!("no site for: {}", rk.name()), idx);
    r.count("cases without a rewrite site", 1);
    r
}

// ------------------------------------------------------------------ pinned pairs

pub struct PairPin {
    pub name: &'static str,
    pub a: &'static str,
    pub b: &'static str,
    pub init: &'static [(&'static str, i64)],
    pub watch: &'static [&'static str],
}

pub fn c15_pins() -> Vec<PairPin> {
    vec![
        PairPin {
            name: "wide_mirror",
            a: "unsigned short s, t; unsigned char r; void main() { r = 0; if (t >= s) r = 1; }",
            b: "unsigned short s, t; unsigned char r; void main() { r = 0; if (s <= t) r = 1; }",
            init: &[("s", 0), ("t", 0xffff)],
            watch: &["r"],
        },
        PairPin {
            name: "mirror_register_right",
            a: "unsigned char a[8]; unsigned char r; void main() { Y = 3; r = Y < a[Y]; }",
            b: "unsigned char a[8]; unsigned char r; void main() { Y = 3; r = a[Y] > Y; }",
            init: &[],
            watch: &["r"],
        },
        PairPin {
            name: "wide_shift_assign",
            a: "unsigned short s; void main() { s <<= 5; }",
            b: "unsigned short s; void main() { s = s << 5; }",
            init: &[("s", 0x0123)],
            watch: &["s"],
        },
        PairPin {
            name: "nested_if_else_chain",
            a: "unsigned char a, b, r; void main() { r = 0; if (a >= 105) { if (b == 3) r = 1; else r = 2; } else r = 3; }",
            b: "unsigned char a, b, r; void main() { r = 0; if (a >= 105) if (b == 3) r = 1; else r = 2; else r = 3; }",
            init: &[("a", 16), ("b", 3)],
            watch: &["r"],
        },
        PairPin {
            name: "empty_then_branch",
            a: "unsigned char a, r; void main() { r = 0; if (a == 3) r = 1; else r = 2; }",
            b: "unsigned char a, r; void main() { r = 0; if (!(a == 3)) r = 2; else r = 1; }",
            init: &[("a", 3)],
            watch: &["r"],
        },
    ]
}

fn pin_case(idx: u64) -> CaseResult {
    let pin = &c15_pins()[idx as usize];
    let mut res = CaseResult::new("pinned pair: held", crate::util::hash_str(pin.a));
    res.nontrivial = true;
    for lvl in [0u8, 1, 2, 3] {
        let ra = pins::run_source(pin.a, &Opts::o(lvl), pin.init, 2, 1);
        let rb = pins::run_source(pin.b, &Opts::o(lvl), pin.init, 2, 1);
        if ra.outcome != "Ok" || rb.outcome != "Ok" {
            res.class = format!("pinned pair: a spelling is rejected ({} / {})", norm_msg(&ra.outcome), norm_msg(&rb.outcome));
            continue;
        }
        res.count("comparisons", 1);
        for w in pin.watch {
            let va = ra.values.iter().find(|v| v.0 == *w).map(|v| v.1);
            let vb = rb.values.iter().find(|v| v.0 == *w).map(|v| v.1);
            if va != vb {
                res.class = "pinned pair: violated".into();
                res.violate(
                    &format!("pin:{}", pin.name),
                    &format!("C15 pinned pair '{}' at -O{}: {} = {:?} in the first spelling, {:?} in the second\n--- first\n{}\n--- second\n{}", pin.name, lvl, w, va, vb, pin.a, pin.b),
                    json!({"kind": "pin", "idx": idx, "name": pin.name, "opt": lvl, "first": pin.a, "second": pin.b, "listing_first": ra.listing, "listing_second": rb.listing}),
                );
                return res;
            }
        }
    }
    res
}

impl Monitor for C15 {
    fn id(&self) -> &'static str {
        "C15"
    }
    fn level(&self) -> &'static str {
        "exploration"
    }
    fn rule(&self) -> String {
        "metamorphic co-execution: a generated program (C01's judged domain) is rewritten at one site by one of 11 transformations (commute + & | ^; \
         x op= e <-> x = x op e; ++x / x++ / --x in value-discarding position <-> x += 1 / x -= 1; if (c) A else B -> if (!c) B else A, also without else; \
         a < b -> b > a for all four relational operators; for -> while (bodies without continue) and while -> for; switch whose arms all end in break -> \
         if / else-if chain; arr[k] -> arr[R] after 'R = k;' (both spellings get the assignment); call statement or 'l = f(args)' -> the callee's body in place \
         with fresh locals for its parameters and locals). Both spellings are compiled, assembled and run from the same 4 inputs at -O0 and -O1 (-O2/-O3 on a \
         fifth); their final states (globals, X, Y) must be equal. A vector is judged only when the reference interpreter finds both spellings defined and \
         equal. Enumerated core: 4 targets x 16 statement forms x 6 tests of what was written, plus 38 hand-written pairs (for / while, call versus body, negated short-circuit conditions with a test of an operand in the else part, comparisons as local initialisers). non-trivial = the two spellings compile to different code"
            .into()
    }
    fn assumptions(&self) -> Vec<String> {
        vec![
            "a rewritten spelling the compiler refuses ('too complex') is counted, not judged: the property is about final states".into(),
            "rewrites are not applied where the other spelling belongs to a family recorded as a C01 known finding: 16-bit operands of relational \
             operators (pinned pair wide_mirror) and a bare X / Y mirrored to the right of an indexed operand (pinned pair mirror_register_right)"
                .into(),
        ]
    }
    fn plan(&self, tier: &Tier, seed: u64) -> Vec<Chunk> {
        let np = c15_pins().len() as u64;
        let mut v = split_chunks("pin", 0, np, np, 1);
        let n = match tier {
            Tier::Quick => 60_000,
            Tier::Thorough => 600_000,
        };
        v.extend(split_chunks("core", 0, core_len(), core_len(), 20));
        v.extend(split_chunks("pair", seed_offset(seed, "C15p", 600_000), n, 600_000, 150));
        v
    }
    fn run_case(&self, kind: &str, idx: u64) -> CaseResult {
        match kind {
            "pin" => pin_case(idx),
            "core" => core_case(kind, idx),
            _ => pair_case(kind, idx),
        }
    }
    fn thresholds(&self, _tier: &Tier) -> Vec<(String, u64)> {
        let mut v = vec![("distinct_nontrivial".to_string(), 3000), ("set:rewrite kinds judged".to_string(), 11)];
        for k in KINDS.iter() {
            v.push((format!("comparisons: {}", k.name()), 300));
        }
        v
    }
}
