// C14: inlining is transparent.
// Differential co-execution monitor: the same program with no function marked inline is the
// oracle for every variant with a subset of its functions marked inline.

use crate::cgen::*;
use crate::cmodel::*;
use crate::common::*;
use crate::driver::*;
use crate::emu6502::Stop;
use crate::exec::*;
use crate::framework::*;
use crate::mon_c01::cfg_c01;
use serde_json::json;

pub struct C14;

fn count_inline_labels(obs: &Obs) -> (u64, u64) {
    // (expansions, max nesting depth) from the label suffixes in the emitted text
    let mut n = 0;
    let mut depth = 0;
    for f in &obs.funcs {
        if let Some(t) = &f.text {
            for l in t.lines() {
                if l.starts_with(".endofinline") {
                    n += 1;
                    let d = l.matches("inline").count() as u64;
                    depth = depth.max(d);
                }
            }
        }
    }
    (n, depth)
}

pub fn judge_pub(kind: &str, idx: u64, base: &Program, tag: &str) -> CaseResult {
    judge(kind, idx, base, tag)
}

fn judge(kind: &str, idx: u64, base: &Program, tag: &str) -> CaseResult {
    let mut p0 = base.clone();
    let eligible: Vec<usize> = (0..p0.funcs.len()).filter(|i| p0.funcs[*i].name != "main" && !p0.funcs[*i].interrupt).collect();
    for f in p0.funcs.iter_mut() {
        f.inline = false;
    }
    let src0 = print_program(&p0);
    let mut res = CaseResult::new("", crate::util::hash_str(&src0));
    if eligible.is_empty() {
        res.class = "no function eligible for inlining".into();
        return res;
    }
    let (obs0, b0) = match prepare(&src0, &Opts::o(1)) {
        Prep::Ready(o, b) => (o, b),
        Prep::Skip(c) => {
            res.class = format!("out-of-line version: {}", c);
            return res;
        }
    };
    // reference runs of the out-of-line program
    let mut inputs = Vec::new();
    for k in 0..5u64 {
        let input = gen_input(&p0, tag, idx, k);
        if let Ok((_, _, steps)) = reference_defined(&p0, &input, 20_000) {
            let r = run_compiled(&p0, &b0, &input, cycle_budget(steps) * 4, &|_m| {});
            if r.stop == Stop::Budget {
                // the oracle run itself did not finish within its budget: nothing to compare with
                res.count("vectors dropped: out-of-line run exceeded its cycle budget", 1);
                continue;
            }
            inputs.push((k, input, r));
        }
    }
    if inputs.is_empty() {
        res.class = "no input vector in the defined domain".into();
        return res;
    }
    let _ = obs0;
    let nsub = 1u64 << eligible.len().min(4);
    let mut compared = 0;
    for mask in 1..nsub {
        let mut p = p0.clone();
        let mut names = Vec::new();
        for (bit, fi) in eligible.iter().take(4).enumerate() {
            if mask & (1 << bit) != 0 {
                p.funcs[*fi].inline = true;
                names.push(p.funcs[*fi].name.clone());
            }
        }
        let src = print_program(&p);
        let (obs, b) = match prepare(&src, &Opts::o(1)) {
            Prep::Ready(o, b) => (o, b),
            Prep::Skip(c) => {
                res.count(&format!("inline variants skipped: {}", crate::util::trunc(&c, 60)), 1);
                continue;
            }
        };
        let (nexp, depth) = count_inline_labels(&obs);
        res.count("inline expansions observed", nexp);
        res.set("inline nesting depth", &format!("{}", depth));
        res.set("subset sizes", &format!("{}", names.len()));
        for (k, input, r0) in &inputs {
            let r1 = run_compiled(&p, &b, input, r0.cycles * 10 + 20_000, &|_m| {});
            res.count("comparisons", 1);
            compared += 1;
            let why = match (&r0.stop, &r1.stop) {
                (Stop::Halt, Stop::Halt) => diff_states(&p, &r0.state, &r1.state, true).map(|d| format!("final state differs (out-of-line vs inline): {}", d)),
                (a, b) if std::mem::discriminant(a) == std::mem::discriminant(b) => None,
                (a, b) => Some(format!("out-of-line: {} / inline: {}", stop_str(a), stop_str(b))),
            };
            if let Some(w) = why {
                res.class = "inlining changed the behaviour".into();
                res.violate(
                    &format!("C14:{}:{}", kind, idx),
                    &format!("C14 input #{}: with {:?} marked inline: {}\n--- source (inline variant)\n{}", k, names, w, src),
                    json!({"kind": kind, "idx": idx, "inline": names, "vector": k, "why": w, "source": src, "listing": listing(&obs), "input": state_brief(&p, input)}),
                );
                return res;
            }
        }
        if nexp > 0 {
            res.nontrivial = true;
        }
    }
    res.class = if compared > 0 { "every inline subset behaves like the out-of-line program".into() } else { "no inline variant accepted".into() };
    if idx % 499 == 0 {
        res.sample = Some(json!({"kind": kind, "idx": idx, "source": src0, "eligible": eligible.len()}));
    }
    res
}

impl Monitor for C14 {
    fn id(&self) -> &'static str {
        "C14"
    }
    fn level(&self) -> &'static str {
        "exploration"
    }
    fn rule(&self) -> String {
        "programs from the label-stress profile (1-5 call sites per function, inline inside inline, loops / switch / goto / early returns in bodies, \
         return values used inside larger expressions) and from the random pool; the version with no inline keyword is compiled and run from 5 input \
         vectors (defined behaviour checked by the reference interpreter), then every non-empty subset of up to 4 eligible functions is marked inline \
         and co-executed: all globals, X and Y must be equal. Subsets the compiler refuses are counted. A third of the label-stress programs have a register context (X / Y loaded with a constant before the call, stepped and tested by the body), a third an accumulator context (the caller compares a variable, the body copies and tests it). non-trivial = at least one expansion \
         (.endofinline label) was present in a compared variant"
            .into()
    }
    fn assumptions(&self) -> Vec<String> {
        vec!["oracle = the out-of-line version of the same program; trusted base asm6502, emu6502".into()]
    }
    fn plan(&self, tier: &Tier, seed: u64) -> Vec<Chunk> {
        let (ns, nr) = match tier {
            Tier::Quick => (16_000, 12_000),
            Tier::Thorough => (100_000, 300_000),
        };
        let mut v = split_chunks("stress", seed_offset(seed, "C14s", 100_000), ns, 100_000, 100);
        v.extend(split_chunks("rand", seed_offset(seed, "C14r", 300_000), nr, 300_000, 100));
        v
    }
    fn run_case(&self, kind: &str, idx: u64) -> CaseResult {
        if kind == "stress" {
            // signed relational operators are judged here too: the oracle is the out-of-line
            // version of the same program, so what they compute does not matter, and their BMI / BPL
            // branches are part of what inlining has to rename
            let p = stress_program(idx, &GenCfg { excl_signed_relational: idx % 2 == 0, ..cfg_c01() });
            judge(kind, idx, &p, "C14s")
        } else {
            let p = gen_program("C01", idx, &GenCfg { excl_signed_relational: idx % 2 == 0, ..cfg_c01() });
            judge(kind, idx, &p, "C14r")
        }
    }
    fn thresholds(&self, _tier: &Tier) -> Vec<(String, u64)> {
        vec![
            ("distinct_nontrivial".into(), 1500),
            ("inline expansions observed".into(), 5000),
            ("set:inline nesting depth".into(), 3),
            ("set:subset sizes".into(), 3),
        ]
    }
}
