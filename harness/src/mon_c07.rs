// C07: conditional compilation keeps exactly the active text.
// Reference-evaluator monitor: a directive tree is generated together with its meaning
// (which regions are selected under ISO C rules); marker declarations, probe macros, marker
// headers and #error lines placed in every region show what the real preprocessor kept.

use crate::driver::*;
use crate::framework::*;
use crate::util::*;
use serde_json::json;
use std::collections::BTreeSet;

pub struct C07;

pub const INC_DIR: &str = "/verif/work/c07inc";

pub fn ensure_headers() {
    let _ = std::fs::create_dir_all(INC_DIR);
    for i in 0..12 {
        let p = format!("{}/mk{}.h", INC_DIR, i);
        if !std::path::Path::new(&p).exists() {
            let _ = std::fs::write(&p, format!("char h_{};\n", i));
        }
    }
}

struct Builder {
    lines: Vec<String>,
    expect: BTreeSet<String>,
    all_markers: BTreeSet<String>,
    next_id: usize,
    next_hdr: usize,
    /// first active #error: (line number 1-based)
    error_line: Option<u32>,
    probes: Vec<(String, bool)>, // (macro name, expected defined at the end)
    undef_targets: Vec<(String, bool)>,
    rng: Rng,
    spell: u64,
    states_seen: BTreeSet<String>,
    max_depth: usize,
}

impl Builder {
    fn cond_text(&mut self, t: bool) -> String {
        self.spell = self.spell.wrapping_mul(6364136223846793005).wrapping_add(1442695040888963407);
        let k = (self.spell >> 33) % 14;
        let (one, zero) = ("T1", "T0");
        match (k, t) {
            (0, true) => "1".into(),
            (0, false) => "0".into(),
            (1, true) => one.into(),
            (1, false) => zero.into(),
            (2, true) => format!("!{}", zero),
            (2, false) => format!("!{}", one),
            (3, true) => format!("{} == 1", one),
            (3, false) => format!("{} == 0", one),
            (4, true) => format!("{} == {}", zero, zero),
            (4, false) => format!("{} == {}", zero, one),
            (5, true) => "!!1".into(),
            (5, false) => "!!0".into(),
            (6, true) => "D1".into(),  // defined by -D with value 1
            (6, false) => "D0".into(), // defined by -D with value 0
            (7, true) => format!("!{} == 1", zero), // (!T0) == 1
            (7, false) => format!("!{} == 1", one),
            (8, true) => "0 == 0".into(),
            (8, false) => "1 == 0".into(),
            // values other than 0 and 1: any non-zero value holds, == compares values
            (10, true) => "T2".into(),
            (10, false) => "!T2".into(),
            (11, true) => "T2 == 2".into(),
            (11, false) => "T2 == 3".into(),
            (12, true) => "2".into(),
            (12, false) => "T2 == T3".into(),
            (13, true) => "!T2 == 0".into(),
            (13, false) => "!T2 == 1".into(),
            (_, true) => format!("{} == D1", one),
            (_, false) => format!("{} == D0", one),
        }
    }

}

pub struct Case {
    pub src: String,
    pub expect: BTreeSet<String>,
    pub all_markers: BTreeSet<String>,
    pub error_line: Option<u32>,
    pub states: BTreeSet<String>,
    pub defines: Vec<String>,
}

fn finish(mut b: Builder, prelude_lines: usize) -> Case {
    // probes: visible through later #ifdef markers
    let probes = b.probes.clone();
    for (name, defined) in probes {
        b.lines.push(format!("#ifdef {}", name));
        let m = format!("p_{}", name);
        b.lines.push(format!("char {};", m));
        b.lines.push("#endif".into());
        b.all_markers.insert(m.clone());
        if defined {
            b.expect.insert(m);
        }
    }
    let undefs = b.undef_targets.clone();
    for (name, undefined) in undefs {
        b.lines.push(format!("#ifdef {}", name));
        let m = format!("alive_{}", name);
        b.lines.push(format!("char {};", m));
        b.lines.push("#endif".into());
        b.all_markers.insert(m.clone());
        if !undefined {
            b.expect.insert(m);
        }
    }
    b.lines.push("void main() { }".into());
    let _ = prelude_lines;
    Case {
        src: b.lines.join("\n") + "\n",
        expect: b.expect,
        all_markers: b.all_markers,
        error_line: b.error_line,
        states: b.states_seen,
        defines: vec!["D1=1".into(), "D0=0".into()],
    }
}

fn new_builder(tag: &str, idx: u64, max_depth: usize) -> Builder {
    let mut b = Builder {
        lines: vec![],
        expect: BTreeSet::new(),
        all_markers: BTreeSet::new(),
        next_id: 0,
        next_hdr: 0,
        error_line: None,
        probes: vec![],
        undef_targets: vec![],
        rng: Rng::for_case(tag, idx),
        spell: idx.wrapping_mul(0x9E3779B97F4A7C15) | 1,
        states_seen: BTreeSet::new(),
        max_depth,
    };
    b.lines.push("#define T1 1".into());
    b.lines.push("#define T0 0".into());
    b.lines.push("#define T2 2".into());
    b.lines.push("#define\tT3\t3".into());
    b.lines.push("#define DEF_EMPTY".into());
    b.lines.push("#define FMAC(a) (a)".into());
    for k in 0..4 {
        b.lines.push(format!("#define U{} 1", k));
    }
    b
}

/// enumerated core: every outer shape x truth assignment, with an inner group of every shape
/// and truth assignment placed in every outer region (depth 2), 4 condition spellings each
pub fn core_len() -> u64 {
    // outer 40 (5 shapes x 8 truths) x first-branch form 4 x inner (1 + 40) x inner position 4 = 26240
    40 * 4 * 41 * 4
}

pub fn core_case(idx: u64) -> Case {
    let outer = idx % 40;
    let form = (idx / 40) % 4;
    let inner = (idx / 160) % 41;
    let pos = (idx / (160 * 41)) % 4;
    let mut b = new_builder("C07core", idx, 2);
    let pl = b.lines.len();
    // inner group goes into the pos-th region visited: emulate by a budget consumed at that region
    let mut budget: Vec<u64> = Vec::new();
    let shape = outer + 40 * form;
    // place the inner group: region() pops one shape per region while available; to target the
    // pos-th region we push dummies (u64::MAX = "no group") before it
    if inner > 0 {
        budget.push(inner - 1);
        for _ in 0..pos {
            budget.push(u64::MAX);
        }
    }
    // wrap: region() treats u64::MAX as "skip"
    b.group_top(shape, &mut budget);
    finish(b, pl)
}

impl Builder {
    fn group_top(&mut self, shape: u64, budget: &mut Vec<u64>) {
        self.group_skipping(true, 1, shape, budget);
    }
    fn group_skipping(&mut self, enclosing: bool, depth: usize, shape: u64, budget: &mut Vec<u64>) {
        // same as group(), but a budget entry of u64::MAX means "no nested group in this region"
        let nb = match shape % 5 {
            0 => (1, false),
            1 => (1, true),
            2 => (2, false),
            3 => (2, true),
            _ => (3, true),
        };
        let truth = (shape / 5) % 8;
        let form = (shape / 40) % 4;
        let mut matched = false;
        let mut regions: Vec<(String, bool)> = Vec::new();
        for bi in 0..nb.0 {
            let t = (truth >> bi) & 1 == 1;
            // a condition that is never evaluated (the group sits in an unselected region, or an
            // earlier branch of the group was taken) may name macros that exist nowhere
            let unevaluated = !enclosing || (bi > 0 && matched);
            let blanks = ["", " ", "  "][(self.rng.below(6) % 3) as usize]; // extra blanks after the keyword
            let defined_name = if self.rng.chance(1, 3) { "FMAC" } else { "DEF_EMPTY" };
            let head = if unevaluated && self.rng.chance(1, 3) {
                if bi == 0 {
                    format!("#if {}NOWHERE_{} == 1", blanks, self.next_id)
                } else {
                    format!("#elif {}NOWHERE_{}", blanks, self.next_id)
                }
            } else if bi == 0 {
                match form {
                    1 => format!("#ifdef {}{}", blanks, if t { defined_name } else { "NEVER_DEFINED" }),
                    2 => format!("#ifndef {}{}", blanks, if t { "NEVER_DEFINED" } else { defined_name }),
                    _ => format!("#if {}{}", blanks, self.cond_text(t)),
                }
            } else {
                format!("#elif {}{}", blanks, self.cond_text(t))
            };
            let selected = enclosing && !matched && t;
            if t {
                matched = true;
            }
            regions.push((head, selected));
        }
        if nb.1 {
            regions.push(("#else".into(), enclosing && !matched));
        }
        for (head, selected) in regions {
            self.lines.push(head);
            self.region_skipping(selected, depth, budget);
        }
        self.lines.push("#endif".into());
    }
    fn region_skipping(&mut self, active: bool, depth: usize, budget: &mut Vec<u64>) {
        let id = self.next_id;
        self.next_id += 1;
        let m = format!("m_{}", id);
        self.lines.push(format!("char {};", m));
        self.all_markers.insert(m.clone());
        if active {
            self.expect.insert(m);
        }
        self.states_seen.insert(format!("depth {} {}", depth, if active { "selected" } else { "not selected" }));
        let r = self.rng.below(10);
        if r < 3 {
            let name = format!("PROBE_{}", id);
            self.lines.push(format!("#define {} 1", name));
            self.probes.push((name, active));
        } else if r < 5 && !self.undef_targets.iter().any(|u| u.0 == format!("U{}", id % 4)) {
            let name = format!("U{}", id % 4);
            self.lines.push(format!("#undef {}", name));
            self.undef_targets.push((name, active));
        } else if r == 5 && self.next_hdr < 12 {
            let h = self.next_hdr;
            self.next_hdr += 1;
            self.lines.push(format!("#include \"mk{}.h\"", h));
            self.all_markers.insert(format!("h_{}", h));
            if active {
                self.expect.insert(format!("h_{}", h));
            }
        } else if r == 8 {
            // text that would open a comment if it were not inside a string literal
            let t = ["/*", "src/*.c", "a /* b", "//*"][(id % 4) as usize];
            self.lines.push(format!("const char sx_{}[] = \"{}\";", id, t));
        } else if r == 6 && !active {
            self.lines.push("#error must not fire".into());
        } else if r == 7 && active && self.rng.chance(1, 6) {
            self.lines.push("#error expected".into());
            if self.error_line.is_none() {
                self.error_line = Some(self.lines.len() as u32);
            }
        }
        if depth < self.max_depth {
            if let Some(s) = budget.pop() {
                if s != u64::MAX {
                    self.group_skipping(active, depth + 1, s, budget);
                }
            }
        }
    }
}

/// random trees: up to depth 6, sequences of several groups
pub fn random_case(idx: u64) -> Case {
    let mut b = new_builder("C07rand", idx, 6);
    let pl = b.lines.len();
    if b.rng.chance(1, 20) {
        // more than 100 macros (the macro tables are chunked by 100), then a macro that is
        // #undef'd and defined again with another value and tested
        let nf = b.rng.range(97, 130);
        for i in 0..nf {
            b.lines.push(format!("#define FILL{} {}", i, i));
        }
        let (old, new) = if b.rng.chance(1, 2) { (0, 1) } else { (1, 0) };
        b.lines.push(format!("#define MODE {}", old));
        b.lines.push("#undef MODE".into());
        b.lines.push(format!("#define MODE {}", new));
        b.lines.push("#if MODE".into());
        b.lines.push("char m_mode_set;".into());
        b.lines.push("#else".into());
        b.lines.push("char m_mode_clear;".into());
        b.lines.push("#endif".into());
        b.all_markers.insert("m_mode_set".into());
        b.all_markers.insert("m_mode_clear".into());
        b.expect.insert(if new == 1 { "m_mode_set".into() } else { "m_mode_clear".into() });
        b.states_seen.insert("more than 100 macros".into());
    }
    let ng = b.rng.range(1, 4);
    for _ in 0..ng {
        let mut budget: Vec<u64> = Vec::new();
        let n = b.rng.range(0, 7);
        for _ in 0..n {
            let s = if b.rng.chance(1, 4) { u64::MAX } else { b.rng.below(160) };
            budget.push(s);
        }
        let shape = b.rng.below(160);
        b.group_skipping(true, 1, shape, &mut budget);
        // text between groups
        let id = b.next_id;
        b.next_id += 1;
        b.lines.push(format!("char m_{};", id));
        b.all_markers.insert(format!("m_{}", id));
        b.expect.insert(format!("m_{}", id));
    }
    finish(b, pl)
}

fn judge(kind: &str, idx: u64, c: &Case) -> CaseResult {
    ensure_headers();
    let mut res = CaseResult::new("", hash_str(&c.src));
    let mut opts = Opts::default();
    opts.defines = c.defines.clone();
    opts.include_dirs = vec![INC_DIR.to_string()];
    let out = compile_src(&c.src, &opts);
    res.nontrivial = true;
    for s in &c.states {
        res.set("region states by depth", s);
    }
    res.count("regions", c.all_markers.len() as u64);
    res.count("comparisons", 1);
    let mut viol = |res: &mut CaseResult, why: String| {
        res.class = "violated".into();
        res.violate(
            &format!("C07:{}:{}", kind, idx),
            &format!("C07: {}\n--- source\n{}", why, c.src),
            json!({"kind": kind, "idx": idx, "source": c.src, "why": why, "defines": c.defines}),
        );
    };
    match (&out, c.error_line) {
        (Outcome::Ok(obs), None) => {
            let got: BTreeSet<String> = obs.vars.iter().map(|v| v.name.clone()).filter(|n| c.all_markers.contains(n)).collect();
            if got != c.expect {
                let missing: Vec<&String> = c.expect.difference(&got).collect();
                let extra: Vec<&String> = got.difference(&c.expect).collect();
                viol(&mut res, format!("kept text differs: missing markers {:?}, unexpected markers {:?}", missing, extra));
            } else {
                res.class = "Ok: exactly the selected regions reached the compiler".into();
            }
        }
        (Outcome::Err(e), Some(line)) => {
            if e.kind == "Compiler" && e.msg == "expected" && e.line == line {
                res.class = "Err: the #error of the first selected region fired, at its line".into();
                res.count("#error observed in a selected region", 1);
            } else {
                viol(&mut res, format!("expected the #error on line {} to fire, got {:?}", line, e));
            }
        }
        (Outcome::Ok(_), Some(line)) => viol(&mut res, format!("the #error on line {} is in a selected region but compilation succeeded", line)),
        (other, None) => viol(&mut res, format!("unexpected outcome {}", other.short())),
        (other, Some(_)) => viol(&mut res, format!("unexpected outcome {}", other.short())),
    }
    if idx % 997 == 0 {
        res.sample = Some(json!({"kind": kind, "idx": idx, "source": c.src, "expected_markers": c.expect, "class": res.class}));
    }
    res
}

impl Monitor for C07 {
    fn id(&self) -> &'static str {
        "C07"
    }
    fn level(&self) -> &'static str {
        "exploration"
    }
    fn rule(&self) -> String {
        "generated directive trees with their ISO meaning; every region holds a marker declaration and possibly a #define probe, an #undef of a \
         macro defined at the top, an #include of a marker header, or an #error. Conditions stay inside the property's domain: literal 0/1, macros \
         valued 0/1 defined in the source or by -D, defined-but-empty / undefined macros for #ifdef/#ifndef, ! and ==, in 14 spellings (values 0, 1, 2, 3: any non-zero value holds, == compares values). Enumerated core \
         (exhaustive): every group shape (if | if-else | if-elif | if-elif-else | if-elif-elif-else) x every truth assignment x first-branch form \
         (#if, #ifdef, #ifndef) with an inner group of every shape and truth assignment nested in each of the first four regions. Random pool: \
         sequences of 1-4 groups nested to depth 6. Observed: marker names among CompilerState's variables; the Err and line of #error. \
         Regions also hold string literals with comment openers; some cases define 97-130 filler macros before a macro that is #undef-ed, redefined and tested. \
         non-trivial = every case"
            .into()
    }
    fn assumptions(&self) -> Vec<String> {
        vec!["condition values other than 0/1 are outside the property's domain and are not generated".into()]
    }
    fn plan(&self, tier: &Tier, seed: u64) -> Vec<Chunk> {
        let nc = core_len();
        let mut v = split_chunks("core", 0, nc, nc, 400);
        let nr = match tier {
            Tier::Quick => 60_000,
            Tier::Thorough => 600_000,
        };
        v.extend(split_chunks("rand", seed_offset(seed, "C07r", 600_000), nr, 600_000, 400));
        v
    }
    fn run_case(&self, kind: &str, idx: u64) -> CaseResult {
        let c = if kind == "core" { core_case(idx) } else { random_case(idx) };
        judge(kind, idx, &c)
    }
    fn thresholds(&self, _tier: &Tier) -> Vec<(String, u64)> {
        vec![
            ("distinct_nontrivial".into(), 20000),
            ("set:region states by depth".into(), 8),
            ("#error observed in a selected region".into(), 50),
        ]
    }
    fn exhaustive(&self, _tier: &Tier) -> bool {
        false
    }
}
