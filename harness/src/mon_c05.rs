// C05: output is a deterministic function of source and options.
// Seed / history perturbation monitor: the same case is compiled on freshly spawned threads
// (std seeds RandomState per thread), in fresh processes (diagnostics on stdout captured too),
// and after unrelated compilations in the same thread; everything observable must be
// byte-identical.  (A Miri run with -Zmiri-many-seeds replays hash seeds deterministically in
// the thorough tier: see /verif/harness/miri_c05.)

use crate::cmodel::print_program;
use crate::corpus::*;
use crate::driver::*;
use crate::framework::*;
use crate::util::*;
use serde_json::json;
use std::io::Write;
use std::process::{Command, Stdio};

pub struct C05;

const WORDS: &[&str] = &["hello", "world", "abc", "x", "score", "GAME OVER", "a b", "0123", "zz top", "q"];

/// sources built as text: several string literals per expression and per call, literal tables,
/// many globals/locals, prototypes (re)declared and defined in shuffled orders, interrupt
/// handlers, unused functions, warning- and error-producing lines
pub fn det_source(idx: u64) -> String {
    let mut rng = Rng::for_case("C05src", idx);
    let mut s = String::new();
    let ng = rng.range(2, 12);
    for i in 0..ng {
        match rng.below(4) {
            0 => s.push_str(&format!("unsigned char v{};\n", i)),
            1 => s.push_str(&format!("short w{};\n", i)),
            2 => s.push_str(&format!("unsigned char t{}[{}];\n", i, rng.range(2, 6))),
            _ => s.push_str(&format!("const char k{} = {};\n", i, rng.below(200))),
        }
    }
    s.push_str("unsigned char a, b;\nchar *p; char *q;\n");
    // function-like macros whose NAME is shared by all bait sources while the parameter list
    // differs from one source to the next (a cache keyed by the name alone would go stale)
    match idx % 3 {
        0 => s.push_str("#define SUB(x, y) ((x) - (y))\n#define PICK(m) (m + 1)\n"),
        1 => s.push_str("#define SUB(y, x) ((x) - (y))\n#define PICK(m, n) (n)\n"),
        _ => s.push_str("#define SUB(first, second, third) ((third) - (first))\n#define PICK(n) (n + 2)\n"),
    }
    // definitions from the command line, one depending on another (see the `det` case options)
    s.push_str("#ifdef AREA\nunsigned char tarea[AREA];\nconst char karea = AREA + W;\n#endif\n");
    let nt = rng.range(0, 2);
    for i in 0..nt {
        let n = rng.range(2, 5);
        let items: Vec<String> = (0..n).map(|_| format!("\"{}\"", rng.pick(WORDS))).collect();
        s.push_str(&format!("const char *tbl{}[{}] = {{{}}};\n", i, n, items.join(", ")));
    }
    if rng.chance(1, 2) {
        s.push_str(&format!("const char msg[] = \"{}\";\n", rng.pick(WORDS)));
    }
    s.push_str("void pr1(char *x) { p = x; }\nvoid pr2(char *x, char *y) { p = x; q = y; }\nvoid pr3(char *x, char *y, char *z) { p = x; q = z; p = y; }\nchar pk2(char *x, char *y) { p = x; q = y; return 3; }\nchar pk4(char *w, char *x, char *y, char *z) { p = w; q = z; p = x; q = y; return 5; }\n");
    // functions f0..fn-1 : prototypes in a shuffled order, definitions in another
    let nf = rng.range(2, 7) as usize;
    let mut order: Vec<usize> = (0..nf).collect();
    let shuffle = |v: &mut Vec<usize>, rng: &mut Rng| {
        for i in (1..v.len()).rev() {
            let j = rng.below(i as u64 + 1) as usize;
            v.swap(i, j);
        }
    };
    shuffle(&mut order, &mut rng);
    // parameter lists (a prototype followed by its definition declares the parameter cells twice)
    let nparams: Vec<usize> = (0..nf).map(|_| rng.below(3) as usize).collect();
    let sig = |f: usize| -> String {
        match nparams[f] {
            0 => String::new(),
            1 => "unsigned char u".to_string(),
            _ => "unsigned char u, char *w".to_string(),
        }
    };
    let call = |f: usize| -> String {
        match nparams[f] {
            0 => format!("f{}()", f),
            1 => format!("f{}(7)", f),
            _ => format!("f{}(7, \"{}\")", f, WORDS[f % WORDS.len()]),
        }
    };
    let nproto = rng.below(nf as u64 + 1) as usize;
    for f in order.iter().take(nproto) {
        s.push_str(&format!("void f{}({});\n", f, sig(*f)));
        if rng.chance(1, 5) {
            s.push_str(&format!("void f{}({});\n", f, sig(*f))); // redeclared
        }
    }
    let two_handlers = rng.chance(1, 3);
    if rng.chance(1, 3) || two_handlers {
        s.push_str("void interrupt nmi() { a++; }\n");
    }
    if two_handlers {
        // a second handler with a callee nothing else reaches
        s.push_str("void only_from_irq() { b++; }\nvoid interrupt irq() { only_from_irq(); }\n");
    }
    let mut deforder: Vec<usize> = (0..nf).collect();
    shuffle(&mut deforder, &mut rng);
    let lit = |rng: &mut Rng| format!("\"{}\"", rng.pick(WORDS));
    for (k, f) in deforder.iter().enumerate() {
        s.push_str(&format!("void f{}({}) {{\n", f, sig(*f)));
        let nl = rng.range(0, 3);
        for l in 0..nl {
            let val = rng.below(100);
            // every fifth source: the initialiser of a local holds several string literals (they are
            // collected by a path of their own, parse_expr_init_value)
            match (idx % 5, l) {
                (2, 0) => s.push_str(&format!("  unsigned char l{} = pk2(\"{}\", \"{}\") + {};\n", l, WORDS[(idx as usize + 1) % WORDS.len()], WORDS[(idx as usize / 5 + 3) % WORDS.len()], val)),
                (2, _) => s.push_str(&format!(
                    "  unsigned char l{} = pk4(\"{}\", \"{}\", \"q{}\", \"z{}\");\n",
                    l,
                    WORDS[(idx as usize + 2) % WORDS.len()],
                    WORDS[(idx as usize / 7 + 5) % WORDS.len()],
                    val,
                    idx % 13
                )),
                _ => s.push_str(&format!("  unsigned char l{} = {};\n", l, val)),
            }
        }
        let ns = rng.range(1, 4);
        for _ in 0..ns {
            match rng.below(8) {
                0 => s.push_str(&format!("  pr1({});\n", lit(&mut rng))),
                1 => s.push_str(&format!("  pr2({}, {});\n", lit(&mut rng), lit(&mut rng))),
                2 => s.push_str(&format!("  pr3({}, {}, {});\n", lit(&mut rng), lit(&mut rng), lit(&mut rng))),
                3 => s.push_str(&format!("  p = {}; q = {};\n", lit(&mut rng), lit(&mut rng))),
                4 => s.push_str(&format!("  p = {}, q = {};\n", lit(&mut rng), lit(&mut rng))),
                5 => s.push_str("  a = 300;\n"), // warning: constant does not fit
                6 => {
                    // call an already *defined or declared* function
                    let callee = deforder[rng.below(k as u64 + 1) as usize];
                    if callee != *f && (deforder[..k].contains(&callee) || order[..nproto].contains(&callee)) {
                        s.push_str(&format!("  {};\n", call(callee)));
                    } else {
                        s.push_str("  b = a + 1;\n");
                    }
                }
                _ => s.push_str("  a = b;\n"),
            }
        }
        s.push_str("}\n");
    }
    s.push_str("void main() {\n");
    match idx % 3 {
        0 => s.push_str("  a = SUB(9, 2) + PICK(4);\n"),
        1 => s.push_str("  a = SUB(2, 9) + PICK(7, 5);\n"),
        _ => s.push_str("  a = SUB(2, 0, 9) + PICK(3);\n"),
    }
    for f in 0..nf {
        if rng.chance(2, 3) {
            s.push_str(&format!("  {};\n", call(f)));
        }
    }
    s.push_str(&format!("  pr2({}, {});\n", lit(&mut rng), lit(&mut rng)));
    if idx % 6 == 5 {
        s.push_str("  a = undeclared_thing;\n"); // error-producing source
    }
    if idx % 7 == 4 {
        // several errors of one kind in one function: the one that is reported must not depend on hashing
        s.push_str("  if (a) goto nowhere1;\n  if (b) goto nowhere2;\n  goto nowhere3;\n");
    }
    if idx % 9 == 8 {
        s.push_str("  b = undeclared_one + undeclared_two;\n");
    }
    if idx % 11 == 3 {
        s.push_str("  X = t0[a + b + a + b];\n"); // may be refused: an error is an outcome too
    }
    s.push_str("}\n");
    s
}

pub fn fingerprint(src: &str, opts: &Opts) -> String {
    // process state a compilation must leave alone: the working directory
    let cwd_before = std::env::current_dir().ok();
    let (o, bytes) = compile_raw(src.as_bytes(), opts);
    let cwd_after = std::env::current_dir().ok();
    let mut moved = String::new();
    if cwd_before != cwd_after {
        moved = format!(" | cwd-moved to {:?}", cwd_after);
        if let Some(d) = &cwd_before {
            let _ = std::env::set_current_dir(d);
        }
    }
    let oc = match &o {
        Outcome::Ok(obs) => {
            let vars: Vec<&str> = obs.vars.iter().map(|v| v.name.as_str()).collect();
            let funcs: Vec<&str> = obs.funcs.iter().map(|f| f.name.as_str()).collect();
            // included assembler blocks, in the order the builder receives them
            let asm: Vec<String> = obs.asm_includes.iter().map(|a| format!("{:08x}", fnv(a.as_bytes()) as u32)).collect();
            format!("Ok vars={} funcs={} asm={}", vars.join(","), funcs.join(","), asm.join(","))
        }
        other => other.short(),
    };
    format!("{} | out={:016x}/{}{}", oc, fnv(&bytes), bytes.len(), moved)
}

struct NoLog;
impl log::Log for NoLog {
    fn enabled(&self, _m: &log::Metadata) -> bool {
        true
    }
    fn log(&self, r: &log::Record) {
        // format the message (what a real logger does), keep nothing
        let _ = format!("{}", r.args());
    }
    fn flush(&self) {}
}
static NOLOG: NoLog = NoLog;

/// multi-file determinism bait: headers in a sub-directory (one of them failing), and two or
/// three included assembler files
pub fn files_case(idx: u64) -> (String, Opts) {
    let mut rng = crate::util::Rng::for_case("C05files", idx);
    let dir = format!("/verif/work/c05inc/p{}", std::process::id());
    let _ = std::fs::create_dir_all(format!("{}/lib", dir));
    let _ = std::fs::write(format!("{}/lib/cfg.h", dir), "#define CFG 6\nunsigned char cfgv;\n");
    let _ = std::fs::write(format!("{}/lib/bad.h", dir), "unsigned char badv;\n#error bad header\n");
    let _ = std::fs::write(format!("{}/cfg.h", dir), "#define CFG 5\nunsigned char cfgv;\n");
    for k in 0..3 {
        let _ = std::fs::write(format!("{}/snd{}.inc", dir, k), format!("snd{}\n\tLDA #{}\n\tRTS\n", k, k + 1));
    }
    let mut s = String::new();
    let hdr = ["lib/cfg.h", "cfg.h", "lib/bad.h"][rng.below(if idx % 3 == 0 { 3 } else { 2 }) as usize];
    s.push_str(&format!("#include \"{}\"\n", hdr));
    let n = rng.range(2, 3);
    let mut order: Vec<u64> = vec![0, 1, 2];
    for i in 0..3 {
        let j = rng.below(3) as usize;
        order.swap(i, j);
    }
    for k in order.iter().take(n as usize) {
        s.push_str(&format!("#include \"snd{}.inc\"\n", k));
    }
    s.push_str("unsigned char r;\nvoid main() { r = CFG; cfgv = 1; }\n");
    let mut o = Opts::default();
    o.include_dirs = vec![dir];
    o.opt_level = (idx % 2) as u8;
    (s, o)
}

pub fn child_main(args: &[String]) {
    // vmon c05-child <opts-json> ; source on stdin ; stdout is left alone (warnings are data here)
    install_panic_hook();
    let opts: Opts = serde_json::from_str(&args[0]).unwrap();
    let mut src = String::new();
    use std::io::Read;
    std::io::stdin().read_to_string(&mut src).unwrap();
    let fp = fingerprint(&src, &opts);
    println!("@@FP {}", fp);
}

fn in_child(src: &str, opts: &Opts) -> Result<String, String> {
    let exe = std::env::current_exe().map_err(|e| e.to_string())?;
    let mut c = Command::new(exe)
        .arg("c05-child")
        .arg(serde_json::to_string(opts).unwrap())
        .stdin(Stdio::piped())
        .stdout(Stdio::piped())
        .stderr(Stdio::null())
        .spawn()
        .map_err(|e| e.to_string())?;
    c.stdin.take().unwrap().write_all(src.as_bytes()).map_err(|e| e.to_string())?;
    let out = c.wait_with_output().map_err(|e| e.to_string())?;
    Ok(String::from_utf8_lossy(&out.stdout).to_string())
}

pub const NTHREADS: usize = 24;
pub const NPROCS: usize = 6;

fn judge(kind: &str, idx: u64, src: &str, opts: &Opts, sig: Option<String>) -> CaseResult {
    let mut res = CaseResult::new("deterministic", hash_str(src) ^ hash_str(&format!("{:?}", opts.argv())));
    let base = fingerprint(src, opts);
    res.nontrivial = true;
    let nlit = src.matches('"').count() / 2;
    if nlit >= 2 {
        res.count("cases with >= 2 string literals", 1);
    }
    if src.contains("();\n") {
        res.count("cases with prototypes", 1);
    }
    res.set("outcome kinds", if base.starts_with("Ok") { "Ok" } else if base.starts_with("Err") { "Err" } else { "other" });
    let mut viol = |res: &mut CaseResult, how: String| {
        res.class = "non-deterministic".into();
        res.violate(
            &sig.clone().unwrap_or(format!("C05:{}:{}", kind, idx)),
            &format!("C05: {}\n--- source\n{}", how, src),
            json!({"kind": kind, "idx": idx, "source": src, "argv": opts.argv(), "why": how}),
        );
    };
    // (1) fresh hash seeds: one freshly spawned thread per compilation
    let mut handles = Vec::new();
    for _ in 0..NTHREADS {
        let s = src.to_string();
        let o = opts.clone();
        handles.push(std::thread::Builder::new().stack_size(8 << 20).spawn(move || fingerprint(&s, &o)).unwrap());
    }
    let mut diff = 0;
    let mut other = String::new();
    for h in handles {
        let fp = h.join().unwrap_or_else(|_| "thread panicked".into());
        res.count("comparisons", 1);
        res.count("fresh-thread compilations", 1);
        if fp != base {
            diff += 1;
            other = fp;
        }
    }
    if base.contains("cwd-moved") {
        viol(&mut res, format!("the compilation changed the working directory of the process: {}", base));
        return res;
    }
    if diff > 0 {
        viol(&mut res, format!("differs in {} of {} fresh threads (fresh hash seeds):\n  first : {}\n  other : {}", diff, NTHREADS, base, other));
        return res;
    }
    // (2) history: after 1 and 5 unrelated compilations in this thread
    for n in [1u64, 5] {
        for k in 0..n {
            let _ = fingerprint(&det_source(idx.wrapping_mul(7).wrapping_add(k + 1)), opts);
        }
        let fp = fingerprint(src, opts);
        res.count("comparisons", 1);
        res.count("after-history compilations", 1);
        if fp != base {
            viol(&mut res, format!("differs after {} unrelated compilations in the same thread:\n  first : {}\n  later : {}", n, base, fp));
            return res;
        }
    }
    // (2b) process-wide log level: the result must not depend on whether a logger is listening
    {
        let _ = log::set_logger(&NOLOG);
        log::set_max_level(log::LevelFilter::Trace);
        let fp = fingerprint(src, opts);
        log::set_max_level(log::LevelFilter::Off);
        res.count("comparisons", 1);
        res.count("compilations with a logger at trace level", 1);
        if fp != base {
            viol(&mut res, format!("differs when a logger is installed at trace level:\n  without: {}\n  with   : {}", base, fp));
            return res;
        }
    }
    // (3) fresh processes, diagnostics on stdout included
    if idx % 4 == 0 || kind == "pin" {
        let mut first: Option<String> = None;
        for _ in 0..NPROCS {
            match in_child(src, opts) {
                Ok(out) => {
                    res.count("comparisons", 1);
                    res.count("fresh-process compilations", 1);
                    if out.lines().any(|l| l.starts_with("Warning")) {
                        res.count("process runs with diagnostics on stdout", 1);
                    }
                    let fp_line = out.lines().find(|l| l.starts_with("@@FP ")).map(|l| l[5..].to_string()).unwrap_or_default();
                    if fp_line != base {
                        viol(&mut res, format!("a fresh process produced a different result:\n  in-process: {}\n  process   : {}", base, fp_line));
                        return res;
                    }
                    match &first {
                        None => first = Some(out),
                        Some(f) => {
                            if *f != out {
                                viol(&mut res, format!("stdout (diagnostics) differs between two fresh processes:\n{}\n-----\n{}", trunc(f, 600), trunc(&out, 600)));
                                return res;
                            }
                        }
                    }
                }
                Err(e) => {
                    res.class = format!("harness: child process failed: {}", e);
                    res.nontrivial = false;
                    return res;
                }
            }
        }
    }
    if idx % 307 == 0 {
        res.sample = Some(json!({"kind": kind, "idx": idx, "source": src, "fingerprint": base}));
    }
    res
}

pub fn c05_pins() -> Vec<(&'static str, &'static str)> {
    vec![
        ("literal_order", "char *p; char *q;\nvoid pr2(char *x, char *y) { p = x; q = y; }\nvoid main() { pr2(\"hello\", \"world\"); p = \"abc\", q = \"defg\"; }\n"),
        ("parameter_rank", "unsigned char a;\nvoid f(unsigned char v, char *w);\nvoid g(unsigned char v);\nvoid f(unsigned char v, char *w) { a = v; }\nvoid g(unsigned char v) { a = v; }\nvoid main() { f(1, \"x\"); g(2); csleep(5); }\n"),
        ("local_initialiser_literal_order", "char *p; char *q;\nchar pk4(char *w, char *x, char *y, char *z) { p = w; q = z; p = x; q = y; return 1; }\nvoid main() { unsigned char first = pk4(\"alpha\", \"beta!\", \"gamma\", \"delta\"); unsigned char second = pk4(\"eps\", \"zeta\", \"eta\", \"theta\") + pk4(\"i\", \"k\", \"l\", \"m\"); p = \"tail\"; }\n"),
        ("function_order", "unsigned char a;\nvoid f(); void g();\nvoid f() { a = 1; }\nvoid h() { a = 2; }\nvoid g() { a = 3; }\nvoid k();\nvoid main() { f(); g(); h(); }\nvoid k() { a = 4; }\n"),
    ]
}

impl Monitor for C05 {
    fn id(&self) -> &'static str {
        "C05"
    }
    fn level(&self) -> &'static str {
        "exploration"
    }
    fn rule(&self) -> String {
        format!(
            "each case (a seeded determinism-bait source: several string literals per expression/call, literal tables, 2-12 globals, locals, \
             prototypes declared/redeclared and defined in shuffled orders, interrupt handlers, unused functions, warning- and error-producing \
             lines; plus corpus programs) is compiled once, then again on {} freshly spawned threads (fresh SipHash keys each), after 1 and 5 \
             unrelated compilations in the same thread, and (every 4th case) in {} fresh processes whose stdout diagnostics are captured; output \
             bytes, variable and function order and diagnostics must be identical. Each case is also compiled with a logger installed at trace level; the working directory must be unchanged by every compilation; kind files: headers in a sub-directory (one failing) and 2-3 included assembler files whose order is part of the fingerprint. non-trivial = every case",
            NTHREADS, NPROCS
        )
    }
    fn assumptions(&self) -> Vec<String> {
        vec!["std::collections::HashMap's RandomState draws fresh keys for every new thread and process".into()]
    }
    fn plan(&self, tier: &Tier, seed: u64) -> Vec<Chunk> {
        let np = c05_pins().len() as u64;
        let mut v = split_chunks("pin", 0, np, np, 1);
        let (nd, nc) = match tier {
            Tier::Quick => (6_000, 2_000),
            Tier::Thorough => (30_000, 8_000),
        };
        v.extend(split_chunks("det", seed_offset(seed, "C05d", 30_000), nd, 30_000, 50));
        for k in ["rand", "stress", "hw", "wild"] {
            v.extend(split_chunks(k, seed_offset(seed, &format!("C05{}", k), pool_len(k)), nc / 4, pool_len(k), 50));
        }
        v.extend(split_chunks("files", seed_offset(seed, "C05f", 10_000), nc / 4, 10_000, 50));
        v
    }
    fn run_case(&self, kind: &str, idx: u64) -> CaseResult {
        match kind {
            "pin" => {
                let (name, src) = c05_pins()[idx as usize];
                judge(kind, idx, src, &Opts::default(), Some(format!("pin:{}", name)))
            }
            "files" => {
                let (src, o) = files_case(idx);
                let mut r = judge(kind, idx, &src, &o, None);
                r.count("multi-file cases (headers in a sub-directory, included assembler files)", 1);
                r
            }
            "det" => {
                let src = det_source(idx);
                let mut o = Opts::default();
                o.opt_level = (idx % 2) as u8;
                if idx % 3 == 0 {
                    o.warnings = vec!["all".into()];
                }
                o.insert_code = idx % 5 == 0;
                match idx % 7 {
                    2 => o.defines = vec!["W=8".into(), "AREA=W*2".into()],
                    3 => o.defines = vec!["AREA=W+3".into(), "W=4".into()], // wrong order: an error, the same one every time
                    4 => o.defines = vec!["W=2".into(), "H=3".into(), "AREA=W*H".into(), "UNUSED".into()],
                    5 => o.defines = vec!["1BAD=1".into(), "2BAD=2".into()], // two invalid ones: the first is reported
                    _ => {}
                }
                judge(kind, idx, &src, &o, None)
            }
            _ => {
                let (p, o) = corpus_program(kind, idx);
                judge(kind, idx, &print_program(&p), &o, None)
            }
        }
    }
    fn thresholds(&self, tier: &Tier) -> Vec<(String, u64)> {
        vec![
            ("distinct_nontrivial".into(), if *tier == Tier::Quick { 2500 } else { 25000 }),
            ("cases with >= 2 string literals".into(), 1000),
            ("cases with prototypes".into(), 1000),
            ("fresh-process compilations".into(), 1000),
            ("process runs with diagnostics on stdout".into(), 50),
            ("set:outcome kinds".into(), 2),
            ("multi-file cases (headers in a sub-directory, included assembler files)".into(), 200),
            ("compilations with a logger at trace level".into(), 2000),
        ]
    }
}
