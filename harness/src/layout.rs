// Plays the role of the downstream linker: gives every variable an address (the way
// tests/build.rs orders them), turns ROM definitions into bytes, and builds the executable
// image from the per-function texts with the independent assembler.

use crate::asm6502::{assemble, AsmFunc, AsmInput, AsmOutput, RomByte};
use crate::driver::{Def, Mem, Obs, VarInfo, Val, VT};
use crate::emu6502::{Machine, SplitPort};
use std::collections::{BTreeMap, BTreeSet};

#[derive(Clone, Debug, PartialEq, Eq)]
pub enum Place {
    Zp,
    Split, // split-port cartridge RAM (superchip / 3E / 3E+)
}

#[derive(Clone, Debug)]
pub struct RamVar {
    pub name: String,
    pub addr: u16, // symbol value (for split-port RAM: the base the compiler adds offsets to)
    pub len: u16,
    pub place: Place,
    pub vt: VT,
    pub elems: usize,
    pub signed: bool,
    pub global: bool,
}

#[derive(Clone, Debug)]
pub struct SplitCfg {
    pub rbase: u16,
    pub wbase: u16,
    pub size: u16,
    /// symbol base: address given to the first variable
    pub symbase: u16,
}

#[derive(Clone, Debug, Default)]
pub struct Layout {
    pub symbols: BTreeMap<String, i64>,
    pub ram: Vec<RamVar>,
    pub split: Option<SplitCfg>,
    pub rom: Vec<(String, usize, Vec<RomByte>)>,
    pub zp_end: u16,
}

pub fn var_bytes(v: &VarInfo) -> u16 {
    if v.size > 1 {
        let s = match v.vt {
            VT::CharPtr => 1,
            VT::CharPtrPtr | VT::ShortPtr => 2,
            _ => 1,
        };
        (v.size * s) as u16
    } else {
        match v.vt {
            VT::Char => 1,
            _ => 2,
        }
    }
}

pub fn split_cfg_for(scheme: &str) -> Option<SplitCfg> {
    match scheme {
        // superchip: 128 bytes, write port first, read port at +$80
        "F8S" | "F6S" | "F4S" => Some(SplitCfg { rbase: 0x1080, wbase: 0x1000, size: 0x80, symbase: 0x1000 }),
        // 3E: 1K RAM, read at $1000, write at +$400
        "3E" => Some(SplitCfg { rbase: 0x1000, wbase: 0x1400, size: 0x400, symbase: 0x1000 }),
        // 3E+: 512 bytes, read at base, write at +$200
        "3EP" => Some(SplitCfg { rbase: 0x1000, wbase: 0x1200, size: 0x200, symbase: 0x1000 }),
        _ => None,
    }
}

/// `overlay`: None = every local gets its own cell; Some(levels) = locals of functions at the
/// same call-tree level share storage exactly as tests/build.rs lays them out.
pub fn layout(obs: &Obs, overlay: bool) -> Result<Layout, String> {
    // memory classes of other platforms (7800 display / frequency RAM, RAM chips) are not laid
    // out by the 2600 builder this layout replicates
    if let Some(v) = obs.vars.iter().find(|v| !matches!(v.def, Def::Value(_)) && matches!(v.mem, Mem::Display | Mem::Frequency | Mem::Ramchip | Mem::Ramplus)) {
        return Err(format!("memory class of '{}' is not modelled by the 2600 layout", v.name));
    }
    let mut l = Layout::default();
    l.symbols.insert("cctmp".into(), 0x80);
    l.symbols.insert("__address__".into(), 0);
    let mut zp: u32 = 0x81;
    // constants
    for v in &obs.vars {
        if let Def::Value(Val::Int(i)) = &v.def {
            if v.var_const {
                l.symbols.insert(v.name.clone(), *i as i64);
            }
        }
        // a constant defined as the low / high byte of another symbol's address: the symbol may
        // live in an assembler file the compiler never sees, so the name is defined (value 0 when
        // the target is unknown here) and only its use in instructions is checked
        if let Def::Value(Val::Low(..)) | Def::Value(Val::Hi(..)) = &v.def {
            if v.var_const {
                l.symbols.insert(v.name.clone(), 0);
            }
        }
    }
    // global zero page variables, in sorted order
    for v in &obs.vars {
        if v.mem == Mem::Zeropage && v.def == Def::None && v.global {
            let n = var_bytes(v);
            l.symbols.insert(v.name.clone(), zp as i64);
            l.ram.push(RamVar {
                name: v.name.clone(),
                addr: zp as u16,
                len: n,
                place: Place::Zp,
                vt: v.vt.clone(),
                elems: v.size,
                signed: v.signed,
                global: true,
            });
            zp += n as u32;
        }
    }
    // locals
    let by_name: BTreeMap<&str, &VarInfo> = obs.vars.iter().map(|v| (v.name.as_str(), v)).collect();
    if !overlay {
        for v in &obs.vars {
            if v.mem == Mem::Zeropage && v.def == Def::None && !v.global {
                let n = var_bytes(v);
                l.symbols.insert(v.name.clone(), zp as i64);
                l.ram.push(RamVar {
                    name: v.name.clone(),
                    addr: zp as u16,
                    len: n,
                    place: Place::Zp,
                    vt: v.vt.clone(),
                    elems: v.size,
                    signed: v.signed,
                    global: false,
                });
                zp += n as u32;
            }
        }
    } else {
        // replica of compute_function_level / LOCAL_VARIABLES_n of tests/build.rs
        let mut levels: Vec<Vec<String>> = Vec::new();
        for f in &obs.funcs {
            let lev = if f.name == "main" {
                Some(0)
            } else {
                let mut seen = BTreeSet::new();
                function_level(&f.name, "main", 1, &obs.call_tree, &mut seen)
            };
            if let Some(level) = lev {
                if levels.len() <= level {
                    levels.resize(level + 1, Vec::new());
                }
                levels[level].push(f.name.clone());
            }
        }
        for lv in levels {
            let base = zp;
            let mut maxb = 0u32;
            for fx in lv {
                let f = match obs.funcs.iter().find(|f| f.name == fx) {
                    Some(f) => f,
                    None => continue,
                };
                if !obs.in_use.contains(&fx) || f.locals.is_empty() {
                    continue;
                }
                let mut b = 0u32;
                for vx in &f.locals {
                    if let Some(v) = by_name.get(vx.as_str()) {
                        if v.mem == Mem::Zeropage && v.def == Def::None {
                            let n = var_bytes(v);
                            l.symbols.insert(v.name.clone(), (base + b) as i64);
                            l.ram.push(RamVar {
                                name: v.name.clone(),
                                addr: (base + b) as u16,
                                len: n,
                                place: Place::Zp,
                                vt: v.vt.clone(),
                                elems: v.size,
                                signed: v.signed,
                                global: false,
                            });
                            b += n as u32;
                        }
                    }
                }
                if b > maxb {
                    maxb = b;
                }
            }
            zp = base + maxb;
        }
    }
    if zp > 0x100 {
        return Err(format!("zero page overflow: variables end at ${:x}", zp));
    }
    l.zp_end = zp as u16;

    // split-port RAM
    let mut cfg = split_cfg_for(&obs.scheme);
    if cfg.is_none() && obs.vars.iter().any(|v| v.mem == Mem::Superchip && v.def == Def::None) {
        // the builder only switches to a superchip scheme when a non-array superchip variable
        // exists; the code generator applies the port offsets to every superchip variable
        cfg = split_cfg_for("F8S");
    }
    let mut sp: u32 = cfg.as_ref().map(|c| c.symbase as u32).unwrap_or(0x1000);
    for v in &obs.vars {
        let is_split = match v.mem {
            Mem::Superchip => true,
            Mem::OnChip(_) => true,
            _ => false,
        };
        if is_split && v.def == Def::None {
            let n = var_bytes(v);
            let c = match &cfg {
                Some(c) => c,
                None => {
                    return Err(format!(
                        "variable {} lives in cartridge RAM but scheme {} has none",
                        v.name, obs.scheme
                    ))
                }
            };
            if sp + n as u32 > c.symbase as u32 + c.size as u32 {
                return Err("cartridge RAM overflow".into());
            }
            l.symbols.insert(v.name.clone(), sp as i64);
            l.ram.push(RamVar {
                name: v.name.clone(),
                addr: sp as u16,
                len: n,
                place: Place::Split,
                vt: v.vt.clone(),
                elems: v.size,
                signed: v.signed,
                global: v.global,
            });
            sp += n as u32;
        }
    }
    l.split = cfg;

    // ROM tables
    for v in &obs.vars {
        if let Mem::Rom(_) = v.mem {
            match &v.def {
                Def::Array(a) => {
                    let mut bytes = Vec::new();
                    for x in a {
                        bytes.push(match x {
                            Val::Int(i) => RomByte::B((*i & 0xff) as u8),
                            Val::Low(s, o) => RomByte::Lo(s.clone(), *o),
                            Val::Hi(s, o) => RomByte::Hi(s.clone(), *o),
                        });
                    }
                    if v.vt == VT::ShortPtr {
                        for x in a {
                            if let Val::Int(i) = x {
                                bytes.push(RomByte::B(((*i >> 8) & 0xff) as u8));
                            }
                        }
                    }
                    l.rom.push((v.name.clone(), v.alignment, bytes));
                }
                Def::ArrayOfPointers(a) => {
                    let mut bytes = Vec::new();
                    for (s, o) in a {
                        bytes.push(RomByte::Lo(s.clone(), *o));
                    }
                    for (s, o) in a {
                        bytes.push(RomByte::Hi(s.clone(), *o));
                    }
                    l.rom.push((v.name.clone(), v.alignment, bytes));
                }
                _ => {}
            }
        }
    }
    Ok(l)
}

fn function_level(
    name: &str,
    node: &str,
    cur: usize,
    tree: &BTreeMap<String, Vec<String>>,
    seen: &mut BTreeSet<String>,
) -> Option<usize> {
    let mut ret = None;
    if let Some(calls) = tree.get(node) {
        if calls.iter().any(|c| c == name) {
            ret = Some(cur);
        }
        for nx in calls {
            if seen.contains(nx) {
                return None;
            }
            seen.insert(nx.clone());
            if let Some(lx) = function_level(name, nx, cur + 1, tree, seen) {
                ret = Some(match ret {
                    Some(r) if r >= lx => r,
                    _ => lx,
                });
            }
            seen.remove(nx);
        }
    }
    ret
}

pub struct Built {
    pub layout: Layout,
    pub asm: AsmOutput,
}

pub const ORG: u16 = 0xF000;

pub fn build_image(obs: &Obs, overlay: bool) -> Result<Built, String> {
    let mut lay = layout(obs, overlay)?;
    let mut input = AsmInput { symbols: lay.symbols.clone(), org: ORG, ..Default::default() };
    input.wide_rel = false;
    for f in &obs.funcs {
        if let Some(t) = &f.text {
            if f.inline {
                continue; // never emitted on its own by the builder
            }
            input.funcs.push(AsmFunc {
                name: f.name.clone(),
                text: t.clone(),
                in_image: obs.in_use.contains(&f.name),
                append_rts: true,
            });
        }
    }
    // in-image functions first (stable), then the rest (assembled for checks only)
    input.funcs.sort_by_key(|f| !f.in_image);
    input.rom = lay.rom.clone();
    let asm = assemble(&input);
    for (k, v) in asm.globals.iter() {
        lay.symbols.entry(k.clone()).or_insert(*v as i64);
    }
    Ok(Built { layout: lay, asm })
}

pub fn new_machine(b: &Built) -> Machine {
    let mut m = Machine::new();
    m.load(b.asm.org, &b.asm.image);
    m.code_start = b.asm.org;
    // code = everything up to the first ROM table
    let code_end = b
        .asm
        .rom_ranges
        .iter()
        .map(|r| r.1 as u32)
        .min()
        .unwrap_or(b.asm.org as u32 + b.asm.image.len() as u32);
    m.code_end = code_end;
    m.halt_addr = b.asm.halt_addr;
    if let Some(c) = &b.layout.split {
        m.split.push(SplitPort { rbase: c.rbase, wbase: c.wbase, size: c.size, store: vec![0; c.size as usize] });
    }
    m
}

/// write one byte of a variable's storage (initial state)
pub fn poke(m: &mut Machine, b: &Built, v: &RamVar, off: u16, val: u8) {
    match v.place {
        Place::Zp => m.mem[(v.addr + off) as usize] = val,
        Place::Split => {
            let c = b.layout.split.as_ref().unwrap();
            let o = (v.addr - c.symbase + off) as usize;
            m.split[0].store[o] = val;
        }
    }
}

pub fn peek(m: &Machine, b: &Built, v: &RamVar, off: u16) -> u8 {
    match v.place {
        Place::Zp => m.mem[(v.addr + off) as usize],
        Place::Split => {
            let c = b.layout.split.as_ref().unwrap();
            let o = (v.addr - c.symbase + off) as usize;
            m.split[0].store[o]
        }
    }
}
