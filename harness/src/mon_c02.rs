// C02: optimisation never changes observable behaviour.
// Differential co-execution monitor: the -O0 code of the same program is the oracle for the
// -O1/-O2/-O3 code (C01 ties -O0 to the source).

use crate::bait::bait_program;
use crate::cgen::*;
use crate::cmodel::*;
use crate::common::*;
use crate::driver::*;
use crate::emu6502::Stop;
use crate::exec::*;
use crate::framework::*;
use crate::layout::Built;
use crate::mon_c01::cfg_c01;
use crate::pins::{self, Pin};
use serde_json::json;
use std::collections::BTreeMap;

pub struct C02;

pub const RAND_POOL: u64 = 300_000;
pub const BAIT_POOL: u64 = 400_000;

fn mnemonics(text: &str) -> BTreeMap<String, i64> {
    let mut m = BTreeMap::new();
    for l in text.lines() {
        if l.starts_with('\t') {
            let mn = l.trim().split_whitespace().next().unwrap_or("").to_string();
            if mn.len() == 3 && !l.contains(";@I") {
                *m.entry(mn).or_insert(0) += 1;
            }
        }
    }
    m
}

/// classify the rewrites between the -O0 and the optimised text by diffing instruction multisets
pub fn rewrite_classes(o0: &Obs, o1: &Obs, res: &mut CaseResult) -> bool {
    let mut any = false;
    for f0 in &o0.funcs {
        let f1 = match o1.funcs.iter().find(|f| f.name == f0.name) {
            Some(f) => f,
            None => continue,
        };
        let (t0, t1) = match (&f0.text, &f1.text) {
            (Some(a), Some(b)) => (a, b),
            _ => continue,
        };
        if t0 == t1 {
            continue;
        }
        any = true;
        let m0 = mnemonics(t0);
        let m1 = mnemonics(t1);
        let mut removed_any = false;
        for (k, n0) in &m0 {
            let n1 = *m1.get(k).unwrap_or(&0);
            if n1 < *n0 {
                res.count(&format!("rewrite: removed {}", k), (*n0 - n1) as u64);
                res.set("rewrite classes observed", &format!("removed {}", k));
                removed_any = true;
            }
        }
        if !removed_any {
            res.count("rewrite: reordered (CLC/SEC-LDA swap)", 1);
            res.set("rewrite classes observed", "reordered only (CLC/SEC-LDA swap)");
        }
    }
    any
}

fn ram_image(b: &Built, m: &crate::emu6502::Machine) -> Vec<u8> {
    let mut v: Vec<u8> = m.mem[0x81..b.layout.zp_end as usize].to_vec();
    for s in &m.split {
        v.extend_from_slice(&s.store);
    }
    v.push(m.x);
    v.push(m.y);
    v
}

pub fn differential(kind: &str, idx: u64, p: &Program, tag: &str, use_reference: bool, pin_sig: Option<&str>) -> CaseResult {
    let src = print_program(p);
    let mut res = CaseResult::new("accepted", crate::util::hash_str(&src));
    let (o0, b0) = match prepare(&src, &Opts::o(0)) {
        Prep::Ready(o, b) => (o, b),
        Prep::Skip(c) => {
            res.class = c;
            return res;
        }
    };
    let mut optimised = Vec::new();
    for lvl in [1u8, 2, 3] {
        match prepare(&src, &Opts::o(lvl)) {
            Prep::Ready(o, b) => optimised.push((lvl, o, b)),
            Prep::Skip(c) => {
                // accepted at -O0 but not at -On: the optimisation level changed acceptance
                res.class = format!("accepted at -O0 only: {}", c);
                res.violate(
                    &pin_sig.map(|s| s.to_string()).unwrap_or(format!("C02:{}:{}", kind, idx)),
                    &format!("C02: accepted at -O0 but at -O{}: {}\n--- source\n{}", lvl, c, src),
                    json!({"kind": kind, "idx": idx, "source": src, "why": c}),
                );
                return res;
            }
        }
    }
    let changed = rewrite_classes(&o0, &optimised[0].1, &mut res);
    // -O2 and -O3 take the same path in the library: their text must equal -O1's
    for (lvl, o, _) in optimised.iter().skip(1) {
        if listing(o) != listing(&optimised[0].1) {
            res.set("levels with distinct text", &format!("-O{}", lvl));
        }
    }
    let mut judged = 0;
    for k in 0..6u64 {
        let input = gen_input(p, tag, idx, k);
        let mut budget = 400_000u64;
        if use_reference {
            match reference(p, &input, 20_000) {
                Ok((_, _, steps)) => budget = cycle_budget(steps),
                Err(e) => {
                    res.count(&format!("vectors discarded: {}", norm_msg(&e)), 1);
                    continue;
                }
            }
        }
        let r0 = run_compiled(p, &b0, &input, budget, &|_m| {});
        let img0 = ram_image(&b0, &r0.machine);
        if k == 0 {
            record_exec_coverage(&mut res, &r0.machine);
        }
        for (lvl, o, b) in &optimised {
            // termination clause, bounded: -O0 finishing in n cycles requires -On within 10n+1000
            let bud = match r0.stop {
                Stop::Halt => r0.cycles * 10 + 1000,
                _ => budget * 10 + 1000,
            };
            let r1 = run_compiled(p, b, &input, bud, &|_m| {});
            res.count("comparisons", 1);
            judged += 1;
            let why = match (&r0.stop, &r1.stop) {
                (Stop::Halt, Stop::Halt) => {
                    let img1 = ram_image(b, &r1.machine);
                    if img0 != img1 {
                        Some(format!(
                            "final state differs: -O0 {} / -O{} {}",
                            state_brief(p, &r0.state),
                            lvl,
                            state_brief(p, &r1.state)
                        ))
                    } else {
                        None
                    }
                }
                (Stop::Halt, s) => Some(format!("-O0 code halts after {} cycles, -O{} code: {}", r0.cycles, lvl, stop_str(s))),
                (s, Stop::Halt) => Some(format!("-O{} code halts, -O0 code: {}", lvl, stop_str(s))),
                (Stop::Budget, Stop::Budget) => None,
                (a, b) => {
                    // both fault: same fault kind expected (a miscompiled program may corrupt its stack at every level)
                    if std::mem::discriminant(a) != std::mem::discriminant(b) {
                        Some(format!("-O0: {} / -O{}: {}", stop_str(a), lvl, stop_str(b)))
                    } else {
                        None
                    }
                }
            };
            if let Some(w) = why {
                let sig = pin_sig.map(|s| s.to_string()).unwrap_or(format!("C02:{}:{}", kind, idx));
                res.violate(
                    &sig,
                    &format!("C02 input #{}: {}\n--- source\n{}", k, w, src),
                    json!({"kind": kind, "idx": idx, "opt": lvl, "vector": k, "why": w, "source": src,
                           "input": state_brief(p, &input), "listing_O0": listing(&o0), "listing": listing(o)}),
                );
                return res;
            }
        }
    }
    if judged > 0 {
        if changed {
            res.class = "co-executed; optimiser changed the code".into();
            res.nontrivial = true;
        } else {
            res.class = "co-executed; optimiser changed nothing".into();
        }
    } else {
        res.class = "accepted but no input vector in the defined domain".into();
    }
    if idx % 499 == 0 {
        res.sample = Some(json!({"kind": kind, "idx": idx, "source": src, "class": res.class,
            "O0": listing(&o0), "O1": listing(&optimised[0].1)}));
    }
    res
}

pub fn c02_pins() -> Vec<Pin> {
    vec![
        Pin {
            name: "sta_lda_pair_flags",
            src: "unsigned char i, t, l, g; void main() { g = 4; while (i < 2) { t = i; l = t; if (l) g = 24; break; } }",
            init: &[("i", 0)],
            x: 0,
            y: 0,
            expect: &[("g", 4)],
        },
        Pin {
            name: "inc_of_aliased_element",
            src: "unsigned char arr[4]; unsigned char r; void main() { X = 1; arr[1] = 3; r = 0; if (arr[X] == 3) { arr[1]++; if (arr[X] == 4) r = 1; } }",
            init: &[],
            x: 0,
            y: 0,
            expect: &[("r", 1)],
        },
        Pin {
            name: "compare_fold_symbolic_immediate",
            src: "unsigned char pad[15]; unsigned char arr[4]; unsigned char r; void main() { r = 0; X = arr; if (X != 144) r = 1; }",
            init: &[],
            x: 0,
            y: 0,
            expect: &[("r", 0)],
        },
        Pin {
            name: "removed_lda_flags",
            src: "unsigned char b, c, r; void main() { b = 0; Y = c; b = 0; b = 0; if (b) goto L1; b = 3; L1: ; r = b; }",
            init: &[("c", 129)],
            x: 0,
            y: 0,
            expect: &[("r", 3)],
        },
        Pin {
            name: "inline_asm_register_knowledge",
            src: "unsigned char a, b; void main() { a = 5; asm(\"LDA #0 ;@I1\", 2); b = 5; }",
            init: &[],
            x: 0,
            y: 0,
            expect: &[("a", 5), ("b", 5)],
        },
        Pin {
            name: "pairing_across_inline_asm",
            src: "unsigned char a, b, c; void main() { c = 7; b = c + 1; asm(\"LDA #2 ;@I1\", 2); a = b; }",
            init: &[],
            x: 0,
            y: 0,
            expect: &[("a", 8), ("b", 8)],
        },
        Pin {
            name: "redundant_ldy_removed_flags_needed",
            src: "unsigned char n; char *p; unsigned char arr[8]; void main() { n = 0; Y = 2; p = arr; for (Y = 2; Y != 0; --Y) n++; }",
            init: &[],
            x: 0,
            y: 0,
            expect: &[("n", 2), ("Y", 0)],
        },
        Pin {
            name: "optimizer_flag_tracking",
            src: "unsigned char n; void main() { n = 0; Y = 1; X &= 7; for (Y = 1; Y != 0; --Y) n++; }",
            init: &[],
            x: 64,
            y: 0,
            expect: &[("n", 1), ("Y", 0), ("X", 0)],
        },
    ]
}

impl Monitor for C02 {
    fn id(&self) -> &'static str {
        "C02"
    }
    fn level(&self) -> &'static str {
        "exploration"
    }
    fn rule(&self) -> String {
        "cases = pinned witnesses + the enumerated C01 matrix + a seeded window of an optimiser-bait pool (every peephole \
         rule's context next to its invalidating twin: aliasing indexed stores, INC/DEC, index changes, labels, asm lines, \
         calls, all six relational operators on A/X/Y, CLC/SEC-LDA swaps, PLA/PHA pairs, transfers) + a window of the random \
         program pool. Each program is compiled at -O0,-O1,-O2,-O3 and co-executed on the emulator from 6 identical input \
         vectors; all RAM variables (incl. locals), X and Y must be equal and termination must agree within a 10x+1000 cycle \
         bound. Kind baitsplit: the bait programs with their scalars in superchip RAM. distinct = by source hash; non-trivial = co-executed AND the -O1 text differs from the -O0 text"
            .into()
    }
    fn assumptions(&self) -> Vec<String> {
        vec![
            "oracle is the -O0 run of the same program (C01 separately ties -O0 to the source)".into(),
            "trusted base: asm6502, emu6502".into(),
        ]
    }
    fn plan(&self, tier: &Tier, seed: u64) -> Vec<Chunk> {
        let mut v = Vec::new();
        let np = c02_pins().len() as u64;
        v.extend(split_chunks("pin", 0, np, np, 4));
        let nm = crate::matrix::matrix_len();
        let (nbait, nrand, nmat) = match tier {
            Tier::Quick => (40_000, 20_000, nm / 3),
            Tier::Thorough => (BAIT_POOL, RAND_POOL, nm),
        };
        v.extend(split_chunks("matrix", seed_offset(seed, "C02m", nm), nmat, nm, 200));
        v.extend(split_chunks("bait", seed_offset(seed, "C02b", BAIT_POOL), nbait, BAIT_POOL, 150));
        v.extend(split_chunks("baitsplit", seed_offset(seed, "C02s", BAIT_POOL), nbait / 4, BAIT_POOL, 150));
        v.extend(split_chunks("rand", seed_offset(seed, "C02r", RAND_POOL), nrand, RAND_POOL, 150));
        v
    }
    fn run_case(&self, kind: &str, idx: u64) -> CaseResult {
        match kind {
            "pin" => {
                let pin = &c02_pins()[idx as usize];
                pins::check_pin("C02", pin, &[0, 1, 2, 3])
            }
            "matrix" => {
                let p = crate::matrix::matrix_program(idx);
                differential(kind, idx, &p, "C02m", true, None)
            }
            "bait" => {
                let p = bait_program(idx);
                differential(kind, idx, &p, "C02b", false, None)
            }
            "baitsplit" => {
                // the bait programs with their scalars in cartridge RAM: a cell has two addresses
                // there (read port, write port), what the pass knows about one must not survive a
                // store to the other
                let mut p = bait_program(idx);
                for v in p.vars.iter_mut().take(12) {
                    if matches!(v.kind, VarKind::Scalar(_)) && v.name != "n" {
                        v.mem = MemClass::Superchip;
                    }
                }
                differential(kind, idx, &p, "C02s", false, None)
            }
            _ => {
                let p = gen_program("C02", idx, &cfg_c01());
                differential(kind, idx, &p, "C02", true, None)
            }
        }
    }
    fn thresholds(&self, tier: &Tier) -> Vec<(String, u64)> {
        vec![
            ("distinct_nontrivial".into(), if *tier == Tier::Quick { 2000 } else { 20000 }),
            ("rewrite: removed LDA".into(), 100),
            ("rewrite: removed LDX".into(), 5),
            ("rewrite: removed LDY".into(), 5),
            ("rewrite: removed STA".into(), 5),
            ("rewrite: removed JMP".into(), 5),
            ("rewrite: removed CMP".into(), 1),
            ("rewrite: removed CPX".into(), 1),
            ("rewrite: removed PLA".into(), 1),
            ("rewrite: reordered (CLC/SEC-LDA swap)".into(), 5),
        ]
    }
}
