// Cycle-counting NMOS 6502 emulator (official opcodes only) with an event log and pluggable
// memory regions.  Written from the datasheet; the decode table is derived from the
// assembler's opcode matrix (itself written from the datasheet), the semantics here are
// independent of cc6502.

use crate::asm6502::{Mode, OPCODES};

#[derive(Clone, Copy, Debug, PartialEq, Eq)]
pub enum AccKind {
    Read,
    Write,
    RmwRead,
    RmwWrite,
    /// an instruction at a marked address was executed
    Exec,
}

#[derive(Clone, Debug, PartialEq, Eq)]
pub struct Event {
    pub cycle: u64,
    pub pc: u16,
    pub kind: AccKind,
    pub addr: u16,
    pub val: u8,
}

#[derive(Clone, Debug, PartialEq, Eq)]
pub struct CallEvent {
    pub cycle: u64,
    pub from_pc: u16,
    pub target: u16,
    pub is_return: bool,
}

#[derive(Clone, Debug, PartialEq, Eq)]
pub enum Stop {
    Halt,
    Budget,
    Fault(String),
}

/// A split-port RAM: `size` bytes of backing store, read at [rbase, rbase+size), written at
/// [wbase, wbase+size).
#[derive(Clone, Debug)]
pub struct SplitPort {
    pub rbase: u16,
    pub wbase: u16,
    pub size: u16,
    pub store: Vec<u8>,
}

pub struct Machine {
    pub mem: Vec<u8>, // 64K flat
    pub a: u8,
    pub x: u8,
    pub y: u8,
    pub sp: u8,
    pub pc: u16,
    pub p: u8, // NV-BDIZC
    pub cycles: u64,
    pub rom_start: u16,
    pub rom_end: u32, // exclusive
    pub code_start: u16,
    pub code_end: u32,
    pub halt_addr: u16,
    pub split: Vec<SplitPort>,
    /// addresses [lo,hi) whose accesses are logged in `events`
    pub watch: Vec<(u16, u16)>,
    pub events: Vec<Event>,
    pub log_calls: bool,
    pub calls: Vec<CallEvent>,
    pub faults: Vec<String>,
    pub port_reads: u64,
    pub port_writes: u64,
    pub instr_count: u64,
    /// executed (opcode) histogram
    pub op_hist: Vec<u32>,
    /// branch outcomes: opcode -> (taken, not taken)
    pub br_taken: [u32; 256],
    pub br_not: [u32; 256],
    pub max_events: usize,
    /// virtual mode: conditional branches carry a 16-bit absolute target (see AsmInput::wide_rel)
    pub wide_rel: bool,
    /// addresses whose execution is logged as an Exec event (sorted)
    pub pc_marks: Vec<u16>,
    /// opcodes whose execution is logged as an Exec event with val = opcode (register transfers for C18)
    pub watch_ops: Vec<u8>,
    /// addresses whose executions are counted (sorted), and the counts (same order)
    pub pc_count_set: Vec<u16>,
    pub pc_counts: Vec<u64>,
    cur_pc: u16,
    decode: Vec<Option<(&'static str, Mode, u8, bool)>>,
}

const C: u8 = 1;
const Z: u8 = 2;
const I: u8 = 4;
const D: u8 = 8;
const V: u8 = 0x40;
const N: u8 = 0x80;

impl Machine {
    pub fn new() -> Machine {
        let mut decode = vec![None; 256];
        for o in OPCODES {
            decode[o.2 as usize] = Some((o.0, o.1, o.3, o.4));
        }
        Machine {
            mem: vec![0; 0x10000],
            a: 0,
            x: 0,
            y: 0,
            sp: 0xff,
            pc: 0,
            p: 0x20 | I,
            cycles: 0,
            rom_start: 0xffff,
            rom_end: 0x10000,
            code_start: 0,
            code_end: 0,
            halt_addr: 0,
            split: vec![],
            watch: vec![],
            events: vec![],
            log_calls: false,
            calls: vec![],
            faults: vec![],
            port_reads: 0,
            port_writes: 0,
            instr_count: 0,
            op_hist: vec![0; 256],
            br_taken: [0; 256],
            br_not: [0; 256],
            max_events: 200_000,
            wide_rel: false,
            pc_marks: vec![],
            watch_ops: vec![],
            pc_count_set: vec![],
            pc_counts: vec![],
            cur_pc: 0,
            decode,
        }
    }

    pub fn load(&mut self, org: u16, image: &[u8]) {
        for (i, b) in image.iter().enumerate() {
            let a = org as usize + i;
            if a < 0x10000 {
                self.mem[a] = *b;
            }
        }
        self.rom_start = org;
        self.rom_end = org as u32 + image.len() as u32;
    }

    fn watched(&self, addr: u16) -> bool {
        self.watch.iter().any(|(lo, hi)| addr >= *lo && addr < *hi)
    }

    fn log(&mut self, kind: AccKind, addr: u16, val: u8) {
        if self.events.len() < self.max_events {
            self.events.push(Event { cycle: self.cycles, pc: self.cur_pc, kind, addr, val });
        }
    }

    fn rd(&mut self, addr: u16, kind: AccKind) -> u8 {
        let mut val = self.mem[addr as usize];
        let mut port = None;
        for (i, s) in self.split.iter().enumerate() {
            if addr >= s.rbase && (addr as u32) < s.rbase as u32 + s.size as u32 {
                port = Some((i, true, (addr - s.rbase) as usize));
            } else if addr >= s.wbase && (addr as u32) < s.wbase as u32 + s.size as u32 {
                port = Some((i, false, (addr - s.wbase) as usize));
            }
        }
        if let Some((i, is_rport, off)) = port {
            if is_rport {
                val = self.split[i].store[off];
                self.port_reads += 1;
                if kind == AccKind::RmwRead {
                    self.faults.push(format!(
                        "read-modify-write on split-port RAM read port ${:04x} at pc ${:04x}",
                        addr, self.cur_pc
                    ));
                }
            } else {
                self.faults.push(format!(
                    "read of split-port RAM WRITE port ${:04x} at pc ${:04x}",
                    addr, self.cur_pc
                ));
                val = 0xA5; // garbage, and on real hardware the read also corrupts the cell
            }
            self.log(kind, addr, val);
        } else if self.watched(addr) {
            self.log(kind, addr, val);
        }
        val
    }

    fn wr(&mut self, addr: u16, val: u8, kind: AccKind) {
        let mut port = None;
        for (i, s) in self.split.iter().enumerate() {
            if addr >= s.rbase && (addr as u32) < s.rbase as u32 + s.size as u32 {
                port = Some((i, true, (addr - s.rbase) as usize));
            } else if addr >= s.wbase && (addr as u32) < s.wbase as u32 + s.size as u32 {
                port = Some((i, false, (addr - s.wbase) as usize));
            }
        }
        if let Some((i, is_rport, off)) = port {
            if is_rport {
                self.faults.push(format!(
                    "write to split-port RAM READ port ${:04x} at pc ${:04x}",
                    addr, self.cur_pc
                ));
            } else {
                if kind == AccKind::RmwWrite {
                    self.faults.push(format!(
                        "read-modify-write on split-port RAM write port ${:04x} at pc ${:04x}",
                        addr, self.cur_pc
                    ));
                }
                self.split[i].store[off] = val;
                self.port_writes += 1;
            }
            self.log(kind, addr, val);
            return;
        }
        if addr >= self.rom_start && (addr as u32) < self.rom_end {
            self.faults.push(format!("write to ROM ${:04x} at pc ${:04x}", addr, self.cur_pc));
            return;
        }
        if self.watched(addr) {
            self.log(kind, addr, val);
        }
        self.mem[addr as usize] = val;
    }

    fn fetch(&mut self) -> u8 {
        let v = self.mem[self.pc as usize];
        self.pc = self.pc.wrapping_add(1);
        v
    }

    fn push(&mut self, v: u8) {
        let a = 0x100 + self.sp as u16;
        self.mem[a as usize] = v;
        self.sp = self.sp.wrapping_sub(1);
    }
    fn pop(&mut self) -> u8 {
        self.sp = self.sp.wrapping_add(1);
        self.mem[0x100 + self.sp as usize]
    }
    fn setnz(&mut self, v: u8) {
        self.p &= !(N | Z);
        if v == 0 {
            self.p |= Z;
        }
        if v & 0x80 != 0 {
            self.p |= N;
        }
    }
    fn flag(&mut self, f: u8, on: bool) {
        if on {
            self.p |= f;
        } else {
            self.p &= !f;
        }
    }

    /// Run until halt address is reached (by RTS to the stub), budget exhausted or a fault.
    pub fn run(&mut self, start: u16, budget: u64) -> Stop {
        self.pc = start;
        loop {
            if self.pc == self.halt_addr {
                if self.sp != 0xff {
                    return Stop::Fault(format!("stack pointer ${:02x} at exit (expected $ff)", self.sp));
                }
                if !self.faults.is_empty() {
                    return Stop::Fault(self.faults[0].clone());
                }
                return Stop::Halt;
            }
            if self.cycles > budget {
                return Stop::Budget;
            }
            if !self.faults.is_empty() {
                return Stop::Fault(self.faults[0].clone());
            }
            if (self.pc as u32) < self.code_start as u32 || (self.pc as u32) >= self.code_end {
                return Stop::Fault(format!("pc ${:04x} outside code image", self.pc));
            }
            if let Err(e) = self.step() {
                return Stop::Fault(e);
            }
        }
    }

    pub fn step(&mut self) -> Result<(), String> {
        self.cur_pc = self.pc;
        if !self.pc_marks.is_empty() && self.pc_marks.binary_search(&self.pc).is_ok() {
            let pc = self.pc;
            self.log(AccKind::Exec, pc, 0);
        }
        if !self.pc_count_set.is_empty() {
            if let Ok(i) = self.pc_count_set.binary_search(&self.pc) {
                if self.pc_counts.len() != self.pc_count_set.len() {
                    self.pc_counts = vec![0; self.pc_count_set.len()];
                }
                self.pc_counts[i] += 1;
            }
        }
        let opc = self.fetch();
        if !self.watch_ops.is_empty() && self.watch_ops.contains(&opc) {
            let pc = self.cur_pc;
            self.log(AccKind::Exec, pc, opc);
        }
        let (mn, mode, base, pagex) = match self.decode[opc as usize] {
            Some(d) => d,
            None => return Err(format!("undefined opcode ${:02x} at ${:04x}", opc, self.cur_pc)),
        };
        self.instr_count += 1;
        self.op_hist[opc as usize] += 1;
        let mut cyc = base as u64;
        // operand address
        let mut addr: u16 = 0;
        let mut imm: u8 = 0;
        match mode {
            Mode::Imp | Mode::Acc => {}
            Mode::Imm => imm = self.fetch(),
            Mode::Zp => addr = self.fetch() as u16,
            Mode::ZpX => addr = self.fetch().wrapping_add(self.x) as u16,
            Mode::ZpY => addr = self.fetch().wrapping_add(self.y) as u16,
            Mode::Abs => {
                let lo = self.fetch() as u16;
                let hi = self.fetch() as u16;
                addr = lo | (hi << 8);
            }
            Mode::AbsX => {
                let lo = self.fetch() as u16;
                let hi = self.fetch() as u16;
                let b = lo | (hi << 8);
                addr = b.wrapping_add(self.x as u16);
                if pagex && (b & 0xff00) != (addr & 0xff00) {
                    cyc += 1;
                }
            }
            Mode::AbsY => {
                let lo = self.fetch() as u16;
                let hi = self.fetch() as u16;
                let b = lo | (hi << 8);
                addr = b.wrapping_add(self.y as u16);
                if pagex && (b & 0xff00) != (addr & 0xff00) {
                    cyc += 1;
                }
            }
            Mode::Ind => {
                let lo = self.fetch() as u16;
                let hi = self.fetch() as u16;
                let p = lo | (hi << 8);
                let l = self.mem[p as usize] as u16;
                let h = self.mem[((p & 0xff00) | ((p + 1) & 0xff)) as usize] as u16;
                addr = l | (h << 8);
            }
            Mode::IndX => {
                let z = self.fetch().wrapping_add(self.x);
                let l = self.mem[z as usize] as u16;
                let h = self.mem[z.wrapping_add(1) as usize] as u16;
                addr = l | (h << 8);
            }
            Mode::IndY => {
                let z = self.fetch();
                let l = self.mem[z as usize] as u16;
                let h = self.mem[z.wrapping_add(1) as usize] as u16;
                let b = l | (h << 8);
                addr = b.wrapping_add(self.y as u16);
                if pagex && (b & 0xff00) != (addr & 0xff00) {
                    cyc += 1;
                }
            }
            Mode::Rel => {
                if self.wide_rel {
                    let lo = self.fetch() as u16;
                    let hi = self.fetch() as u16;
                    addr = lo | (hi << 8);
                } else {
                    imm = self.fetch()
                }
            }
        }
        macro_rules! operand {
            () => {
                if mode == Mode::Imm {
                    imm
                } else {
                    self.rd(addr, AccKind::Read)
                }
            };
        }
        match mn {
            "LDA" => {
                let v = operand!();
                self.a = v;
                self.setnz(v);
            }
            "LDX" => {
                let v = operand!();
                self.x = v;
                self.setnz(v);
            }
            "LDY" => {
                let v = operand!();
                self.y = v;
                self.setnz(v);
            }
            "STA" => self.wr(addr, self.a, AccKind::Write),
            "STX" => self.wr(addr, self.x, AccKind::Write),
            "STY" => self.wr(addr, self.y, AccKind::Write),
            "TAX" => {
                self.x = self.a;
                self.setnz(self.x);
            }
            "TAY" => {
                self.y = self.a;
                self.setnz(self.y);
            }
            "TXA" => {
                self.a = self.x;
                self.setnz(self.a);
            }
            "TYA" => {
                self.a = self.y;
                self.setnz(self.a);
            }
            "TSX" => {
                self.x = self.sp;
                self.setnz(self.x);
            }
            "TXS" => self.sp = self.x,
            "ADC" => {
                let v = operand!();
                if self.p & D != 0 {
                    return Err(format!("ADC in decimal mode at ${:04x}", self.cur_pc));
                }
                let c = (self.p & C) as u16;
                let r = self.a as u16 + v as u16 + c;
                let res = r as u8;
                self.flag(C, r > 0xff);
                self.flag(V, ((self.a ^ res) & (v ^ res) & 0x80) != 0);
                self.a = res;
                self.setnz(res);
            }
            "SBC" => {
                let v = operand!();
                if self.p & D != 0 {
                    return Err(format!("SBC in decimal mode at ${:04x}", self.cur_pc));
                }
                let vv = !v;
                let c = (self.p & C) as u16;
                let r = self.a as u16 + vv as u16 + c;
                let res = r as u8;
                self.flag(C, r > 0xff);
                self.flag(V, ((self.a ^ res) & (vv ^ res) & 0x80) != 0);
                self.a = res;
                self.setnz(res);
            }
            "AND" => {
                let v = operand!();
                self.a &= v;
                self.setnz(self.a);
            }
            "ORA" => {
                let v = operand!();
                self.a |= v;
                self.setnz(self.a);
            }
            "EOR" => {
                let v = operand!();
                self.a ^= v;
                self.setnz(self.a);
            }
            "CMP" | "CPX" | "CPY" => {
                let v = operand!();
                let r = match mn {
                    "CMP" => self.a,
                    "CPX" => self.x,
                    _ => self.y,
                };
                self.flag(C, r >= v);
                self.setnz(r.wrapping_sub(v));
            }
            "BIT" => {
                let v = operand!();
                self.flag(Z, self.a & v == 0);
                self.flag(N, v & 0x80 != 0);
                self.flag(V, v & 0x40 != 0);
            }
            "ASL" | "LSR" | "ROL" | "ROR" => {
                let v = if mode == Mode::Acc { self.a } else { self.rd(addr, AccKind::RmwRead) };
                let cin = self.p & C;
                let (r, cout) = match mn {
                    "ASL" => (v << 1, v & 0x80 != 0),
                    "LSR" => (v >> 1, v & 1 != 0),
                    "ROL" => ((v << 1) | cin, v & 0x80 != 0),
                    _ => ((v >> 1) | (cin << 7), v & 1 != 0),
                };
                self.flag(C, cout);
                self.setnz(r);
                if mode == Mode::Acc {
                    self.a = r;
                } else {
                    self.wr(addr, r, AccKind::RmwWrite);
                }
            }
            "INC" | "DEC" => {
                let v = self.rd(addr, AccKind::RmwRead);
                let r = if mn == "INC" { v.wrapping_add(1) } else { v.wrapping_sub(1) };
                self.setnz(r);
                self.wr(addr, r, AccKind::RmwWrite);
            }
            "INX" => {
                self.x = self.x.wrapping_add(1);
                self.setnz(self.x);
            }
            "INY" => {
                self.y = self.y.wrapping_add(1);
                self.setnz(self.y);
            }
            "DEX" => {
                self.x = self.x.wrapping_sub(1);
                self.setnz(self.x);
            }
            "DEY" => {
                self.y = self.y.wrapping_sub(1);
                self.setnz(self.y);
            }
            "CLC" => self.flag(C, false),
            "SEC" => self.flag(C, true),
            "CLD" => self.flag(D, false),
            "SED" => self.flag(D, true),
            "CLI" => self.flag(I, false),
            "SEI" => self.flag(I, true),
            "CLV" => self.flag(V, false),
            "NOP" => {}
            "PHA" => self.push(self.a),
            "PLA" => {
                self.a = self.pop();
                self.setnz(self.a);
            }
            "PHP" => self.push(self.p | 0x30),
            "PLP" => self.p = (self.pop() & !0x10) | 0x20,
            "JMP" => self.pc = addr,
            "JSR" => {
                let ret = self.pc.wrapping_sub(1);
                self.push((ret >> 8) as u8);
                self.push((ret & 0xff) as u8);
                if self.log_calls {
                    self.calls.push(CallEvent {
                        cycle: self.cycles,
                        from_pc: self.cur_pc,
                        target: addr,
                        is_return: false,
                    });
                }
                self.pc = addr;
            }
            "RTS" => {
                let lo = self.pop() as u16;
                let hi = self.pop() as u16;
                self.pc = (lo | (hi << 8)).wrapping_add(1);
                if self.log_calls {
                    self.calls.push(CallEvent {
                        cycle: self.cycles,
                        from_pc: self.cur_pc,
                        target: self.pc,
                        is_return: true,
                    });
                }
            }
            "RTI" => {
                self.p = (self.pop() & !0x10) | 0x20;
                let lo = self.pop() as u16;
                let hi = self.pop() as u16;
                self.pc = lo | (hi << 8);
            }
            "BRK" => return Err(format!("BRK at ${:04x}", self.cur_pc)),
            "BCC" | "BCS" | "BEQ" | "BNE" | "BMI" | "BPL" | "BVC" | "BVS" => {
                let take = match mn {
                    "BCC" => self.p & C == 0,
                    "BCS" => self.p & C != 0,
                    "BEQ" => self.p & Z != 0,
                    "BNE" => self.p & Z == 0,
                    "BMI" => self.p & N != 0,
                    "BPL" => self.p & N == 0,
                    "BVC" => self.p & V == 0,
                    _ => self.p & V != 0,
                };
                if take {
                    self.br_taken[opc as usize] += 1;
                    let t = if self.wide_rel { addr } else { self.pc.wrapping_add(imm as i8 as i16 as u16) };
                    cyc += 1;
                    if (t & 0xff00) != (self.pc & 0xff00) {
                        cyc += 1;
                    }
                    self.pc = t;
                } else {
                    self.br_not[opc as usize] += 1;
                }
            }
            _ => return Err(format!("unimplemented {}", mn)),
        }
        self.cycles += cyc;
        Ok(())
    }
}

#[cfg(test)]
mod tests {
    use super::*;
    fn run(bytes: &[u8]) -> Machine {
        let mut m = Machine::new();
        let mut img = vec![0x20, 0x04, 0xF0, 0x02];
        img.extend_from_slice(bytes);
        m.load(0xF000, &img);
        m.code_start = 0xF000;
        m.code_end = 0xF000 + img.len() as u32;
        m.halt_addr = 0xF003;
        let s = m.run(0xF000, 100000);
        assert_eq!(s, Stop::Halt);
        m
    }
    #[test]
    fn adc_sbc_flags() {
        // LDA #$50 ; CLC ; ADC #$50 ; STA $80 ; PHP ; PLA ; STA $81 ; RTS
        let m = run(&[0xA9, 0x50, 0x18, 0x69, 0x50, 0x85, 0x80, 0x08, 0x68, 0x85, 0x81, 0x60]);
        assert_eq!(m.mem[0x80], 0xA0);
        assert_eq!(m.mem[0x81] & (N | V | C | Z), N | V);
        // SEC; LDA #$50; SBC #$F0 -> $60, C clear, V clear
        let m = run(&[0x38, 0xA9, 0x50, 0xE9, 0xF0, 0x85, 0x80, 0x08, 0x68, 0x85, 0x81, 0x60]);
        assert_eq!(m.mem[0x80], 0x60);
        assert_eq!(m.mem[0x81] & (N | V | C | Z), 0);
    }
    #[test]
    fn cycles() {
        // JSR(6) + NOP(2) + LDA zp(3) + STA abs(4) + INC zp (5) + RTS(6) = 26
        let m = run(&[0xEA, 0xA5, 0x80, 0x8D, 0x00, 0x02, 0xE6, 0x80, 0x60]);
        assert_eq!(m.cycles, 26);
        // branch taken +1: LDA #0 (2) BEQ +1 (3) NOP skipped; RTS(6) + JSR 6 = 17
        let m = run(&[0xA9, 0x00, 0xF0, 0x01, 0xEA, 0x60]);
        assert_eq!(m.cycles, 17);
    }
}
