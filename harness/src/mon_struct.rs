// C13 (emitted assembly always assembles) and C04 (reported size equals assembled size):
// the independent assembler front end is the oracle, run over the whole corpus.

use crate::asm6502::*;
use crate::cmodel::print_program;
use crate::common::*;
use crate::corpus::*;
use crate::driver::*;
use crate::framework::*;
use crate::layout::{build_image, layout, ORG};
use crate::pins::Pin;
use serde_json::json;
use std::collections::{BTreeMap, BTreeSet};

pub struct C13;
pub struct C04;

fn plan_corpus(tier: &Tier, seed: u64, tag: &str, per_kind_quick: u64, per_kind_thorough: u64) -> Vec<Chunk> {
    let mut v = Vec::new();
    for k in KINDS.iter() {
        let pool = pool_len(k);
        let n = match tier {
            Tier::Quick => per_kind_quick,
            Tier::Thorough => per_kind_thorough,
        }
        .min(pool);
        let n = if *k == "matrix" { pool.min(n * 2) } else { n };
        v.extend(split_chunks(k, seed_offset(seed, &format!("{}{}", tag, k), pool), n, pool, 200));
    }
    v
}

fn label_family(l: &str) -> String {
    let base: String = l.chars().take_while(|c| !c.is_ascii_digit()).collect();
    let inl = l.matches("inline").count();
    if inl > 0 {
        format!("{}N (inlined x{})", base, inl)
    } else {
        format!("{}N", base)
    }
}

// ------------------------------------------------------------------------------------ C13

pub fn c13_pins() -> Vec<(&'static str, &'static str)> {
    vec![
        ("continue_in_switch_in_dowhile", "unsigned char a, c; void main() { c = 2; do { c--; switch (a) { case 1: continue; } a++; } while (c); }"),
        ("goto_undefined_label", "unsigned char a; void main() { a = 1; goto nowhere; }"),
        ("goto_undefined_label_in_do_while", "unsigned char a; void main() { failed: a = 1; do { a++; if (a == 3) goto fail; } while (a < 5); }"),
        ("goto_undefined_label_in_for", "unsigned char a, i; void main() { for (i = 0; i != 3; i++) { if (a) goto fail; a++; } }"),
        ("goto_undefined_label_in_while", "unsigned char a; void main() { while (a < 3) { a++; if (a == 2) goto fail; } }"),
        ("goto_undefined_label_in_else", "unsigned char a; void main() { if (a) a = 1; else goto fail; }"),
        ("goto_undefined_label_in_switch", "unsigned char a; void main() { switch (a) { case 1: a = 2; break; default: goto fail; } }"),
        ("goto_into_do_while", "unsigned char a; void main() { if (a == 9) goto inside; do { a++; inside: a++; } while (a < 5); }"),
        ("goto_label_named_in_asm_text_only", "unsigned char i; void main() { asm(\"loop: DEC i\", 2); if (i) goto loop; }"),
        ("goto_label_as_substring_of_asm_text", "unsigned char i; void main() { asm(\"LDA #1 ; see .done below\", 2); asm(\"STA i ;xdone\", 2); goto done; }"),
        ("duplicate_user_label", "unsigned char x, y; void main() { l1: x = 1; l1: y = 2; if (x) goto l1; }"),
        ("user_label_named_like_a_generated_one", "unsigned char x, i; void main() { for (i = 0; i != 2; i++) x++; forend1: x = 1; if (x == 9) goto forend1; }"),
        ("address_of_function_never_called", "char *p; unsigned char r; void f() { r = 1; } void main() { p = f; }"),
        ("store_to_array_name", "unsigned char tab[4]; void main() { tab = 5; tab++; }"),
    ]
}

/// Names the code generator and the long-branch repair make up for their own local labels.
const GENERATED_FAMILIES: &[&str] = &[
    "dowhilecondition", "dowhileend", "dowhile", "else", "endofinline", "endof", "fixup", "fix", "forend", "forupdate", "for", "ifend", "ifhere",
    "ifneg", "ifstart", "switchend", "switchnextcase", "switchnextstatement", "whileend", "while",
    // control: a name of the user's own, with which the same program is accepted and assembles
    "mylabel",
];

/// A function that makes the compiler create a label of every family (far unsigned and signed
/// `>` / `<=` branches that the repair rewrites, loops, if / else, switch, an inline expansion)
/// and that also defines - and jumps to - a user label spelt like one of them. Either the name is
/// refused, or what is emitted assembles (no label defined twice in the function).
pub fn c13_genlabel(idx: u64) -> (String, String) {
    let fam = GENERATED_FAMILIES[(idx as usize / 3) % GENERATED_FAMILIES.len()];
    let name = format!("{}{}", fam, idx % 3 + 1);
    let far = "c = a + b; ".repeat(30);
    let src = format!(
        "unsigned char a, b, c, i; signed char sa, sb;\ninline void inl() {{ if (a) c++; }}\nvoid main() {{\n  if (a > b) {{ {far} }} else {{ c = 1; }}\n  if (sa <= sb) {{ {far} }}\n  if (a <= b) {{ {far} }}\n  if (sa > sb) {{ {far} }}\n  for (i = 0; i != 2; i++) {{ c++; }}\n  while (c < 9) c++;\n  do {{ c--; }} while (c);\n  switch (a) {{ case 1: c = 2; break; case 2: c = 3; default: c = 4; }}\n  inl(); inl();\n  if (c == 77) goto {name};\n  c = 0;\n{name}: c = 1;\n}}\n",
        far = far,
        name = name
    );
    (name, src)
}

/// What an inlined copy has to look like (independent statement of `append_code`'s contract):
/// every local label defined in the body and every local label named by an instruction of the body
/// carries the suffix `inline<N>` of the expansion, nothing else changes.
fn renamed_for_expansion(line: &str, n: &str) -> String {
    let t = line.trim_end();
    if t.starts_with('.') {
        return format!("{}inline{}", t, n);
    }
    let body = t.trim_start();
    let mut it = body.splitn(2, char::is_whitespace);
    let _mn = it.next().unwrap_or("");
    let op = it.next().unwrap_or("").trim();
    if op.starts_with('.') && op.chars().skip(1).all(|c| c.is_ascii_alphanumeric() || c == '_') {
        return format!("{}inline{}", t, n);
    }
    t.to_string()
}

/// -O0 only (no optimiser pass separates the body from its copies): each expansion closed by a
/// `.endofinline<N>` label of a function must be the renamed text of one of the inline functions.
/// A label reference left without its suffix is text the assembler binds to the wrong place (the
/// caller's label of the same name) or rejects.  Returns (expansions checked, skipped, violation).
fn inline_copies_check(obs: &Obs) -> (u64, u64, Option<String>) {
    let mut checked = 0;
    let mut skipped = 0;
    let bodies: Vec<(&str, Vec<&str>, bool)> = obs
        .funcs
        .iter()
        .filter(|f| f.inline && f.text.is_some())
        .map(|f| (f.name.as_str(), f.text.as_ref().unwrap().lines().map(|l| l.trim_end()).filter(|l| !l.is_empty()).collect(), f.nb_fix > 0))
        .collect();
    if bodies.is_empty() {
        return (0, 0, None);
    }
    for f in &obs.funcs {
        let text = match &f.text {
            Some(t) => t,
            None => continue,
        };
        let lines: Vec<&str> = text.lines().map(|l| l.trim_end()).filter(|l| !l.is_empty()).collect();
        for (j, l) in lines.iter().enumerate() {
            let n = match l.strip_prefix(".endofinline") {
                Some(n) if !n.is_empty() && n.chars().all(|c| c.is_ascii_digit()) => n,
                _ => continue,
            };
            let mut best: Option<(usize, String)> = None;
            let mut matched = false;
            let mut any_fixed = false;
            for (name, body, fixed) in &bodies {
                if *name == f.name || body.len() > j {
                    continue;
                }
                if *fixed {
                    any_fixed = true;
                    continue;
                }
                let start = j - body.len();
                let mut miss = 0;
                let mut first = String::new();
                for (k, bl) in body.iter().enumerate() {
                    let want = renamed_for_expansion(bl, n);
                    if lines[start + k] != want {
                        if miss == 0 {
                            first = format!("copy of {} line {}: emitted '{}', the renamed body line is '{}'", name, k + 1, lines[start + k].trim(), want.trim());
                        }
                        miss += 1;
                    }
                }
                if miss == 0 {
                    matched = true;
                    break;
                }
                if best.as_ref().map(|b| miss < b.0).unwrap_or(true) {
                    best = Some((miss, first));
                }
            }
            if matched {
                checked += 1;
            } else if any_fixed || f.nb_fix > 0 {
                // long-branch repair rewrote lines of the body or of this function after the copy was made
                skipped += 1;
            } else if let Some((miss, first)) = best {
                return (checked, skipped, Some(format!("function {}: expansion inline{} is not the renamed copy of any inline function ({} line(s) differ from the closest): {}", f.name, n, miss, first)));
            } else {
                skipped += 1;
            }
        }
    }
    (checked, skipped, None)
}

fn c13_source(kind: &str, idx: u64, src: &str, opts_base: &Opts, levels: &[u8], sig: Option<String>) -> CaseResult {
    let mut res = CaseResult::new("accepted", crate::util::hash_str(src));
    for lvl in levels {
        let mut o = opts_base.clone();
        o.opt_level = *lvl;
        let out = compile_src(src, &o);
        let obs = match &out {
            Outcome::Ok(obs) => obs,
            other => {
                res.class = outcome_class(other);
                return res;
            }
        };
        let b = match build_image(obs, false) {
            Ok(b) => b,
            Err(e) => {
                res.class = format!("layout: {}", norm_msg(&e));
                return res;
            }
        };
        res.nontrivial = true;
        res.count("functions assembled", b.asm.func_ranges.len() as u64);
        for l in &b.asm.lines {
            match l.kind {
                LineKind::Instr => {
                    res.count("instruction lines parsed", 1);
                    if let Some(m) = l.mode {
                        res.set("mnemonic x addressing mode emitted", &format!("{} {:?}", l.mnemonic, m));
                    }
                }
                LineKind::Label => {
                    if l.text.starts_with('.') {
                        res.set("local label families", &label_family(&l.text));
                    }
                }
                _ => {}
            }
        }
        if b.asm.errors.iter().any(|e| e.kind == "image-too-large") {
            res.class = "accepted; image larger than one 4K bank (a size limit, not an assembly error)".into();
            return res;
        }
        // The builder emits the routines, parameters and locals of the functions the compiler
        // reports as in use, and nothing else: emitted code that names a routine or a cell of a
        // function outside that set references a symbol nobody defines
        {
            let mut owner: BTreeMap<&str, &str> = BTreeMap::new();
            for f in &obs.funcs {
                for l in &f.locals {
                    owner.insert(l.as_str(), f.name.as_str());
                }
            }
            let fnames: BTreeSet<&str> = obs.funcs.iter().map(|f| f.name.as_str()).collect();
            let in_image: Vec<bool> = b.asm.func_ranges.iter().map(|r| r.3).collect();
            let mut bad: Option<String> = None;
            'scan: for l in &b.asm.lines {
                if l.kind != LineKind::Instr || !in_image.get(l.func).copied().unwrap_or(false) {
                    continue;
                }
                for tok in l.operand.split(|c: char| !(c.is_ascii_alphanumeric() || c == '_')) {
                    if tok.is_empty() || tok.chars().next().unwrap().is_ascii_digit() {
                        continue;
                    }
                    if let Some(o) = owner.get(tok) {
                        if !obs.in_use.contains(*o) {
                            bad = Some(format!("'{}' uses {}, a cell of function {} which is not in functions_actually_in_use (its storage is never declared)", l.text.trim(), tok, o));
                            break 'scan;
                        }
                    }
                    if l.mnemonic == "JSR" && fnames.contains(tok) && !obs.in_use.contains(tok) {
                        bad = Some(format!("'{}' calls {}, which is not in functions_actually_in_use (the routine is never emitted)", l.text.trim(), tok));
                        break 'scan;
                    }
                }
            }
            if let Some(w) = bad {
                let s = sig.clone().unwrap_or(format!("C13:{}:{}", kind, idx));
                res.class = "accepted but references an undefined symbol".into();
                res.violate(
                    &s,
                    &format!("C13 -O{}: {}\n--- source\n{}", lvl, w, src),
                    json!({"kind": kind, "idx": idx, "opt": lvl, "why": w, "source": src, "listing": listing(obs)}),
                );
                return res;
            }
        }
        // data tables are written by the builder, and a name in an initialiser may belong to an
        // assembler file the compiler never sees: only the instruction text is judged
        let mutant = kind == "mutant";
        let judged = |e: &&crate::asm6502::AsmError| -> bool {
            if e.func.is_empty() && e.detail.ends_with("in ROM table") {
                return false;
            }
            if mutant {
                // mutants are mostly not valid C.  Not the compiler's text: the content of asm()
                // strings (unknown mnemonics, syntax).  Not decidable by the compiler: operand
                // values that depend on where the builder places a variable (a constant subscript
                // far outside its array), and the bank-call trampolines (CallNAME) the builder of
                // a banked cartridge provides
                if e.kind == "unknown-mnemonic" || e.kind == "syntax" || e.kind == "value-range" {
                    return false;
                }
                if e.kind == "undefined-symbol" && e.detail.starts_with("Call") {
                    return false;
                }
            }
            true
        };
        if let Some(e) = b.asm.errors.iter().find(judged) {
            let s = sig.clone().unwrap_or(format!("C13:{}:{}", kind, idx));
            res.class = "accepted but does not assemble".into();
            res.violate(
                &s,
                &format!("C13 -O{}: {} in {} line {}: {}\n--- source\n{}", lvl, e.kind, e.func, e.lineno, e.detail, src),
                json!({"kind": kind, "idx": idx, "opt": lvl, "why": format!("{}: {}", e.kind, e.detail), "source": src, "listing": listing(obs)}),
            );
            return res;
        }
        if *lvl == 0 && !mutant {
            let (n, sk, bad) = inline_copies_check(obs);
            res.count("inline expansions compared with the renamed body", n);
            res.count("inline expansions not compared (long-branch repair rewrote the text)", sk);
            if let Some(w) = bad {
                let s = sig.clone().unwrap_or(format!("C13:{}:{}", kind, idx));
                res.class = "accepted but an inlined copy binds a label to the wrong place".into();
                res.violate(
                    &s,
                    &format!("C13 -O0: {}\n--- source\n{}", w, src),
                    json!({"kind": kind, "idx": idx, "opt": lvl, "why": w, "source": src, "listing": listing(obs)}),
                );
                return res;
            }
        }
    }
    res.class = "accepted and assembles".into();
    res
}

impl Monitor for C13 {
    fn id(&self) -> &'static str {
        "C13"
    }
    fn level(&self) -> &'static str {
        "exploration"
    }
    fn rule(&self) -> String {
        "every function text of every accepted corpus program (operator matrix, random programs, optimiser bait, superchip / 3E / 3E+ \
         placements, hardware-register programs, padded long-branch programs, label-stress programs with multiple and nested inlining) \
         at -O0 and -O1 (-O2/-O3 on a tenth) is parsed by the independent assembler: official opcode/mode matrix with DASM's zero-page rule, \
         per-function local label scopes, global symbols from the linker-like layout; errors = illegal mode, undefined symbol, duplicate \
         label, out-of-range branch or operand. Emitted code may only name routines and cells of functions in functions_actually_in_use. At -O0 every \
         expansion closed by a .endofinline<N> label must be, line for line, the body of one of the inline functions with the suffix inline<N> on every \
         local label it defines or names (a reference left unrenamed binds to the caller's label of that name); expansions whose text long-branch \
         repair rewrote are counted as not compared. Token mutants of valid programs that the compiler accepts must assemble too. \
         non-trivial = accepted and assembled"
            .into()
    }
    fn assumptions(&self) -> Vec<String> {
        vec!["the assembler is as strict as DASM on the dialect cc6502 emits, not stricter (DESIGN.md section 4)".into()]
    }
    fn plan(&self, tier: &Tier, seed: u64) -> Vec<Chunk> {
        let mut v = split_chunks("pin", 0, c13_pins().len() as u64, c13_pins().len() as u64, 2);
        let ng = GENERATED_FAMILIES.len() as u64 * 3;
        v.extend(split_chunks("genlabel", 0, ng, ng, 10));
        v.extend(plan_corpus(tier, seed, "C13", 10_000, 100_000));
        let nm = if *tier == Tier::Quick { 60_000 } else { 400_000 };
        v.extend(split_chunks("mutant", seed_offset(seed, "C13m", 400_000), nm, 400_000, 400));
        v
    }
    fn run_case(&self, kind: &str, idx: u64) -> CaseResult {
        if kind == "pin" {
            let (name, src) = c13_pins()[idx as usize];
            let mut r = c13_source(kind, idx, src, &Opts::default(), &[0, 1], Some(format!("pin:{}", name)));
            r.sample = Some(json!({"kind": "pin", "name": name, "source": src, "class": r.class}));
            return r;
        }
        if kind == "genlabel" {
            let (name, src) = c13_genlabel(idx);
            let mut r = c13_source(kind, idx, &src, &Opts::default(), &[0, 1, 2], Some(format!("genlabel:{}", name)));
            r.set("user labels spelt like generated ones", &format!("{} -> {}", name, r.class));
            if idx % 7 == 0 {
                r.sample = Some(json!({"kind": kind, "name": name, "source": src, "class": r.class}));
            }
            return r;
        }
        if kind == "mutant" {
            // token mutants of valid programs (C16's pool): most are refused; what is accepted
            // is usually not valid C, and must still assemble
            let mut ops = Vec::new();
            let src = crate::mon_c16::mutant_source(idx, &mut ops);
            let mut r = c13_source(kind, idx, &src, &Opts::default(), &[0, 1], None);
            if r.class == "accepted and assembles" {
                r.count("accepted token mutants assembled", 1);
            }
            return r;
        }
        let (p, o) = corpus_program(kind, idx);
        let src = print_program(&p);
        let levels: &[u8] = if idx % 10 == 0 { &[0, 1, 2, 3] } else { &[0, 1] };
        let mut r = c13_source(kind, idx, &src, &o, levels, None);
        if idx % 1499 == 0 {
            r.sample = Some(json!({"kind": kind, "idx": idx, "source": src, "class": r.class}));
        }
        r
    }
    fn thresholds(&self, tier: &Tier) -> Vec<(String, u64)> {
        vec![
            ("distinct_nontrivial".into(), if *tier == Tier::Quick { 15000 } else { 100000 }),
            ("set:mnemonic x addressing mode emitted".into(), 90),
            ("set:local label families".into(), 25),
            ("inline expansions compared with the renamed body".into(), 5000),
        ]
    }
}

// ------------------------------------------------------------------------------------ C04

fn declared_sizes(src: &str) -> BTreeMap<String, u32> {
    // asm("... ;@I<k> ...", N)  -> marker -> declared size (default 3)
    let mut m = BTreeMap::new();
    let mut rest = src;
    while let Some(i) = rest.find("asm(\"") {
        let after = &rest[i + 5..];
        let end = match after.find('"') {
            Some(e) => e,
            None => break,
        };
        let text = &after[..end];
        let tail = &after[end + 1..];
        let mut size = 3u32;
        let t = tail.trim_start();
        if let Some(t2) = t.strip_prefix(',') {
            let num: String = t2.trim_start().chars().take_while(|c| c.is_ascii_digit()).collect();
            if let Ok(n) = num.parse::<u32>() {
                size = n;
            }
        }
        if let Some(k) = text.find("@I") {
            let mk: String = text[k..].chars().take_while(|c| c.is_ascii_alphanumeric() || *c == '@').collect();
            m.insert(mk, size);
        }
        rest = tail;
    }
    m
}

fn c04_source(kind: &str, idx: u64, src: &str, opts_base: &Opts, levels: &[u8]) -> CaseResult {
    let mut res = CaseResult::new("accepted", crate::util::hash_str(src));
    let decl = declared_sizes(src);
    for lvl in levels {
        let mut o = opts_base.clone();
        o.opt_level = *lvl;
        let out = compile_src(src, &o);
        let obs = match &out {
            Outcome::Ok(obs) => obs,
            other => {
                res.class = outcome_class(other);
                return res;
            }
        };
        let lay = match layout(obs, false) {
            Ok(l) => l,
            Err(e) => {
                res.class = format!("layout: {}", norm_msg(&e));
                return res;
            }
        };
        // every function that has code, inline ones included (their `return` jumps to `.endof`)
        let mut input = AsmInput { symbols: lay.symbols.clone(), org: ORG, ..Default::default() };
        let mut names = Vec::new();
        for f in &obs.funcs {
            if let (Some(t), Some(_)) = (&f.text, f.size_bytes) {
                let mut text = t.clone();
                if f.inline {
                    text.push_str(".endof\n");
                }
                input.funcs.push(AsmFunc { name: f.name.clone(), text, in_image: false, append_rts: false });
                names.push(f.name.clone());
            }
        }
        input.rom = lay.rom.clone();
        let asm = assemble(&input);
        if asm.errors.iter().any(|e| e.kind != "undefined-symbol" && e.kind != "branch-range") {
            res.class = "does not assemble (C13's business)".into();
            return res;
        }
        for (fi, name) in names.iter().enumerate() {
            let f = obs.funcs.iter().find(|f| &f.name == name).unwrap();
            let reported = f.size_bytes.unwrap();
            let mut true_sz = 0u32;
            let mut last_marker: Option<String> = None;
            for l in asm.lines.iter().filter(|l| l.func == fi) {
                if l.kind != LineKind::Instr {
                    if l.kind == LineKind::Label || l.kind == LineKind::Comment {
                        // a label or listing comment between two asm lines separates occurrences
                        if l.kind == LineKind::Label {
                            last_marker = None;
                        }
                    }
                    continue;
                }
                match &l.marker {
                    Some(m) => {
                        if last_marker.as_ref() != Some(m) {
                            true_sz += *decl.get(m).unwrap_or(&3);
                            res.count("inline asm occurrences counted at declared size", 1);
                        }
                        last_marker = Some(m.clone());
                    }
                    None => {
                        last_marker = None;
                        true_sz += l.len as u32;
                        if let Some(mode) = l.mode {
                            res.set("size cells: mnemonic, mode, bytes", &format!("{} {:?} {}", l.mnemonic, mode, l.len));
                        }
                    }
                }
            }
            res.count("functions compared", 1);
            res.count("comparisons", 1);
            res.nontrivial = true;
            if reported != true_sz {
                res.class = "size mismatch".into();
                res.violate(
                    &if kind == "pin" { format!("pin:{}", c04_src_pins()[idx as usize].0) } else { format!("C04:{}:{}", kind, idx) },
                    &format!(
                        "C04 -O{}: function {} reports size_bytes() = {} but assembles to {} bytes\n--- source\n{}",
                        lvl, name, reported, true_sz, src
                    ),
                    json!({"kind": kind, "idx": idx, "opt": lvl, "function": name, "reported": reported, "assembled": true_sz,
                           "source": src, "listing": listing(obs), "scheme": obs.scheme}),
                );
                return res;
            }
        }
        res.set("schemes", &obs.scheme);
    }
    res.class = "accepted; every function's size_bytes() equals its assembled size".into();
    res
}

pub fn c04_pins() -> Vec<Pin> {
    vec![]
}

/// sources whose function sizes are checked like those of the corpus
pub fn c04_src_pins() -> Vec<(&'static str, &'static str)> {
    vec![
        (
            "memory_class_of_second_declarator",
            "char * const HI = 0x280, * const LO = 0x81;\nunsigned char r;\nvoid main() { *LO = 1; r = *LO; *HI = r; X = *LO; *LO = X; }\n",
        ),
    ]
}

impl Monitor for C04 {
    fn id(&self) -> &'static str {
        "C04"
    }
    fn level(&self) -> &'static str {
        "exploration"
    }
    fn rule(&self) -> String {
        "for every function (inline ones included) of every accepted corpus program, at -O0 and -O1, GeneratorState.functions_code[f].size_bytes() \
         is compared with the sum of the true encoded lengths (independent assembler, DASM zero-page rule, linker-like placement of every \
         variable) of the compiler-emitted lines plus the declared/default size of every asm() occurrence (recognised by a marker comment). \
         The corpus varies placement: zero page, superchip, 3E and 3E+ cartridge RAM, ROM tables, address-constant pointers below and above $100, \
         asm statements of declared size 0; one pinned source. locals, parameters. non-trivial = at least one function compared"
            .into()
    }
    fn assumptions(&self) -> Vec<String> {
        vec!["asm() statements of the corpus carry a marker comment and their declared size is read back from the source text".into()]
    }
    fn plan(&self, tier: &Tier, seed: u64) -> Vec<Chunk> {
        let np = c04_src_pins().len() as u64;
        let mut v = split_chunks("pin", 0, np, np, 1);
        v.extend(plan_corpus(tier, seed, "C04", 10_000, 100_000));
        v
    }
    fn run_case(&self, kind: &str, idx: u64) -> CaseResult {
        if kind == "pin" {
            let (name, src) = c04_src_pins()[idx as usize];
            let mut r = c04_source(kind, idx, src, &Opts::default(), &[0, 1]);
            r.sample = Some(json!({"kind": "pin", "name": name, "source": src, "class": r.class}));
            return r;
        }
        let (p, o) = corpus_program(kind, idx);
        let src = print_program(&p);
        let mut r = c04_source(kind, idx, &src, &o, &[0, 1]);
        if idx % 1499 == 0 {
            r.sample = Some(json!({"kind": kind, "idx": idx, "source": src, "class": r.class}));
        }
        r
    }
    fn thresholds(&self, tier: &Tier) -> Vec<(String, u64)> {
        vec![
            ("distinct_nontrivial".into(), if *tier == Tier::Quick { 15000 } else { 100000 }),
            ("set:size cells: mnemonic, mode, bytes".into(), 80),
            ("inline asm occurrences counted at declared size".into(), 1000),
            ("set:schemes".into(), 4),
        ]
    }
}
