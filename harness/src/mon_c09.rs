// C09: string and character literals are stored byte-exact.
// Reference-decoder monitor: literals built from a hostile alphabet are placed at every position
// a literal may appear; what the compiler stored (VariableDefinition::Array / Value) and what the
// compiled program reads back on the emulator is compared with an independent C literal decoder.

use crate::common::*;
use crate::driver::*;
use crate::emu6502::Stop;
use crate::framework::*;
use crate::layout::{build_image, new_machine, peek};
use crate::util::*;
use serde_json::json;

pub struct C09;

/// pieces a literal is assembled from: (source spelling, decoded bytes, class for the evidence)
fn pieces() -> Vec<(&'static str, Vec<u8>, &'static str)> {
    let mut v: Vec<(&'static str, Vec<u8>, &'static str)> = vec![
        ("\\n", vec![10], "esc \\n"),
        ("\\r", vec![13], "esc \\r"),
        ("\\t", vec![9], "esc \\t"),
        ("\\a", vec![7], "esc \\a"),
        ("\\b", vec![8], "esc \\b"),
        ("\\f", vec![12], "esc \\f"),
        ("\\v", vec![11], "esc \\v"),
        ("\\0", vec![0], "esc \\0"),
        ("\\\\", vec![92], "esc backslash"),
        ("\\\"", vec![34], "esc quote"),
        ("\\\\\\\"", vec![92, 34], "backslash then escaped quote"),
        ("\\\\\\\\", vec![92, 92], "two escaped backslashes"),
        ("//", vec![47, 47], "line-comment opener"),
        ("/*", vec![47, 42], "block-comment opener"),
        ("*/", vec![42, 47], "block-comment closer"),
        ("/* x */", b"/* x */".to_vec(), "whole block comment"),
        ("// y", b"// y".to_vec(), "whole line comment"),
        ("#define X 1", b"#define X 1".to_vec(), "directive text"),
        ("#if 0", b"#if 0".to_vec(), "directive text"),
        ("MAC", b"MAC".to_vec(), "defined macro name"),
        ("FN(1)", b"FN(1)".to_vec(), "defined function-like macro call"),
        ("@3@", b"@3@".to_vec(), "literal-reference lookalike"),
        ("http://a.b/c", b"http://a.b/c".to_vec(), "URL"),
        ("'", vec![39], "single quote"),
        ("?", vec![63], "printable"),
        (" ", vec![32], "blank"),
        ("\\'", vec![39], "esc single quote"),
    ];
    for (s, cl) in [("a", "printable"), ("Z", "printable"), ("0", "printable"), ("~", "printable"), ("{};", "printable"), ("%d", "printable"), ("x=1;", "printable")] {
        v.push((s, s.as_bytes().to_vec(), cl));
    }
    v
}

struct Lit {
    spelled: String, // between the quotes
    bytes: Vec<u8>,
    classes: Vec<&'static str>,
}

fn gen_lit(rng: &mut Rng, max_pieces: u64, exclude_trailing_backslash_runs: bool) -> Lit {
    let ps = pieces();
    let n = rng.below(max_pieces) + 1;
    let mut l = Lit { spelled: String::new(), bytes: vec![], classes: vec![] };
    for _ in 0..n {
        let p = rng.pick(&ps);
        if exclude_trailing_backslash_runs && (p.2 == "backslash then escaped quote") {
            continue;
        }
        l.spelled.push_str(p.0);
        l.bytes.extend(p.1.iter());
        l.classes.push(p.2);
    }
    l
}

pub struct Case {
    pub src: String,
    /// (variable name or "lit<k>", expected bytes incl. NUL)
    pub expect: Vec<(String, Vec<u8>)>,
    pub chars: Vec<(String, i32)>,
    pub classes: Vec<String>,
    pub positions: Vec<String>,
    pub copy_from: Option<(String, usize)>,
}

pub fn gen_case(idx: u64) -> Case {
    let mut rng = Rng::for_case("C09", idx);
    let mut lines: Vec<String> = vec!["#define MAC 77".into(), "#define FN(x) ((x)+1)".into(), "#define Z 9".into(), "#define QZ 'Z'".into(), "#define TABC '\t'".into(), "unsigned char out[24];".into(), "char *sp; char *sq;".into()];
    let mut c = Case { src: String::new(), expect: vec![], chars: vec![], classes: vec![], positions: vec![], copy_from: None };
    let mut litno = 0usize; // order in which call-argument / table literals get cctmpN names
    let mut note = |c: &mut Case, l: &Lit| {
        for k in &l.classes {
            c.classes.push(k.to_string());
        }
    };
    let mut body: Vec<String> = vec![];
    let n_items = rng.range(1, 4);
    for item in 0..n_items {
        match rng.below(11) {
            10 => {
                // a literal continued over a backslash-newline: the continuation line's leading
                // blanks belong to the literal
                let l1 = gen_lit(&mut rng, 3, false);
                let l2 = gen_lit(&mut rng, 3, false);
                note(&mut c, &l1);
                note(&mut c, &l2);
                let indent = ["", " ", "   ", "\t", " \t "][rng.below(5) as usize];
                let name = format!("s{}", item);
                let mut b = l1.bytes.clone();
                b.extend(indent.bytes());
                b.extend(l2.bytes.iter());
                b.push(0);
                lines.push(format!("const char {}[] = \"{}\\\n{}{}\";", name, l1.spelled, indent, l2.spelled));
                c.positions.push("literal continued over a splice".into());
                c.expect.push((name, b));
            }
            7 => {
                // a literal inside a skipped conditional region, then literals in active text
                let dead = gen_lit(&mut rng, 3, false);
                let live = gen_lit(&mut rng, 4, false);
                note(&mut c, &live);
                let name = format!("s{}", item);
                let mut b = live.bytes.clone();
                b.push(0);
                match rng.below(3) {
                    0 => {
                        lines.push("#if 0".into());
                        lines.push(format!("const char dead{}[] = \"{}\";", item, dead.spelled));
                        lines.push("#endif".into());
                        lines.push(format!("const char {}[] = \"{}\";", name, live.spelled));
                    }
                    1 => {
                        lines.push("#ifdef NOT_DEFINED_ANYWHERE".into());
                        lines.push(format!("const char {}[] = \"{}\";", name, dead.spelled));
                        lines.push("#else".into());
                        lines.push(format!("const char {}[] = \"{}\";", name, live.spelled));
                        lines.push("#endif".into());
                    }
                    _ => {
                        lines.push("#if 1".into());
                        lines.push(format!("const char {}[] = \"{}\";", name, live.spelled));
                        lines.push("#else".into());
                        lines.push(format!("const char {}[] = \"{}\";", name, dead.spelled));
                        lines.push("#endif".into());
                    }
                }
                c.positions.push("next to a literal in a skipped #if region".into());
                c.expect.push((name, b));
            }
            8 => {
                // initialiser of a local pointer, followed by another literal
                let l1 = gen_lit(&mut rng, 3, false);
                let l2 = gen_lit(&mut rng, 3, false);
                note(&mut c, &l1);
                note(&mut c, &l2);
                body.push(format!("  char *lp{} = \"{}\";", item, l1.spelled));
                body.push(format!("  sq = lp{}; sp = \"{}\";", item, l2.spelled));
                c.positions.push("local pointer initialiser".into());
                for l in [&l1, &l2] {
                    let mut b = l.bytes.clone();
                    b.push(0);
                    c.expect.push(("@body".into(), b));
                }
            }
            9 => {
                // two calls with literal arguments in one expression; a parenthesised literal argument
                let l1 = gen_lit(&mut rng, 3, false);
                let l2 = gen_lit(&mut rng, 3, false);
                let l3 = gen_lit(&mut rng, 3, false);
                for l in [&l1, &l2, &l3] {
                    note(&mut c, l);
                    let mut b = l.bytes.clone();
                    b.push(0);
                    c.expect.push(("@body".into(), b));
                }
                body.push(format!("  out[0] = one(\"{}\") + one(\"{}\"); show(sp, (\"{}\"));", l1.spelled, l2.spelled, l3.spelled));
                c.positions.push("sibling calls / parenthesised argument".into());
            }
            0 | 1 => {
                // const char s[] = "..."
                let l = gen_lit(&mut rng, 5, false);
                note(&mut c, &l);
                let name = format!("s{}", item);
                let mut b = l.bytes.clone();
                b.push(0);
                let decl = format!("const char {}[] = \"{}\";", name, l.spelled);
                // several literals on one physical line
                if rng.chance(1, 3) && !lines.is_empty() && lines.last().unwrap().starts_with("const char s") {
                    let last = lines.pop().unwrap();
                    lines.push(format!("{} {}", last, decl));
                    c.positions.push("initialiser, several literals on one line".into());
                } else {
                    lines.push(decl);
                    c.positions.push("initialiser".into());
                }
                if b.len() <= 24 && c.copy_from.is_none() {
                    c.copy_from = Some((name.clone(), b.len()));
                }
                c.expect.push((name, b));
            }
            2 => {
                // adjacent literals concatenate
                let l1 = gen_lit(&mut rng, 3, false);
                let l2 = gen_lit(&mut rng, 3, false);
                note(&mut c, &l1);
                note(&mut c, &l2);
                let name = format!("s{}", item);
                let mut b = l1.bytes.clone();
                b.extend(l2.bytes.iter());
                b.push(0);
                lines.push(format!("const char {}[] = \"{}\" \"{}\";", name, l1.spelled, l2.spelled));
                c.positions.push("adjacent literals".into());
                c.expect.push((name, b));
            }
            3 => {
                // array-of-pointer table
                let k = rng.range(1, 3);
                let mut parts = vec![];
                for _ in 0..k {
                    let l = gen_lit(&mut rng, 3, false);
                    note(&mut c, &l);
                    let mut b = l.bytes.clone();
                    b.push(0);
                    c.expect.push((format!("cctmp{}", litno), b));
                    litno += 1;
                    parts.push(format!("\"{}\"", l.spelled));
                }
                lines.push(format!("const char *tb{}[{}] = {{{}}};", item, k, parts.join(", ")));
                c.positions.push("array-of-pointers table".into());
            }
            4 => {
                // call arguments (literals of function bodies are numbered after all global ones: emitted later)
                let l1 = gen_lit(&mut rng, 3, false);
                let l2 = gen_lit(&mut rng, 3, false);
                note(&mut c, &l1);
                note(&mut c, &l2);
                body.push(format!("  show(\"{}\", \"{}\");", l1.spelled, l2.spelled));
                c.positions.push("call arguments".into());
                let mut b1 = l1.bytes.clone();
                b1.push(0);
                let mut b2 = l2.bytes.clone();
                b2.push(0);
                c.expect.push(("@body".into(), b1));
                c.expect.push(("@body".into(), b2));
            }
            5 => {
                // character constants
                let chs: Vec<(&str, i32)> = vec![("'a'", 97), ("'\\n'", 10), ("'\\\\'", 92), ("'\\''", 39), ("'\\0'", 0), ("' '", 32), ("'/'", 47), ("'#'", 35), ("'\\f'", 12), ("'\\t'", 9), ("'@'", 64), ("'*'", 42), ("'Z'", 90), ("QZ", 90), ("TABC", 9), ("'\t'", 9), ("FN('Z')", 91), ("'\\a'", 7), ("'\\b'", 8), ("'\\v'", 11), ("'\\r'", 13), ("'\"'", 34), ("'\\\"'", 34), ("'\"'", 34)];
                let (sp, v) = *rng.pick(&chs);
                let name = format!("ck{}", item);
                lines.push(format!("const char {} = {};", name, sp));
                c.chars.push((name, v));
                c.positions.push("character constant".into());
            }
            _ => {
                // assignment of a literal to a pointer in a statement
                let l = gen_lit(&mut rng, 4, false);
                note(&mut c, &l);
                body.push(format!("  sp = \"{}\";", l.spelled));
                c.positions.push("pointer assignment".into());
                let mut b = l.bytes.clone();
                b.push(0);
                c.expect.push(("@body".into(), b));
            }
        }
    }
    lines.push("void show(char *a, char *b) { sp = a; sq = b; }".into());
    lines.push("char one(char *a) { sp = a; return 1; }".into());
    lines.push("void main() {".into());
    // an asm string is also a literal (its text goes to the output verbatim; decoded escapes)
    if rng.chance(1, 4) {
        body.push("  asm(\"NOP ; \\\"quoted\\\" // not a comment\", 1);".into());
        c.positions.push("asm statement".into());
    }
    lines.extend(body);
    if let Some((name, n)) = &c.copy_from {
        lines.push(format!("  for (X = 0; X != {}; X++) out[X] = {}[X];", n, name));
    }
    lines.push("}".into());
    // resolve "@body" names: literals inside function bodies get their cctmp numbers in order of appearance after the global ones
    let mut k = litno;
    for e in c.expect.iter_mut() {
        if e.0 == "@body" {
            e.0 = format!("cctmp{}", k);
            k += 1;
        }
    }
    c.src = lines.join("\n") + "\n";
    if idx % 5 == 0 {
        // CR-LF line ends (also behind the backslash of a splice)
        c.src = c.src.replace('\n', "\r\n");
        c.positions.push("CR-LF line ends".into());
    }
    c
}

fn def_bytes(v: &VarInfo) -> Option<Vec<i32>> {
    match &v.def {
        Def::Array(a) => Some(a.iter().map(|x| if let Val::Int(i) = x { *i } else { -1 }).collect()),
        _ => None,
    }
}

fn judge(kind: &str, idx: u64, c: &Case, sig: Option<String>) -> CaseResult {
    let mut res = CaseResult::new("", hash_str(&c.src));
    let out = compile_src(&c.src, &Opts::o(1));
    for k in &c.classes {
        res.set("literal content classes", k);
    }
    for p in &c.positions {
        res.set("literal positions", p);
    }
    let obs = match &out {
        Outcome::Ok(o) => o,
        other => {
            // the property speaks about literals the compiler accepts
            res.class = format!("not accepted: {}", outcome_class(other));
            return res;
        }
    };
    res.nontrivial = true;
    let mut viol = |res: &mut CaseResult, why: String| {
        res.class = "stored bytes differ from the reference decoding".into();
        res.violate(
            &sig.clone().unwrap_or(format!("C09:{}:{}", kind, idx)),
            &format!("C09: {}\n--- source\n{}", why, c.src),
            json!({"kind": kind, "idx": idx, "source": c.src, "why": why}),
        );
    };
    for (name, bytes) in &c.expect {
        res.count("comparisons", 1);
        res.count("literals compared", 1);
        let v = match obs.vars.iter().find(|v| &v.name == name) {
            Some(v) => v,
            None => {
                viol(&mut res, format!("literal variable {} does not exist", name));
                return res;
            }
        };
        let got = def_bytes(v).unwrap_or_default();
        let exp: Vec<i32> = bytes.iter().map(|b| *b as i32).collect();
        if got != exp {
            viol(&mut res, format!("{}: stored {:?}, reference decoding {:?}", name, got, exp));
            return res;
        }
        // the recorded size of a named array and of every literal (cctmpN) is its byte count
        if v.size != bytes.len() {
            viol(&mut res, format!("{}: size {} but {} bytes", name, v.size, bytes.len()));
            return res;
        }
    }
    for (name, val) in &c.chars {
        res.count("comparisons", 1);
        res.count("character constants compared", 1);
        let v = obs.vars.iter().find(|v| &v.name == name);
        match v.map(|v| &v.def) {
            Some(Def::Value(Val::Int(i))) if *i == *val => {}
            other => {
                viol(&mut res, format!("character constant {}: {:?}, expected {}", name, other, val));
                return res;
            }
        }
    }
    // dynamic: what the compiled program reads when it indexes the literal
    if let Some((name, n)) = &c.copy_from {
        if let Ok(b) = build_image(obs, false) {
            if b.asm.errors.is_empty() {
                let mut m = new_machine(&b);
                let stop = m.run(b.asm.entry_stub, 200_000);
                if stop == Stop::Halt {
                    let exp = &c.expect.iter().find(|e| &e.0 == name).unwrap().1;
                    if let Some(rv) = b.layout.ram.iter().find(|r| r.name == "out") {
                        let got: Vec<u8> = (0..*n).map(|i| peek(&m, &b, rv, i as u16)).collect();
                        res.count("comparisons", 1);
                        res.count("literals read back on the emulator", 1);
                        if &got != exp {
                            viol(&mut res, format!("the compiled program read {:?} from {}, reference decoding {:?}", got, name, exp));
                            return res;
                        }
                    }
                }
            }
        }
    }
    res.class = "accepted; stored bytes equal the reference decoding".into();
    if idx % 401 == 0 {
        res.sample = Some(json!({"kind": kind, "idx": idx, "source": c.src}));
    }
    res
}

pub fn c09_pins() -> Vec<(&'static str, Case)> {
    let mk = |src: &str, expect: Vec<(&str, Vec<u8>)>, chars: Vec<(&str, i32)>| Case {
        src: src.to_string(),
        expect: expect.into_iter().map(|(n, b)| (n.to_string(), b)).collect(),
        chars: chars.into_iter().map(|(n, v)| (n.to_string(), v)).collect(),
        classes: vec![],
        positions: vec![],
        copy_from: None,
    };
    vec![
        ("sibling_call_literals", mk("char *p;\nunsigned char r;\nchar g(char *s) { p = s; return 1; }\nchar h(char *a, char *b) { p = a; p = b; return 1; }\nvoid main() { r = g(\"aa\") + g(\"bb\"); h(\"cc\", (\"dd\")); }\n", vec![("cctmp0", vec![97, 97, 0]), ("cctmp1", vec![98, 98, 0]), ("cctmp2", vec![99, 99, 0]), ("cctmp3", vec![100, 100, 0])], vec![])),
        ("escaped_backslash_then_escaped_quote", mk("#if 0\nconst char d[] = \"\\\\\\\"/*\";\n#endif\nconst char s0[] = \"a\\\\\\\"b\";\nconst char s1[] = \"z\";\nvoid main() {}\n", vec![("s0", vec![97, 92, 34, 98, 0]), ("s1", vec![122, 0])], vec![])),
        ("quote_character_constant", mk("const char k0 = '\"';\nconst char s0[] = \"a\\\"b\";\nconst char k1 = '\\\"';\nconst char s1[] = \"z\"; const char k2 = '\"'; const char s2[] = \"y\";\nvoid main() {}\n", vec![("s0", vec![97, 34, 98, 0]), ("s1", vec![122, 0]), ("s2", vec![121, 0])], vec![("k0", 34), ("k1", 34), ("k2", 34)])),
        ("literal_sizes_in_pointer_table", mk("const char *tab[3] = {\"one\", \"fours\", \"\"};\nvoid main() {}\n", vec![("cctmp0", vec![111, 110, 101, 0]), ("cctmp1", vec![102, 111, 117, 114, 115, 0]), ("cctmp2", vec![0])], vec![])),
        ("macro_name_in_character_constant", mk("#define a 5\n#define Q 'a'\nconst char k0 = 'a';\nconst char k1 = Q;\nvoid main() {}\n", vec![], vec![("k0", 97), ("k1", 97)])),
        ("macro_parameter_in_character_constant", mk("#define PICK(x) ((x) ? 'x' : 'y')\nconst char k0 = PICK(1);\nconst char k1 = PICK(0);\nvoid main() {}\n", vec![], vec![("k0", 120), ("k1", 121)])),
        ("formfeed_escape", mk("const char s0[] = \"a\\fb\";\nconst char ck = '\\f';\nvoid main() {}\n", vec![("s0", vec![97, 12, 98, 0])], vec![("ck", 12)])),
    ]
}

impl Monitor for C09 {
    fn id(&self) -> &'static str {
        "C09"
    }
    fn level(&self) -> &'static str {
        "exploration"
    }
    fn rule(&self) -> String {
        "literals assembled from a hostile alphabet (every listed escape, escaped quotes and backslashes and runs of them before the closing \
         quote, //, /*, */, whole comments, directive text, names of defined object-like and function-like macros, @n@ lookalikes, URLs, printable \
         ASCII) are placed in initialisers (one or several per line), adjacent-literal concatenations, array-of-pointer tables, call arguments, \
         pointer assignments and asm statements, plus character constants. For accepted sources the stored VariableDefinition::Array / Value and \
         size are compared with an independent C literal decoder, and a compiled loop copies one literal into RAM on the emulator. Rejections \
         are counted by message. Every fifth case has CR-LF line ends; the size recorded for every literal (named or cctmpN) must be its byte count. non-trivial = accepted and compared"
            .into()
    }
    fn assumptions(&self) -> Vec<String> {
        vec!["only accepted literals are judged, as the property says".into()]
    }
    fn plan(&self, tier: &Tier, seed: u64) -> Vec<Chunk> {
        let np = c09_pins().len() as u64;
        let mut v = split_chunks("pin", 0, np, np, 1);
        let n = match tier {
            Tier::Quick => 100_000,
            Tier::Thorough => 600_000,
        };
        v.extend(split_chunks("lit", seed_offset(seed, "C09", 600_000), n, 600_000, 400));
        v
    }
    fn run_case(&self, kind: &str, idx: u64) -> CaseResult {
        if kind == "pin" {
            let (name, c) = &c09_pins()[idx as usize];
            return judge(kind, idx, c, Some(format!("pin:{}", name)));
        }
        judge(kind, idx, &gen_case(idx), None)
    }
    fn thresholds(&self, _tier: &Tier) -> Vec<(String, u64)> {
        vec![
            ("distinct_nontrivial".into(), 5000),
            ("set:literal content classes".into(), 25),
            ("set:literal positions".into(), 11),
            ("literals read back on the emulator".into(), 1000),
            ("character constants compared".into(), 500),
        ]
    }
}
