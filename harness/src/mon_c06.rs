// C06: diagnostics name the true source location.
// Location monitor: a source is built from a random sequence of line-shifting constructs with
// exactly one planted defect whose (file, line, including file and line) is known by
// construction; the Error returned by the real compile() must carry that place.

use crate::driver::*;
use crate::framework::*;
use crate::util::*;
use serde_json::json;

pub struct C06;

struct Defect {
    kind: &'static str,
    text: &'static str, // the offending line
    msg: &'static str,  // fragment the message must contain (to be sure it is *this* defect)
    level: u8,          // 0 = top level line, 1 = statement inside a function body
    needs: &'static str,
}

const DEFECTS: &[Defect] = &[
    Defect { kind: "preprocessor: #error", text: "#error planted", msg: "planted", level: 0, needs: "" },
    Defect { kind: "preprocessor: unknown directive", text: "#frobnicate 1", msg: "Unrecognised preprocessor directive", level: 0, needs: "" },
    Defect { kind: "preprocessor: unterminated string", text: "const char us[] = \"unterminated;", msg: "Unterminated string", level: 0, needs: "" },
    Defect { kind: "preprocessor: malformed #if", text: "#if", msg: "Expected expression", level: 0, needs: "" },
    Defect { kind: "preprocessor: missing include", text: "#include \"no_such_file.h\"", msg: "not found", level: 0, needs: "" },
    Defect { kind: "syntax: illegal token at top level", text: "unsigned char q $ 3;", msg: "expected", level: 0, needs: "" },
    Defect { kind: "syntax: illegal token in a statement", text: "  v0 = 1 $ 2;", msg: "expected", level: 1, needs: "" },
    Defect { kind: "semantic: unknown identifier", text: "  v0 = nosuch;", msg: "Unknown identifier nosuch", level: 1, needs: "" },
    Defect { kind: "semantic: redefinition", text: "unsigned char v0;", msg: "already defined", level: 0, needs: "" },
    Defect { kind: "semantic: array initialiser size", text: "const char t3[3] = {1, 2};", msg: "Specified array size", level: 0, needs: "" },
    Defect { kind: "generator: too many parameters", text: "  f0(1, 2);", msg: "Too many parameters", level: 1, needs: "" },
    Defect { kind: "generator: not enough parameters", text: "  g1();", msg: "Not enough parameters", level: 1, needs: "" },
    Defect { kind: "semantic: subscript on X", text: "  v0 = X[1];", msg: "No subscript for X", level: 1, needs: "" },
    Defect { kind: "semantic: unknown function", text: "  nofunc();", msg: "Unknown identifier nofunc", level: 1, needs: "" },
    Defect { kind: "generator: undefined inline function", text: "  ip();", msg: "Undefined function", level: 1, needs: "" },
    Defect { kind: "generator: break outside loop", text: "  break;", msg: "outside loop", level: 1, needs: "" },
    Defect { kind: "generator: unsupported csleep", text: "  csleep(1);", msg: "Unsupported cycle sleep", level: 1, needs: "" },
    Defect { kind: "generator: deref of a non-pointer", text: "  *v0 = 1;", msg: "Deref on something else", level: 1, needs: "" },
    Defect { kind: "generator: void value used", text: "  v0 = f0();", msg: "void", level: 1, needs: "" },
    Defect { kind: "generator: no multiplier", text: "  v0 = v0 * v1;", msg: "multiplier", level: 1, needs: "" },
    Defect { kind: "semantic: unknown identifier at column 0", text: "v0 = nosuch;", msg: "Unknown identifier nosuch", level: 1, needs: "" },
    Defect { kind: "generator: break outside loop at column 0", text: "break;", msg: "outside loop", level: 1, needs: "" },
    Defect { kind: "preprocessor: undefined identifier in #if", text: "#if NOSUCHMACRO", msg: "ndefined identifier", level: 0, needs: "" },
    Defect { kind: "semantic: pointer to short (global)", text: "short *ps;", msg: "Type too complex", level: 0, needs: "" },
    Defect { kind: "semantic: pointer to short (local)", text: "  short *pl;", msg: "Type too complex", level: 1, needs: "" },
    Defect { kind: "semantic: pointer to short (parameter)", text: "void fq(char xq, short *q) { }", msg: "Type too complex", level: 0, needs: "" },
    Defect { kind: "semantic: goto to an undefined label", text: "  goto nolabel;", msg: "Undefined label nolabel", level: 1, needs: "" },
    Defect { kind: "semantic: label defined twice", text: "  v0 = 1; twice: v0 = 2; twice: v0 = 3;", msg: "already defined", level: 1, needs: "" },
    Defect { kind: "generator: strobe of an element", text: "  strobe(v0[1]);", msg: "Strobe only works", level: 1, needs: "" },
];

pub struct Case {
    pub main: String,
    pub files: Vec<(String, String)>,
    pub exp_file: String,
    pub exp_lines: Vec<u32>,
    pub exp_included_in: Option<(String, u32)>,
    pub msg: &'static str,
    pub kind: &'static str,
    pub constructs: Vec<String>,
    pub offset: i64, // preprocessed-line index minus original line (evidence: must be non-zero)
    pub crlf: bool,
}

struct W {
    lines: Vec<String>,
    n: usize,
    constructs: Vec<String>,
    dropped: i64, // physical lines that do not reach the preprocessed text
}

impl W {
    fn line(&mut self, s: &str) {
        self.lines.push(s.to_string());
    }
    fn cur(&self) -> u32 {
        self.lines.len() as u32
    }
    fn shifter(&mut self, rng: &mut Rng, files: &mut Vec<(String, String)>, in_function: bool) {
        self.n += 1;
        let n = self.n;
        let decl = |k: usize| if in_function { format!("  v1 = {};", k % 200) } else { format!("unsigned char w{};", k) };
        if rng.chance(1, 7) {
            // a kept line whose characters take more than one byte each (character constants are
            // the only place where such text survives preprocessing): positions are byte offsets
            let e = "'\u{20ac}' - '\u{20ac}' + '\u{e9}' - '\u{e9}' + '\u{20ac}' - '\u{20ac}' + '\u{20ac}' - '\u{20ac}'";
            if in_function {
                self.line(&format!("  v1 = {} + {};", e, n % 100));
            } else {
                self.line(&format!("const char mb{} = {} + {};", n, e, n % 100));
            }
            self.constructs.push("kept line with multi-byte characters".into());
            return;
        }
        match rng.below(if in_function { 9 } else { 13 }) {
            0 => {
                self.line("");
                self.line("");
                self.dropped += 2;
                self.constructs.push("blank lines".into());
            }
            1 => {
                let k = rng.range(1, 5);
                self.line("/* block comment");
                for i in 0..k - 1 {
                    self.line(&format!("   line {} of it \" // still inside", i));
                }
                self.line("   end */");
                self.dropped += k + 1;
                self.constructs.push("multi-line block comment".into());
            }
            2 => {
                let k = rng.range(2, 5);
                self.line("/* a");
                for _ in 0..k - 2 {
                    self.line("   b");
                }
                self.line(&format!("   c */ {}", decl(n)));
                self.dropped += k - 1;
                self.constructs.push("block comment with code after */".into());
            }
            3 => {
                self.line("// a line comment");
                self.line(&format!("{} // trailing comment", decl(n)));
                self.dropped += 1;
                self.constructs.push("line comments".into());
            }
            4 => {
                let k = rng.range(2, 4);
                if in_function {
                    self.line("  v1 = \\");
                    for _ in 0..k - 2 {
                        self.line("    1 + \\");
                    }
                    self.line("    2;");
                } else {
                    self.line("unsigned char \\");
                    for _ in 0..k - 2 {
                        self.line("  \\");
                    }
                    self.line(&format!("  sp{};", n));
                }
                self.dropped += k - 1;
                self.constructs.push(format!("splice of {} lines", k));
            }
            5 => {
                self.line("#if 0");
                self.line("this is skipped $ text");
                self.line("#if 1");
                self.line("#define NEVER 1");
                self.line("#else");
                self.line("#error never");
                self.line("#endif");
                self.line("#endif");
                self.dropped += 8;
                self.constructs.push("skipped #if 0 region with nested directives".into());
            }
            6 => {
                self.line("#if 1");
                self.line(&decl(n));
                self.line("#else");
                self.line("skipped $ too");
                self.line("#endif");
                self.dropped += 4;
                self.constructs.push("#if 1 / #else region".into());
            }
            7 => {
                self.line(&format!("#define M{} {}", n, n % 200));
                self.line(&format!("#define F{}(a,b) ((a)+(b))", n));
                self.dropped += 2;
                self.constructs.push("#define lines".into());
            }
            8 => {
                self.line(&decl(n));
                self.constructs.push("plain line".into());
            }
            9 => {
                // C header
                let k = rng.range(1, 6);
                let name = format!("h{}.h", n);
                let mut body: String = (0..k).map(|i| format!("unsigned char hv{}_{};\n", n, i)).collect();
                if rng.chance(1, 3) {
                    body.pop(); // last line without a newline
                    self.constructs.push("#include of a C header that does not end in a newline".into());
                }
                files.push((name.clone(), body));
                self.line(&format!("#include \"{}\"", name));
                self.dropped -= k - 1;
                self.constructs.push("#include of a C header".into());
            }
            10 => {
                let k = rng.range(1, 4);
                let name = format!("a{}.inc", n);
                let body: String = (0..k).map(|i| format!("lab{}_{}\tNOP\n", n, i)).collect();
                files.push((name.clone(), body));
                self.line(&format!("#include \"{}\"", name));
                self.dropped -= k + 2; // BEGIN, file line, body, END
                self.constructs.push("#include of an assembler file".into());
            }
            11 => {
                self.line(&format!("void fn{}() {{", n));
                self.line("  v1 = 2;");
                self.line("  v1++;");
                self.line("}");
                self.constructs.push("multi-line function".into());
            }
            _ => {
                self.line("\t\t");
                self.dropped += 1;
                self.constructs.push("white-space-only line".into());
            }
        }
    }
}

pub fn gen_case(idx: u64) -> Case {
    let mut rng = Rng::for_case("C06", idx);
    let d = &DEFECTS[(idx % DEFECTS.len() as u64) as usize];
    let place = (idx / DEFECTS.len() as u64) % 3; // 0 = main file early, 1 = main file late, 2 = inside an included header
    let mut files: Vec<(String, String)> = Vec::new();
    let mut w = W { lines: vec![], n: 0, constructs: vec![], dropped: 0 };
    // common declarations
    w.line("unsigned char v0, v1;");
    w.line("void f0() { v1 = 1; }");
    w.line("void g1(char a) { v1 = a; }");
    w.line("inline void ip();");
    let pre = rng.range(0, 6);
    for _ in 0..pre {
        w.shifter(&mut rng, &mut files, false);
    }
    let mut exp_file = "string".to_string();
    let mut exp_lines: Vec<u32> = vec![];
    let mut exp_inc: Option<(String, u32)> = None;
    if place == 2 {
        // the defect lives in a header, itself containing shifting constructs
        let mut h = W { lines: vec![], n: 100, constructs: vec![], dropped: 0 };
        let hp = rng.range(0, 4);
        let mut hfiles = Vec::new();
        for _ in 0..hp {
            h.shifter(&mut rng, &mut hfiles, false);
        }
        // no nested includes inside the header for simplicity: drop them
        let has_inc = h.lines.iter().any(|l| l.starts_with("#include"));
        if has_inc {
            h.lines.retain(|l| !l.starts_with("#include"));
        }
        if d.level == 1 {
            h.line("void hf() {");
            h.line("  v1 = 3;");
            h.line(d.text);
            exp_lines.push(h.cur());
            h.line("}");
        } else {
            h.line(d.text);
            exp_lines.push(h.cur());
        }
        h.line("unsigned char after_h;");
        files.push(("defect.h".into(), h.lines.join("\n") + "\n"));
        if rng.chance(1, 2) {
            // two levels: main includes outer.h, which includes defect.h
            let mut o = W { lines: vec![], n: 200, constructs: vec![], dropped: 0 };
            let k = rng.range(0, 3);
            for i in 0..k {
                o.line(&format!("unsigned char ov{};", i));
            }
            o.line("#include \"defect.h\"");
            exp_inc = Some(("outer.h".into(), o.cur()));
            let k2 = rng.range(0, 2);
            for i in 0..k2 {
                o.line(&format!("unsigned char ow{};", i));
            }
            files.push(("outer.h".into(), o.lines.join("\n") + "\n"));
            w.line("#include \"outer.h\"");
            w.constructs.push("defect two include levels deep".into());
        } else {
            w.line("#include \"defect.h\"");
            exp_inc = Some(("string".into(), w.cur()));
        }
        exp_file = "defect.h".into();
        w.constructs.extend(h.constructs);
        w.constructs.push("defect inside an included header".into());
        let post = rng.range(0, 3);
        for _ in 0..post {
            w.shifter(&mut rng, &mut files, false);
        }
        w.line("void main() {");
        w.line("  v0 = 1;");
        w.line("}");
    } else {
        if d.level == 0 {
            if place == 1 {
                // after a function with shifters inside
                w.line("void main() {");
                let k = rng.range(0, 4);
                for _ in 0..k {
                    w.shifter(&mut rng, &mut files, true);
                }
                w.line("  v0 = 1;");
                w.line("}");
            }
            w.line(d.text);
            exp_lines.push(w.cur());
            let post = rng.range(0, 3);
            for _ in 0..post {
                w.shifter(&mut rng, &mut files, false);
            }
            if place != 1 {
                w.line("void main() {");
                w.line("  v0 = 1;");
                w.line("}");
            }
        } else {
            w.line("void main() {");
            let k = rng.range(0, 5);
            for _ in 0..k {
                w.shifter(&mut rng, &mut files, true);
            }
            if place == 1 && rng.chance(1, 2) {
                // the offending statement is itself spliced over two physical lines
                let t = d.text.trim_end_matches(';');
                w.line(&format!("{} \\", t));
                exp_lines.push(w.cur());
                w.line("  ;");
                exp_lines.push(w.cur());
                w.constructs.push("defect on a spliced logical line".into());
            } else {
                w.line(d.text);
                exp_lines.push(w.cur());
            }
            let k2 = rng.range(0, 3);
            for _ in 0..k2 {
                w.shifter(&mut rng, &mut files, true);
            }
            w.line("}");
        }
    }
    let crlf = idx % 7 == 3;
    let mut main = w.lines.join("\n") + "\n";
    if crlf {
        main = main.replace('\n', "\r\n");
        w.constructs.push("CR-LF line ends".into());
    }
    Case {
        main,
        files,
        exp_file,
        exp_lines,
        exp_included_in: exp_inc,
        msg: d.msg,
        kind: d.kind,
        constructs: w.constructs,
        offset: w.dropped,
        crlf,
    }
}

fn scratch_dir() -> String {
    let d = format!("/verif/work/c06inc/p{}", std::process::id());
    let _ = std::fs::create_dir_all(&d);
    d
}

fn judge(kind: &str, idx: u64, c: &Case, sig: Option<String>) -> CaseResult {
    let dir = scratch_dir();
    for (n, body) in &c.files {
        let _ = std::fs::write(format!("{}/{}", dir, n), body);
    }
    let mut opts = Opts::default();
    opts.include_dirs = vec![dir.clone()];
    opts.opt_level = (idx % 2) as u8;
    let out = compile_src(&c.main, &opts);
    let mut res = CaseResult::new("", hash_str(&c.main) ^ hash_str(&format!("{:?}", c.files)));
    res.set("error kinds", c.kind);
    for k in &c.constructs {
        res.set("line-shifting constructs before the defect", k);
        res.set("error kind x construct", &format!("{} | {}", c.kind.split(':').next().unwrap_or(""), k));
    }
    let mut viol = |res: &mut CaseResult, why: String| {
        res.class = "wrong location".into();
        res.violate(
            &sig.clone().unwrap_or(format!("C06:{}:{}", kind, idx)),
            &format!("C06 ({}): {}\n--- main file\n{}\n--- other files\n{:?}", c.kind, why, c.main, c.files),
            json!({"kind": kind, "idx": idx, "why": why, "source": c.main, "files": c.files, "expected_file": c.exp_file, "expected_lines": c.exp_lines, "expected_included_in": c.exp_included_in}),
        );
    };
    match &out {
        Outcome::Err(e) => {
            if !e.msg.contains(c.msg) {
                // another error fired first: the case does not test what it was built for
                res.class = format!("a different error fired first: {}", crate::common::norm_msg(&e.msg));
                return res;
            }
            res.nontrivial = c.offset != 0 || !c.constructs.is_empty();
            res.count("comparisons", 1);
            let file_ok = e.filename == c.exp_file || e.filename.ends_with(&format!("/{}", c.exp_file));
            let line_ok = c.exp_lines.contains(&e.line);
            let inc_ok = match (&e.included_in, &c.exp_included_in) {
                (None, None) => true,
                (Some(a), Some(b)) => a.0 == b.0 && a.1 == b.1,
                _ => false,
            };
            if !(file_ok && line_ok && inc_ok) {
                viol(
                    &mut res,
                    format!(
                        "error '{}' reported at {}:{} (included in {:?}); the defect is at {}:{:?} (included in {:?})",
                        e.msg, e.filename, e.line, e.included_in, c.exp_file, c.exp_lines, c.exp_included_in
                    ),
                );
                return res;
            }
            // the text a user reads (Display) must say the same as the fields
            let want_loc = format!("on line {} of {}", e.line, e.filename);
            let want_inc = e.included_in.as_ref().map(|i| format!("(included in {} on line {})", i.0, i.1));
            if !e.rendered.contains(&want_loc) || want_inc.as_ref().map(|w| !e.rendered.contains(w.as_str())).unwrap_or(false) {
                viol(
                    &mut res,
                    format!(
                        "the rendered message '{}' does not name the location its fields carry ({}:{} included in {:?})",
                        e.rendered, e.filename, e.line, e.included_in
                    ),
                );
                return res;
            }
            res.count("rendered messages checked", 1);
            res.class = "error carries the planted location".into();
            if c.offset != 0 {
                res.count("cases where preprocessed and original line numbers differ", 1);
            }
        }
        Outcome::Ok(_) => {
            res.class = "defect not diagnosed (accepted): not a location question".into();
        }
        Outcome::Panic { site, msg } => {
            res.class = format!("panic at {} : {} (C16's business)", site, crate::common::norm_msg(msg));
        }
    }
    if idx % 997 == 0 {
        res.sample = Some(json!({"kind": kind, "idx": idx, "defect": c.kind, "source": c.main, "files": c.files, "expected": [c.exp_file, c.exp_lines, c.exp_included_in]}));
    }
    res
}

impl Monitor for C06 {
    fn id(&self) -> &'static str {
        "C06"
    }
    fn level(&self) -> &'static str {
        "exploration"
    }
    fn rule(&self) -> String {
        "one defect of a known kind (26 kinds: preprocessor, syntax, semantic, code generation) is planted at a known file and line after a random \
         sequence of 0-6 line-shifting constructs (blank and white-space-only lines, multi-line block comments, code after */, // comments, 2-4 line \
         splices, skipped #if 0 regions with nested directives, #if 1/#else regions, #define lines, #include of a C header and of an assembler file, \
         multi-line functions, CR-LF), in the main file before or after other text or functions, on a spliced logical line, or inside an included \
         header that has its own shifting constructs. The returned Error's filename, line (any physical line of the offending logical line) and \
         included_in must be the planted place; the message must be the planted defect's. non-trivial = the planted error fired and at least one \
         construct preceded it"
            .into()
    }
    fn assumptions(&self) -> Vec<String> {
        vec!["generator errors are attributed to the line of their statement; each offending statement sits on one logical line".into()]
    }
    fn plan(&self, tier: &Tier, seed: u64) -> Vec<Chunk> {
        let n = match tier {
            Tier::Quick => 100_000,
            Tier::Thorough => 400_000,
        };
        split_chunks("loc", seed_offset(seed, "C06", 400_000), n, 400_000, 300)
    }
    fn run_case(&self, kind: &str, idx: u64) -> CaseResult {
        judge(kind, idx, &gen_case(idx), None)
    }
    fn thresholds(&self, _tier: &Tier) -> Vec<(String, u64)> {
        vec![
            ("distinct_nontrivial".into(), 8000),
            ("set:error kinds".into(), 18),
            ("set:line-shifting constructs before the defect".into(), 14),
            ("cases where preprocessed and original line numbers differ".into(), 5000),
        ]
    }
}
