// Optimiser-bait profile (G2): plants the context of every peephole rule of
// AssemblyCode::optimize next to the thing that must invalidate it.

use crate::cmodel::*;
use crate::matrix::*;
use crate::util::Rng;

fn lvv(v: VarId) -> Expr {
    Expr::Lv(LV::Var(v))
}
fn num(n: i32) -> Expr {
    Expr::Num(n)
}
fn bin(op: BinOp, a: Expr, b: Expr) -> Expr {
    Expr::Bin(op, Box::new(a), Box::new(b))
}
fn assign(l: LV, e: Expr) -> Stmt {
    Stmt::Expr(Expr::Assign(l, Box::new(e)))
}
fn idx(a: VarId, e: Expr) -> LV {
    LV::Idx(a, Box::new(e))
}

struct BG {
    rng: Rng,
    asm_n: usize,
    has_f: bool,
    label_n: usize,
}

impl BG {
    fn scalar(&mut self) -> VarId {
        *self.rng.pick(&[A, BV, C, R])
    }
    fn small(&mut self) -> i32 {
        *self.rng.pick(&[0, 1, 2, 5, 7, 0x7f, 0x80, 0xff])
    }
    fn reg(&mut self) -> LV {
        if self.rng.chance(1, 2) {
            LV::X
        } else {
            LV::Y
        }
    }

    /// something that must make the optimiser forget what it knows
    fn invalidator(&mut self, about: VarId) -> Vec<Stmt> {
        match self.rng.below(13) {
            0 => vec![],
            1 => vec![Stmt::Expr(Expr::IncDec { lv: LV::Var(about), post: true, inc: true })],
            2 => vec![Stmt::Expr(Expr::IncDec { lv: LV::Var(about), post: false, inc: false })],
            3 => {
                // a store through an index that may alias
                let k = self.rng.below(8) as i32;
                vec![assign(LV::X, num(k)), assign(idx(ARR, Expr::Lv(LV::X)), lvv(C))]
            }
            4 => {
                let k = self.rng.below(8) as i32;
                vec![assign(LV::Y, num(k)), assign(LV::PtrIdx(P, Box::new(Expr::Lv(LV::Y))), lvv(C))]
            }
            5 => {
                // a label: if-join
                vec![Stmt::If(lvv(C), Box::new(assign(LV::Var(about), num(self.small()))), None)]
            }
            6 => {
                self.asm_n += 1;
                let v = self.small();
                vec![Stmt::Asm(format!("LDA #{} ;@I{}", v, self.asm_n), Some(2))]
            }
            7 => {
                self.asm_n += 1;
                vec![Stmt::Asm(format!("LDX #3 ;@I{}\\n\\tLDY #4 ;@I{}", self.asm_n, self.asm_n), Some(4))]
            }
            8 if self.has_f => vec![Stmt::Expr(Expr::Call(0, vec![]))],
            9 => vec![assign(self.reg(), lvv(C))],
            10 => vec![Stmt::Expr(Expr::OpAssign(BinOp::Add, LV::Var(about), Box::new(num(1))))],
            11 => {
                self.label_n += 1;
                let l = format!("L{}", self.label_n);
                vec![Stmt::If(lvv(BV), Box::new(Stmt::Goto(l.clone())), None), assign(LV::Var(about), num(3)), Stmt::Labeled(l, Box::new(Stmt::Empty))]
            }
            _ => vec![Stmt::Expr(Expr::OpAssign(BinOp::Shl, LV::Var(S), Box::new(num(1))))],
        }
    }

    fn fragment(&mut self) -> Vec<Stmt> {
        let mut v = Vec::new();
        match self.rng.below(25) {
            24 => {
                // signed comparison (BMI / BPL) whose target is near or more than 127 bytes away: the
                // long-branch repair has to keep testing N.  Operands preset less than 128 apart (the
                // recorded family signed_relational_no_overflow_flag starts beyond that)
                let k1 = self.rng.range(-60, 60) as i32;
                let k2 = if self.rng.chance(1, 4) { k1 } else { self.rng.range(-60, 60) as i32 };
                v.push(assign(LV::Var(SA), num(k1)));
                v.push(assign(LV::Var(SB), num(k2)));
                let op = *self.rng.pick(&[BinOp::Lt, BinOp::Le, BinOp::Gt, BinOp::Ge]);
                let n = if self.rng.chance(2, 3) { self.rng.range(33, 40) as usize } else { self.rng.range(1, 3) as usize };
                let mut body = Vec::new();
                for i in 0..n {
                    body.push(assign(LV::Var(if i % 2 == 0 { R } else { C }), num((i as i32 * 5 + 3) & 0xff)));
                }
                let cond = bin(op, lvv(SA), lvv(SB));
                match self.rng.below(3) {
                    0 => v.push(Stmt::If(cond, Box::new(Stmt::Block(body)), None)),
                    1 => v.push(Stmt::If(cond, Box::new(Stmt::Block(body)), Some(Box::new(assign(LV::Var(BV), num(9)))))),
                    _ => {
                        // loop-back test over the long body
                        let lim = k1 + self.rng.range(1, 3) as i32;
                        body.push(Stmt::Expr(Expr::IncDec { lv: LV::Var(SA), post: true, inc: true }));
                        v.push(assign(LV::Var(SB), num(lim)));
                        v.push(Stmt::DoWhile(Box::new(Stmt::Block(body)), bin(BinOp::Lt, lvv(SA), lvv(SB))));
                    }
                }
            }
            22 => {
                // A holds one byte of a short, the short is shifted in memory (ASL / ROL / LSR / ROR on
                // the cells, A untouched), the same byte is read again
                let sv = *self.rng.pick(&[S, T, V]);
                let hi = self.rng.chance(2, 3);
                let byte = |hi: bool| if hi { bin(BinOp::Shr, lvv(sv), num(8)) } else { lvv(sv) };
                if self.rng.chance(1, 3) {
                    v.push(assign(LV::Var(sv), Expr::Hex(*self.rng.pick(&[0x0280, 0x01c0, 0x7fff, 0x0101]))));
                }
                let n = self.rng.range(1, 3) as i32;
                let op = if self.rng.chance(1, 2) { BinOp::Shl } else { BinOp::Shr };
                let shift = Stmt::Expr(Expr::OpAssign(op, LV::Var(sv), Box::new(num(n))));
                let again: Vec<Stmt> = match self.rng.below(3) {
                    0 => vec![assign(LV::Var(BV), byte(hi)), assign(LV::X, num(0))],
                    1 => vec![Stmt::If(bin(BinOp::Eq, byte(hi), num(self.small())), Box::new(assign(LV::Var(C), num(1))), Some(Box::new(assign(LV::Var(C), num(2)))))],
                    _ => vec![assign(LV::Var(BV), byte(hi)), assign(LV::Var(R), lvv(A))],
                };
                if self.rng.chance(1, 2) {
                    v.push(assign(LV::Var(A), byte(hi)));
                    v.push(shift);
                    v.extend(again);
                } else {
                    // as the demonstration of the cached-byte hazard has it: inside the taken branch of a test of that byte
                    let k = if sv == V { 1 } else { self.rng.below(3) as i32 };
                    let mut b = vec![shift];
                    b.extend(again);
                    let op = if self.rng.chance(1, 2) { BinOp::Ne } else { BinOp::Eq };
                    v.push(Stmt::If(bin(op, byte(hi), num(k)), Box::new(Stmt::Block(b)), None));
                }
            }
            23 => {
                // a postfix step below a shift whose result is 16 bits wide: the statement is walked
                // once per result byte, the step must happen once
                let c = self.scalar();
                let sv = *self.rng.pick(&[S, T]);
                let inc = self.rng.chance(3, 4);
                let step = Expr::IncDec { lv: LV::Var(c), post: true, inc };
                let sh = bin(BinOp::Shl, step, num(8)); // (other counts: recorded family wide_dest_shift)
                match self.rng.below(3) {
                    0 => v.push(assign(LV::Var(sv), sh)),
                    1 => {
                        let o = [A, BV, C, R].iter().cloned().find(|x| *x != c).unwrap();
                        v.push(assign(LV::Var(sv), bin(BinOp::Or, Expr::Paren(Box::new(sh)), lvv(o))));
                    }
                    _ => v.push(Stmt::Expr(Expr::OpAssign(BinOp::Add, LV::Var(sv), Box::new(sh)))),
                }
            }
            20 => {
                // register holds a known constant and is compared with a VARIABLE (not a constant)
                let r = self.reg();
                let k = self.small();
                let a = self.scalar();
                if self.rng.chance(1, 2) {
                    v.push(assign(LV::Var(a), num(if self.rng.chance(1, 2) { k } else { k ^ 1 })));
                }
                v.push(assign(r.clone(), num(k)));
                let op = *self.rng.pick(&[BinOp::Eq, BinOp::Ne]);
                v.push(Stmt::If(bin(op, Expr::Lv(r), lvv(a)), Box::new(assign(LV::Var(C), num(1))), Some(Box::new(assign(LV::Var(C), num(2))))));
            }
            21 => {
                // counted loop whose bound is a variable that may equal the start value
                let r = self.reg();
                let a = self.scalar();
                v.push(assign(LV::Var(a), num(self.rng.below(3) as i32)));
                v.push(assign(LV::Var(N), num(0)));
                v.push(Stmt::For(
                    Some(Expr::Assign(r.clone(), Box::new(num(0)))),
                    Some(bin(BinOp::Ne, Expr::Lv(r.clone()), lvv(a))),
                    Some(Expr::IncDec { lv: r, post: true, inc: true }),
                    Box::new(Stmt::Expr(Expr::IncDec { lv: LV::Var(N), post: true, inc: true })),
                ));
            }
            16 => {
                // register holds a known constant, changes by ++ / -- (or is copied), is compared
                let r = self.reg();
                let k = self.rng.range(1, 6) as i32;
                v.push(assign(r.clone(), num(k)));
                v.push(Stmt::Expr(Expr::IncDec { lv: r.clone(), post: self.rng.chance(1, 2), inc: self.rng.chance(1, 2) }));
                let tested = if self.rng.chance(1, 3) {
                    // through the other register
                    let o = if r == LV::X { LV::Y } else { LV::X };
                    v.push(assign(o.clone(), Expr::Lv(r.clone())));
                    o
                } else if self.rng.chance(1, 3) {
                    v.push(assign(LV::Var(A), Expr::Lv(r.clone())));
                    LV::Var(A)
                } else {
                    r
                };
                let kk = k + self.rng.range(-1, 1) as i32;
                let op = *self.rng.pick(&[BinOp::Eq, BinOp::Ne]);
                v.push(Stmt::If(bin(op, Expr::Lv(tested), num(kk)), Box::new(assign(LV::Var(C), num(1))), Some(Box::new(assign(LV::Var(C), num(2))))));
            }
            17 => {
                // register loaded from a variable, the variable overwritten from elsewhere
                // (no accumulator involved), register reloaded from the variable
                let r = self.reg();
                let o = if r == LV::X { LV::Y } else { LV::X };
                let a = self.scalar();
                v.push(assign(r.clone(), lvv(a)));
                match self.rng.below(3) {
                    0 => v.push(assign(LV::Var(a), Expr::Lv(o))),
                    1 => v.push(Stmt::Expr(Expr::IncDec { lv: LV::Var(a), post: true, inc: true })),
                    _ => v.push(assign(LV::Var(a), Expr::Lv(r.clone()))),
                }
                v.push(assign(r.clone(), lvv(a)));
                if self.rng.chance(1, 2) {
                    v.push(Stmt::If(Expr::Lv(r.clone()), Box::new(assign(LV::Var(C), num(1))), None));
                }
                v.push(assign(LV::Var(BV), Expr::Lv(r)));
            }
            18 if self.has_f => {
                // X known, a call that changes X, X compared with what it was
                let k = *self.rng.pick(&[2, 6, 7]);
                v.push(assign(LV::X, num(k)));
                v.push(Stmt::Expr(Expr::Call(0, vec![])));
                let op = *self.rng.pick(&[BinOp::Eq, BinOp::Ne]);
                v.push(Stmt::If(bin(op, Expr::Lv(LV::X), num(k)), Box::new(assign(LV::Var(R), num(1))), Some(Box::new(assign(LV::Var(R), num(2))))));
            }
            19 => {
                // a value known in A reaches a label from two paths with different A
                let a = self.scalar();
                let b = self.scalar();
                v.push(assign(LV::Var(R), bin(BinOp::Lt, lvv(a), lvv(b))));
                v.push(assign(LV::Var(C), num(1)));
                v.push(assign(LV::Var(N), num(2)));
            }
            0 => {
                // reload of a known immediate:  a = K; <inv>; b = K;
                let a = self.scalar();
                let b = self.scalar();
                let k = self.small();
                v.push(assign(LV::Var(a), num(k)));
                v.extend(self.invalidator(a));
                v.push(assign(LV::Var(b), num(k)));
            }
            1 => {
                // reload of a just-stored operand: a = c + 1; <inv>; b = a;
                let a = self.scalar();
                let b = self.scalar();
                v.push(assign(LV::Var(a), bin(BinOp::Add, lvv(C), num(1))));
                v.extend(self.invalidator(a));
                v.push(assign(LV::Var(b), lvv(a)));
            }
            2 => {
                // indexed load, index change, same indexed load
                let r = self.reg();
                let k = self.rng.below(6) as i32;
                v.push(assign(r.clone(), num(k)));
                if self.rng.chance(1, 2) {
                    // the same with no store in between: the loads feed comparisons
                    let k1 = self.small();
                    let k2 = self.small();
                    let change = match self.rng.below(3) {
                        0 => Stmt::Expr(Expr::IncDec { lv: r.clone(), post: true, inc: true }),
                        1 => Stmt::Expr(Expr::IncDec { lv: r.clone(), post: false, inc: false }),
                        _ => assign(r.clone(), num(k + 1)),
                    };
                    let op1 = *self.rng.pick(&[BinOp::Eq, BinOp::Ne, BinOp::Lt, BinOp::Ge]);
                    let op2 = *self.rng.pick(&[BinOp::Eq, BinOp::Ne, BinOp::Lt, BinOp::Ge]);
                    let inner = Stmt::If(bin(op2, Expr::Lv(idx(ARR, Expr::Lv(r.clone()))), num(k2)), Box::new(assign(LV::Var(C), num(1))), None);
                    let seq = vec![change, inner];
                    if self.rng.chance(1, 2) {
                        v.push(Stmt::If(bin(op1, Expr::Lv(idx(ARR, Expr::Lv(r.clone()))), num(k1)), Box::new(Stmt::Block(seq)), None));
                    } else {
                        // straight line: load(arr[r]) has no store either
                        v.push(Stmt::Load(Expr::Lv(idx(ARR, Expr::Lv(r.clone())))));
                        v.extend(seq);
                    }
                    return v;
                }
                v.push(assign(LV::Var(A), Expr::Lv(idx(ARR, Expr::Lv(r.clone())))));
                match self.rng.below(4) {
                    0 => v.push(Stmt::Expr(Expr::IncDec { lv: r.clone(), post: true, inc: true })),
                    1 => v.push(assign(r.clone(), num(k + 1))),
                    2 => v.push(assign(idx(ARR, Expr::Lv(r.clone())), lvv(C))),
                    _ => {}
                }
                v.push(assign(LV::Var(BV), Expr::Lv(idx(ARR, Expr::Lv(r)))));
            }
            3 => {
                // known-immediate compare folding on a register, all six relational operators
                let r = self.reg();
                let k = self.small();
                let k2 = if self.rng.chance(1, 2) { k } else { self.small() };
                let op = *self.rng.pick(&[BinOp::Eq, BinOp::Ne, BinOp::Lt, BinOp::Le, BinOp::Gt, BinOp::Ge]);
                v.push(assign(r.clone(), num(k)));
                if self.rng.chance(1, 2) {
                    let about = self.scalar();
                    v.extend(self.invalidator(about));
                }
                let k2 = if k2 == 0 && !matches!(op, BinOp::Eq | BinOp::Ne) { 1 } else { k2 };
                v.push(Stmt::If(
                    bin(op, Expr::Lv(r), num(k2)),
                    Box::new(assign(LV::Var(R), num(1))),
                    Some(Box::new(assign(LV::Var(R), num(2)))),
                ));
            }
            4 => {
                // the same on the accumulator: a = k; if (a op k2)
                let a = self.scalar();
                let k = self.small();
                let k2 = if self.rng.chance(1, 2) { k } else { self.small() };
                let op = *self.rng.pick(&[BinOp::Eq, BinOp::Ne, BinOp::Lt, BinOp::Le, BinOp::Gt, BinOp::Ge]);
                let k2 = if k2 == 0 && !matches!(op, BinOp::Eq | BinOp::Ne) { 1 } else { k2 };
                v.push(assign(LV::Var(a), num(k)));
                if self.rng.chance(1, 3) {
                    v.extend(self.invalidator(a));
                }
                v.push(Stmt::If(
                    bin(op, lvv(a), num(k2)),
                    Box::new(assign(LV::Var(R), num(1))),
                    Some(Box::new(assign(LV::Var(R), num(2)))),
                ));
            }
            5 => {
                // CLC/SEC - LDA swap next to a flag consumer
                let op = if self.rng.chance(1, 2) { BinOp::Add } else { BinOp::Sub };
                v.push(assign(LV::Var(R), bin(op, lvv(A), lvv(BV))));
                v.push(Stmt::If(lvv(R), Box::new(assign(LV::Var(C), num(9))), None));
                v.push(assign(LV::Var(S), bin(op, lvv(T), lvv(U))));
            }
            6 => {
                // PLA/PHA pairs from nested expressions
                let e = bin(
                    BinOp::Sub,
                    bin(BinOp::Add, lvv(A), lvv(BV)),
                    Expr::Paren(Box::new(bin(BinOp::And, lvv(C), Expr::Paren(Box::new(bin(BinOp::Or, lvv(A), lvv(BV))))))),
                );
                v.push(assign(LV::Var(R), e));
            }
            7 => {
                // transfers: X = a + 1; r = X;   /  a = X; X = a;
                let r = self.reg();
                v.push(assign(r.clone(), bin(BinOp::Add, lvv(A), num(1))));
                v.push(assign(LV::Var(R), Expr::Lv(r.clone())));
                v.push(assign(r, lvv(R)));
            }
            8 => {
                // ORA #0 / AND #255 / + 0
                let k = *self.rng.pick(&[0, 255]);
                let op = *self.rng.pick(&[BinOp::Or, BinOp::And, BinOp::Add, BinOp::Xor]);
                v.push(assign(LV::Var(R), bin(op, lvv(A), num(k))));
            }
            9 => {
                // JMP to the next label: empty arms
                v.push(Stmt::If(lvv(A), Box::new(Stmt::Empty), Some(Box::new(Stmt::Empty))));
                v.push(Stmt::If(lvv(BV), Box::new(Stmt::Block(vec![])), None));
            }
            10 => {
                // loop head as a label between a load and its re-use
                let k = self.small();
                v.push(assign(LV::Var(A), num(k)));
                v.push(Stmt::For(
                    Some(Expr::Assign(LV::Var(N), Box::new(num(0)))),
                    Some(bin(BinOp::Ne, lvv(N), num(3))),
                    Some(Expr::IncDec { lv: LV::Var(N), post: true, inc: true }),
                    Box::new(Stmt::Block(vec![assign(LV::Var(BV), lvv(A)), Stmt::Expr(Expr::OpAssign(BinOp::Add, LV::Var(A), Box::new(num(1))))])),
                ));
                v.push(assign(LV::Var(C), num(k)));
            }
            11 => {
                // switch cases as labels
                let k = self.small();
                v.push(assign(LV::Var(A), num(k)));
                v.push(Stmt::Switch(
                    lvv(BV),
                    vec![(vec![1], vec![assign(LV::Var(A), num(4)), Stmt::Break]), (vec![2], vec![assign(LV::Var(R), num(k))])],
                    Some(vec![assign(LV::Var(C), num(k))]),
                ));
                v.push(assign(LV::Var(R), lvv(A)));
            }
            12 => {
                // store then identical store / load of another var in between
                let a = self.scalar();
                v.push(assign(LV::Var(a), lvv(C)));
                v.push(assign(LV::Var(a), lvv(C)));
                v.push(assign(LV::Var(R), lvv(a)));
            }
            13 => {
                // 16-bit: high/low passes re-use values
                v.push(assign(LV::Var(S), lvv(T)));
                v.push(Stmt::Expr(Expr::IncDec { lv: LV::Var(S), post: true, inc: true }));
                v.push(assign(LV::Var(U), lvv(S)));
            }
            14 => {
                // asm line between two identical loads (the known fixed defect, other shapes)
                let k = self.small();
                self.asm_n += 1;
                v.push(assign(LV::X, num(k)));
                v.push(Stmt::Asm(format!("LDX #{} ;@I{}", (k + 1) & 0xff, self.asm_n), Some(2)));
                v.push(assign(LV::Var(R), Expr::Lv(LV::X)));
                v.push(assign(LV::X, num(k)));
                v.push(assign(LV::Var(A), Expr::Lv(LV::X)));
            }
            _ => {
                // register known, then arithmetic that changes flags, then loop on the register
                let r = self.reg();
                let k = (self.rng.below(3) + 1) as i32;
                v.push(assign(r.clone(), num(k)));
                let about = self.scalar();
                v.extend(self.invalidator(about));
                v.push(Stmt::For(
                    Some(Expr::Assign(r.clone(), Box::new(num(k)))),
                    Some(bin(BinOp::Ne, Expr::Lv(r.clone()), num(0))),
                    Some(Expr::IncDec { lv: r, post: false, inc: false }),
                    Box::new(Stmt::Expr(Expr::IncDec { lv: LV::Var(N), post: true, inc: true })),
                ));
            }
        }
        v
    }
}

pub fn bait_program(index: u64) -> Program {
    let mut g = BG { rng: Rng::for_case("bait", index), asm_n: 0, has_f: false, label_n: 0 };
    let mut p = base();
    g.has_f = g.rng.chance(1, 2);
    if g.has_f {
        let inline = g.rng.chance(1, 3);
        p.funcs.push(Func {
            name: "f".into(),
            ret: None,
            params: vec![],
            body: vec![assign(LV::Var(C), bin(BinOp::Add, lvv(C), num(1))), assign(LV::X, num(6))],
            inline,
            interrupt: false,
            proto_first: false,
        });
    }
    let mut body = vec![assign(LV::Var(P), Expr::AddrOf(ARR))];
    let n = g.rng.range(2, 5);
    for _ in 0..n {
        body.extend(g.fragment());
    }
    p.funcs.push(Func { name: "main".into(), ret: None, params: vec![], body, inline: false, interrupt: false, proto_first: false });
    p
}
