// Pinned witnesses: small hand-written programs with hand-computed expectations.  They are the
// regression probes for defects found on the unchanged tree (fixed ones must stay silent,
// recorded ones are reported as KNOWN-FINDING).  Each pin names the finding it belongs to.

use crate::common::*;
use crate::driver::*;
use crate::emu6502::Stop;
use crate::framework::*;
use crate::layout::{build_image, new_machine, peek, poke};
use serde_json::json;

pub struct Pin {
    pub name: &'static str,
    pub src: &'static str,
    pub init: &'static [(&'static str, i64)],
    pub x: u8,
    pub y: u8,
    pub expect: &'static [(&'static str, i64)],
}

pub struct PinRun {
    pub outcome: String,
    pub values: Vec<(String, i64)>,
    pub x: u8,
    pub y: u8,
    pub listing: String,
    pub stop: Option<Stop>,
    pub cycles: u64,
}

/// compile + run one source with named initial values; returns values of all RAM variables
pub fn run_source(src: &str, opts: &Opts, init: &[(&str, i64)], x: u8, y: u8) -> PinRun {
    let o = compile_src(src, opts);
    let obs = match &o {
        Outcome::Ok(obs) => obs.clone(),
        other => {
            return PinRun { outcome: other.short(), values: vec![], x: 0, y: 0, listing: String::new(), stop: None, cycles: 0 }
        }
    };
    let b = match build_image(&obs, false) {
        Ok(b) => b,
        Err(e) => return PinRun { outcome: format!("layout: {}", e), values: vec![], x: 0, y: 0, listing: listing(&obs), stop: None, cycles: 0 },
    };
    if !b.asm.errors.is_empty() {
        return PinRun {
            outcome: format!("does not assemble: {:?}", b.asm.errors[0]),
            values: vec![],
            x: 0,
            y: 0,
            listing: listing(&obs),
            stop: None,
            cycles: 0,
        };
    }
    let mut m = new_machine(&b);
    for a in 0x80..0x100 {
        m.mem[a] = 0xAA;
    }
    m.a = 0x55;
    m.x = x;
    m.y = y;
    for (n, v) in init {
        if let Some(rv) = b.layout.ram.iter().find(|r| r.name == *n) {
            poke(&mut m, &b, rv, 0, (*v & 0xff) as u8);
            if rv.len >= 2 {
                poke(&mut m, &b, rv, 1, ((*v >> 8) & 0xff) as u8);
            }
        }
    }
    let stop = m.run(b.asm.entry_stub, 2_000_000);
    let mut values = Vec::new();
    for rv in &b.layout.ram {
        let mut v = peek(&m, &b, rv, 0) as i64;
        if rv.len == 2 {
            v |= (peek(&m, &b, rv, 1) as i64) << 8;
        }
        values.push((rv.name.clone(), v));
    }
    PinRun { outcome: "Ok".into(), values, x: m.x, y: m.y, listing: listing(&obs), stop: Some(stop), cycles: m.cycles }
}

pub fn check_pin(prop: &str, pin: &Pin, levels: &[u8]) -> CaseResult {
    let mut r = CaseResult::new("pinned witness: held", crate::util::hash_str(pin.src));
    r.nontrivial = true;
    for lvl in levels {
        let pr = run_source(pin.src, &Opts::o(*lvl), pin.init, pin.x, pin.y);
        let mut why = None;
        if pr.outcome != "Ok" {
            // a rejection is a legal outcome for a witness of "accepted and given another meaning"
            r.class = format!("pinned witness: now rejected ({})", norm_msg(&pr.outcome));
            continue;
        }
        match &pr.stop {
            Some(Stop::Halt) => {
                for (n, e) in pin.expect {
                    let got = if *n == "X" {
                        Some(pr.x as i64)
                    } else if *n == "Y" {
                        Some(pr.y as i64)
                    } else {
                        pr.values.iter().find(|v| v.0 == *n).map(|v| v.1)
                    };
                    if got != Some(*e) {
                        why = Some(format!("{} = {:?}, expected {}", n, got, e));
                        break;
                    }
                }
            }
            Some(s) => why = Some(stop_str(s)),
            None => {}
        }
        r.count("comparisons", 1);
        if let Some(w) = why {
            r.class = "pinned witness: violated".into();
            r.violate(
                &format!("pin:{}", pin.name),
                &format!("{} pinned witness '{}' at -O{}: {}\n--- source\n{}", prop, pin.name, lvl, w, pin.src),
                json!({"kind": "pin", "name": pin.name, "opt": lvl, "why": w, "source": pin.src, "listing": pr.listing}),
            );
            break;
        }
    }
    r.sample = Some(json!({"kind": "pin", "name": pin.name, "source": pin.src, "class": r.class}));
    r
}

pub fn c01_pins() -> Vec<Pin> {
    vec![
        Pin {
            name: "postinc_in_condition",
            src: "unsigned char i, n; void main() { i = 0; n = 7; if (i++ == 3) n = 1; }",
            init: &[],
            x: 0,
            y: 0,
            expect: &[("i", 1), ("n", 7)],
        },
        Pin {
            name: "while_postdec",
            src: "unsigned char i, n; void main() { i = 3; n = 0; while (i--) n++; }",
            init: &[],
            x: 0,
            y: 0,
            expect: &[("n", 3), ("i", 255)],
        },
        Pin {
            name: "two_calls_in_expression",
            src: "unsigned char a, b, c; char f(char x) { return x + 1; } char g(char x) { return x + 2; } void main() { a = 10; b = 20; c = f(a) + g(b); }",
            init: &[],
            x: 0,
            y: 0,
            expect: &[("c", 33)],
        },
        Pin {
            name: "signed_less_than_far_apart",
            src: "signed char a, b; unsigned char r; void main() { r = 0; if (a < b) r = 1; }",
            init: &[("a", 100), ("b", 0x9c)], // 100 < -100 is false
            x: 0,
            y: 0,
            expect: &[("r", 0)],
        },
        Pin {
            name: "eq_binds_looser_than_relational",
            src: "unsigned char a, b, c, r; void main() { a = 1; b = 0; c = 1; r = 0; if (a == b < c) r = 1; }",
            init: &[],
            x: 0,
            y: 0,
            // C: a == (b < c) -> 1 == 1 -> true
            expect: &[("r", 1)],
        },
    ]
}

pub fn run_c01_pin(idx: u64) -> CaseResult {
    let pins = c01_pins();
    check_pin("C01", &pins[idx as usize], &[0, 1])
}
