// Pinned witnesses: small hand-written programs with hand-computed expectations.  They are the
// regression probes for defects found on the unchanged tree (fixed ones must stay silent,
// recorded ones are reported as KNOWN-FINDING).  Each pin names the finding it belongs to.

use crate::common::*;
use crate::driver::*;
use crate::emu6502::Stop;
use crate::framework::*;
use crate::layout::{build_image, new_machine, peek, poke};
use serde_json::json;

pub struct Pin {
    pub name: &'static str,
    pub src: &'static str,
    pub init: &'static [(&'static str, i64)],
    pub x: u8,
    pub y: u8,
    pub expect: &'static [(&'static str, i64)],
}

pub struct PinRun {
    pub outcome: String,
    pub values: Vec<(String, i64)>,
    pub x: u8,
    pub y: u8,
    pub listing: String,
    pub stop: Option<Stop>,
    pub cycles: u64,
}

/// compile + run one source with named initial values; returns values of all RAM variables
pub fn run_source(src: &str, opts: &Opts, init: &[(&str, i64)], x: u8, y: u8) -> PinRun {
    let o = compile_src(src, opts);
    let obs = match &o {
        Outcome::Ok(obs) => obs.clone(),
        other => {
            return PinRun { outcome: other.short(), values: vec![], x: 0, y: 0, listing: String::new(), stop: None, cycles: 0 }
        }
    };
    let b = match build_image(&obs, false) {
        Ok(b) => b,
        Err(e) => return PinRun { outcome: format!("layout: {}", e), values: vec![], x: 0, y: 0, listing: listing(&obs), stop: None, cycles: 0 },
    };
    if !b.asm.errors.is_empty() {
        return PinRun {
            outcome: format!("does not assemble: {:?}", b.asm.errors[0]),
            values: vec![],
            x: 0,
            y: 0,
            listing: listing(&obs),
            stop: None,
            cycles: 0,
        };
    }
    let mut m = new_machine(&b);
    for a in 0x80..0x100 {
        m.mem[a] = 0xAA;
    }
    m.a = 0x55;
    m.x = x;
    m.y = y;
    for (n, v) in init {
        if let Some(rv) = b.layout.ram.iter().find(|r| r.name == *n) {
            poke(&mut m, &b, rv, 0, (*v & 0xff) as u8);
            if rv.len >= 2 {
                poke(&mut m, &b, rv, 1, ((*v >> 8) & 0xff) as u8);
            }
        }
    }
    let stop = m.run(b.asm.entry_stub, 2_000_000);
    let mut values = Vec::new();
    for rv in &b.layout.ram {
        let mut v = peek(&m, &b, rv, 0) as i64;
        if rv.len == 2 {
            v |= (peek(&m, &b, rv, 1) as i64) << 8;
        }
        values.push((rv.name.clone(), v));
    }
    PinRun { outcome: "Ok".into(), values, x: m.x, y: m.y, listing: listing(&obs), stop: Some(stop), cycles: m.cycles }
}

pub fn check_pin(prop: &str, pin: &Pin, levels: &[u8]) -> CaseResult {
    let mut r = CaseResult::new("pinned witness: held", crate::util::hash_str(pin.src));
    r.nontrivial = true;
    for lvl in levels {
        let pr = run_source(pin.src, &Opts::o(*lvl), pin.init, pin.x, pin.y);
        let mut why = None;
        if pr.outcome != "Ok" {
            // a rejection is a legal outcome for a witness of "accepted and given another meaning"
            r.class = format!("pinned witness: now rejected ({})", norm_msg(&pr.outcome));
            continue;
        }
        match &pr.stop {
            Some(Stop::Halt) => {
                for (n, e) in pin.expect {
                    let got = if *n == "X" {
                        Some(pr.x as i64)
                    } else if *n == "Y" {
                        Some(pr.y as i64)
                    } else {
                        pr.values.iter().find(|v| v.0 == *n).map(|v| v.1)
                    };
                    if got != Some(*e) {
                        why = Some(format!("{} = {:?}, expected {}", n, got, e));
                        break;
                    }
                }
            }
            Some(s) => why = Some(stop_str(s)),
            None => {}
        }
        r.count("comparisons", 1);
        if let Some(w) = why {
            r.class = "pinned witness: violated".into();
            r.violate(
                &format!("pin:{}", pin.name),
                &format!("{} pinned witness '{}' at -O{}: {}\n--- source\n{}", prop, pin.name, lvl, w, pin.src),
                json!({"kind": "pin", "name": pin.name, "opt": lvl, "why": w, "source": pin.src, "listing": pr.listing}),
            );
            break;
        }
    }
    r.sample = Some(json!({"kind": "pin", "name": pin.name, "source": pin.src, "class": r.class}));
    r
}

pub fn c01_pins() -> Vec<Pin> {
    vec![
        // ---- fixed on this tree (regression probes: must stay silent)
        Pin {
            name: "y_self_assign_flags",
            src: "unsigned char r; void main() { r = 0; Y = Y; switch (Y) { case 0: r = 3; } }",
            init: &[],
            x: 0,
            y: 161,
            expect: &[("r", 0)],
        },
        Pin {
            name: "flags_after_16bit_compare",
            src: "unsigned short s; unsigned char r; void main() { r = 0; Y = 7; if (s < s || Y) r = 1; }",
            init: &[("s", 254)],
            x: 0,
            y: 0,
            expect: &[("r", 1)],
        },
        Pin {
            name: "else_after_short_circuit",
            src: "unsigned char g, h, s, t; void main() { if (X < g && h) s = 1; else if (h) t++; }",
            init: &[("g", 0), ("h", 0), ("s", 0), ("t", 5)],
            x: 154,
            y: 0,
            expect: &[("t", 5), ("s", 0)],
        },
        Pin {
            name: "or_zero_before_push",
            src: "unsigned char a, g; void main() { Y = 3; g = (a | 46) ^ (0 | Y); }",
            init: &[("a", 1)],
            x: 0,
            y: 0,
            expect: &[("g", 44)],
        },
        Pin {
            name: "two_calls_in_expression",
            src: "unsigned char a, b, c; char f(char x) { return x + 1; } char g(char x) { return x + 2; } void main() { a = 10; b = 20; c = f(a) + g(b); }",
            init: &[],
            x: 0,
            y: 0,
            expect: &[("c", 33)],
        },
        Pin {
            name: "call_result_then_operand",
            src: "unsigned char a, y, x; char f() { return 40; } void main() { y = 3; x = f() - (y & 1); }",
            init: &[],
            x: 0,
            y: 0,
            expect: &[("x", 39)],
        },
        Pin {
            name: "eq_binds_looser_than_relational",
            src: "unsigned char a, b, c, r; void main() { a = 1; b = 0; c = 1; r = 0; if (a == b < c) r = 1; }",
            init: &[],
            x: 0,
            y: 0,
            expect: &[("r", 1)],
        },
        Pin {
            name: "flags_after_16bit_shift_assign",
            src: "unsigned char g, l, r; unsigned short s; void main() { l = g; s >>= 5; r = 2; if (l) r = 1; }",
            init: &[("g", 0), ("s", 0x0100)],
            x: 0,
            y: 0,
            expect: &[("r", 2)],
        },
        Pin {
            name: "flags_after_sty_assign",
            src: "unsigned char g, l, r; void main() { l = g; l = Y; r = 7; switch (l) { case 0: r = 1; } }",
            init: &[("g", 5)],
            x: 0,
            y: 0,
            expect: &[("r", 1)],
        },
        Pin {
            name: "csleep_then_flag_test",
            src: "unsigned char a, r; void main() { X = a; csleep(5); r = 0; if (X == 0) r = 1; }",
            init: &[("a", 0)],
            x: 9,
            y: 0,
            expect: &[("r", 1)],
        },
        // ---- recorded findings (see known_findings.json): the random pools are kept out of
        // these families by the generator rules named after them
        Pin {
            name: "postinc_in_condition",
            src: "unsigned char i, n; void main() { i = 0; n = 7; if (i++ == 3) n = 1; }",
            init: &[],
            x: 0,
            y: 0,
            expect: &[("i", 1), ("n", 7)],
        },
        Pin {
            name: "while_postdec",
            src: "unsigned char i, n; void main() { i = 3; n = 0; while (i--) n++; }",
            init: &[],
            x: 0,
            y: 0,
            expect: &[("n", 3), ("i", 255)],
        },
        Pin {
            name: "signed_relational_no_overflow_flag",
            src: "signed char a, b; unsigned char r; void main() { r = 0; if (a < b) r = 1; }",
            init: &[("a", 100), ("b", 0x9c)], // 100 < -100 is false
            x: 0,
            y: 0,
            expect: &[("r", 0)],
        },
        Pin {
            name: "wide_dest_bnot",
            src: "unsigned short s; void main() { s = ~s; }",
            init: &[("s", 0x1234)],
            x: 0,
            y: 0,
            expect: &[("s", 0xedcb)],
        },
        Pin {
            name: "wide_dest_comparison_value",
            src: "unsigned char g; short s; void main() { s = (g == 101) + s; }",
            init: &[("g", 255), ("s", 0)],
            x: 0,
            y: 0,
            expect: &[("s", 0)],
        },
        Pin {
            name: "wide_dest_call",
            src: "unsigned short s; char f() { return 200; } void main() { s = 0x5555; s = f(); }",
            init: &[],
            x: 0,
            y: 0,
            expect: &[("s", 200)],
        },
        Pin {
            name: "wide_dest_ternary",
            src: "unsigned char g, a, b; unsigned short s; void main() { s = g ? a : b; }",
            init: &[("g", 1), ("a", 7), ("b", 9), ("s", 0x4444)],
            x: 0,
            y: 0,
            expect: &[("s", 7)],
        },
        Pin {
            name: "compare_const_exceeds_type",
            src: "unsigned char g, r; void main() { r = 0; if (g >= 4660) r = 1; }",
            init: &[("g", 0x40)], // 4660 = 0x1234: a char is never >= 4660
            x: 0,
            y: 0,
            expect: &[("r", 0)],
        },
        Pin {
            name: "unsigned_relational_zero",
            src: "unsigned char l, r; void main() { r = 0; X = 0; while (X != 5) { if (l > 0) break; X++; } r = X; }",
            init: &[("l", 16)],
            x: 0,
            y: 0,
            expect: &[("r", 0)],
        },
        Pin {
            name: "unsigned_less_than_zero",
            src: "unsigned char g, r; void main() { r = 0; if (g < 0) r = 1; }",
            init: &[("g", 200)],
            x: 0,
            y: 0,
            expect: &[("r", 0)],
        },
        Pin {
            name: "cond_value_in_arith",
            src: "unsigned char a, b, c, r; void main() { r = (a ^ b) + (c || c); }",
            init: &[("a", 6), ("b", 3), ("c", 1)],
            x: 0,
            y: 0,
            expect: &[("r", 6)],
        },
        Pin {
            name: "ysave_in_condition",
            src: "unsigned char arr[8]; unsigned char l, n; void main() { n = 0; for (Y = 0; Y < 3; Y++) { if (arr[l & 7]) continue; n++; } }",
            init: &[("l", 0)],
            x: 0,
            y: 0,
            // arr is filled with 0xAA by the pin runner: every iteration continues, the loop still runs 3 times
            expect: &[("n", 0), ("Y", 3)],
        },
        Pin {
            name: "cmp_indexed_vs_register",
            src: "unsigned char arr[8]; unsigned char r; void main() { Y = 3; r = arr[Y] > Y; }",
            init: &[],
            x: 0,
            y: 0,
            expect: &[("r", 1)], // arr[3] = 0xAA > 3
        },
        Pin {
            name: "y_scratch_with_y",
            src: "unsigned char arr[8]; unsigned char g; void main() { g = 5; Y = 2; arr[g & 7] = Y; g = arr[5]; }",
            init: &[],
            x: 0,
            y: 0,
            expect: &[("g", 2)],
        },
        Pin {
            name: "deref_with_y",
            src: "unsigned char arr[8]; char *p; unsigned char g; void main() { p = arr; arr[0] = 9; Y = 2; arr[Y] = *p; g = arr[2]; }",
            init: &[],
            x: 0,
            y: 0,
            expect: &[("g", 9)],
        },
        Pin {
            name: "switch_computed_case0",
            src: "unsigned char g, r; void main() { r = 0; switch (g & 1) { case 1: case 0: r = 5; } }",
            init: &[("g", 2)],
            x: 0,
            y: 0,
            expect: &[("r", 5)],
        },
        Pin {
            name: "signed_array_element_variable_subscript",
            src: "signed char sa[4]; unsigned char i; short s, t; void main() { sa[1] = -2; i = 1; s = sa[i]; t = sa[i] + 1; }",
            init: &[],
            x: 0,
            y: 0,
            expect: &[("s", 65534), ("t", 65535)],
        },
        Pin {
            name: "return_postincrement",
            src: "unsigned char i, t, r; unsigned char nxt() { return i++; } void main() { i = 0; r = 0; t = nxt(); if (t) r = 1; t = nxt(); if (t) r |= 2; }",
            init: &[],
            x: 0,
            y: 0,
            expect: &[("i", 2), ("r", 2)],
        },
        Pin {
            name: "carry_after_register_step",
            src: "unsigned char a, b, r, q; void main() { a = 1; b = 2; X = 5; q = 0; r = a - b; X--; if (X >= 1) q = 1; }",
            init: &[],
            x: 0,
            y: 0,
            expect: &[("q", 1)],
        },
        Pin {
            name: "signed_return_value",
            src: "signed char g; unsigned char r; signed char f() { return g; } void main() { g = -3; r = 0; if (f() < 2) r = 1; }",
            init: &[],
            x: 0,
            y: 0,
            expect: &[("r", 1)],
        },
        Pin {
            name: "flags_after_16bit_increment",
            src: "short w; unsigned char r; void main() { r = 0; w = 0x7f; w++; if (w < 0) r = 4; }",
            init: &[],
            x: 0,
            y: 0,
            expect: &[("r", 0)],
        },
        Pin {
            name: "flags_after_sty_indexed",
            src: "unsigned char t[4]; unsigned char a, r; void main() { r = 0; a = 0; X = 1; Y = 7; t[X] = a; t[X] = Y; if (t[X]) r = 2; }",
            init: &[],
            x: 0,
            y: 0,
            expect: &[("r", 2)],
        },
        Pin {
            name: "truth_of_indexed_short_element",
            src: "short s[4]; unsigned char r; void main() { r = 0; X = 1; s[1] = 0x0100; if (s[X]) r = 1; Y = 1; if (!s[Y]) r = 9; }",
            init: &[],
            x: 0,
            y: 0,
            expect: &[("r", 1)],
        },
        Pin {
            name: "compound_assignment_on_pointer_element",
            src: "char *pp[2]; unsigned char arr[4]; char *q; void main() { pp[1] = arr; pp[1] += 255; pp[1] += 5; q = pp[1]; }",
            init: &[],
            x: 0,
            y: 0,
            expect: &[("q", 0x85 + 260)],
        },
        Pin {
            name: "identifier_starting_with_a_keyword",
            src: "unsigned char where, elsewhere, return_value, _value, gotox, r; unsigned char f() { return_value = 3; return 7; } void main() { r = 0; if (r) r = 5; elsewhere = 3; gotox = 2; r = f(); }",
            init: &[("where", 0), ("_value", 0)],
            x: 0,
            y: 0,
            expect: &[("elsewhere", 3), ("where", 0), ("return_value", 3), ("_value", 0), ("gotox", 2), ("r", 7)],
        },
        Pin {
            name: "short_array_rmw_incdec",
            src: "short sa[4]; short s, t; void main() { sa[2] = 0x0100; --sa[2]; s = sa[2]; Y = 1; sa[Y] = 0x01ff; sa[Y]++; t = sa[1]; }",
            init: &[],
            x: 0,
            y: 0,
            expect: &[("s", 0x00ff), ("t", 0x0200)],
        },
        Pin {
            name: "short_array_rmw",
            src: "short sa[4]; short s; void main() { sa[1] = 0x0300; sa[1] >>= 1; s = sa[1]; }",
            init: &[],
            x: 0,
            y: 0,
            expect: &[("s", 0x0180)],
        },
        Pin {
            name: "wide_compare_le_gt",
            src: "unsigned short a, b; unsigned char r; void main() { r = 0; if (a <= b) r = 1; }",
            init: &[("a", 0), ("b", 0xffff)],
            x: 0,
            y: 0,
            expect: &[("r", 1)],
        },
        Pin {
            name: "wide_dest_shift",
            src: "unsigned short s; void main() { s = s << 5; }",
            init: &[("s", 0x0123)],
            x: 0,
            y: 0,
            expect: &[("s", 0x2460)],
        },
        Pin {
            name: "flags_leak_across_functions",
            src: "unsigned char g0, g2, r; void f0() { g2 &= g0; } void main() { if (g2) r = 1; else r = 2; }",
            init: &[("g2", 0), ("g0", 1)],
            x: 0,
            y: 0,
            expect: &[("r", 2)],
        },
        Pin {
            name: "mixed_signedness_follows_left",
            src: "signed char l; unsigned char g, r; void main() { r = l + g >> 6; }",
            init: &[("l", 0xff), ("g", 0x81)], // -1 + 129 = 128 (also 0x80 in 8 bits, unsigned): 128 >> 6 = 2
            x: 0,
            y: 0,
            expect: &[("r", 2)],
        },
        Pin {
            name: "wide_condition_arith",
            src: "unsigned short s; unsigned char r; void main() { r = 0; if (s & s) r = 1; }",
            init: &[("s", 0x8000)],
            x: 0,
            y: 0,
            expect: &[("r", 1)],
        },
        Pin {
            name: "nested_call_clobbers_static_params",
            src: "unsigned char r; char f(char a, char b) { return a - b; } void main() { r = f(10, f(3, 1)); }",
            init: &[],
            x: 0,
            y: 0,
            expect: &[("r", 8)],
        },
        Pin {
            name: "y_scratch_in_return",
            src: "unsigned char arr[8]; char *p; unsigned char r; char f() { return *p; } void main() { p = arr; Y = 77; r = f(); r = Y; }",
            init: &[],
            x: 0,
            y: 0,
            expect: &[("r", 77)],
        },
        Pin {
            name: "y_scratch_call_arg",
            src: "unsigned char arr[8]; unsigned char l, r; void f(char a, char b) { r = b; } void main() { l = 3; f(1, arr[l & 7]); }",
            init: &[],
            x: 0,
            y: 0,
            expect: &[("r", 0xAA)],
        },
        Pin {
            name: "y_scratch_with_call",
            src: "unsigned char arr[8]; char *p; unsigned char r; char f(char a, char b) { return 1; } void main() { p = arr; arr[0] = 4; r = *p + f(2, 3); }",
            init: &[],
            x: 0,
            y: 0,
            expect: &[("r", 5)],
        },
        Pin {
            name: "deref_in_ternary",
            src: "unsigned char arr[8]; char *p; unsigned char g, r; void main() { p = arr; arr[0] = 4; Y = 66; r = 129 <= g ? *p : 247; g = Y; }",
            init: &[("g", 0)], // the arm without the dereference still "restores" Y from a cell nobody saved
            x: 0,
            y: 0,
            expect: &[("r", 247), ("g", 66)],
        },
    ]
}

pub fn run_c01_pin(idx: u64) -> CaseResult {
    let pins = c01_pins();
    check_pin("C01", &pins[idx as usize], &[0, 1])
}
