// The shared corpus of program sources that structural monitors (C04 sizes, C13 assembles,
// C05 determinism, C11 decoration) run over.

use crate::cgen::*;
use crate::cmodel::*;
use crate::driver::Opts;

pub const KINDS: [&str; 11] = ["matrix", "rand", "bait", "superchip", "ram3e", "ram3ep", "hw", "pad", "stress", "wild", "wildsplit"];

pub fn cfg_split(scheme_3e: bool) -> GenCfg {
    GenCfg { split_mem: 4, scheme_3e, ptrs: true, ..GenCfg::default() }
}

/// structure-only profile: see GenCfg::wild
pub fn cfg_wild(split: bool) -> GenCfg {
    GenCfg { wild: true, split_mem: if split { 4 } else { 0 }, hw: true, excl_signed_relational: false, ..GenCfg::default() }
}

pub fn cfg_hw() -> GenCfg {
    GenCfg { hw: true, ..GenCfg::default() }
}

pub fn pool_len(kind: &str) -> u64 {
    match kind {
        "matrix" => crate::matrix::matrix_len(),
        "rand" => 300_000,
        "bait" => 150_000,
        "pad" => 20_000,
        "stress" => 100_000,
        _ => 100_000,
    }
}

/// program, option modifier (defines)
pub fn corpus_program(kind: &str, idx: u64) -> (Program, Opts) {
    let mut o = Opts::default();
    let p = match kind {
        "matrix" => crate::matrix::matrix_program(idx % crate::matrix::matrix_len()),
        "rand" => gen_program("C01", idx, &crate::mon_c01::cfg_c01()),
        "bait" => crate::bait::bait_program(idx),
        "superchip" => gen_program("split", idx, &cfg_split(false)),
        "ram3e" => {
            o.defines.push("__3E__".into());
            gen_program("split3e", idx, &cfg_split(true))
        }
        "ram3ep" => {
            o.defines.push("__3E_PLUS__".into());
            gen_program("split3ep", idx, &cfg_split(true))
        }
        "hw" => gen_program("hw", idx, &cfg_hw()),
        "pad" => crate::mon_c03::padded_program(idx),
        "wild" => gen_program("wild", idx, &cfg_wild(false)),
        "wildsplit" => gen_program("wildsplit", idx, &cfg_wild(true)),
        // (no monitor that uses this corpus judges what the programs compute: signed relational
        // operators, a recorded C01 family, are part of half of the label-stress programs)
        _ => stress_program(idx, &GenCfg { excl_signed_relational: idx % 2 == 0, ..crate::mon_c01::cfg_c01() }),
    };
    (p, o)
}
